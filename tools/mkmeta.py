#!/usr/bin/env python3
"""usage: mkmeta.py <seed-id> "<caught_by text>"  — writes /verif/seeded/<id>/meta.json from the agent's SEED_META.json, confirm.log and the check logs"""
import json, os, re, sys, glob
sid, caught = sys.argv[1], sys.argv[2]
d = f"/verif/seeded/{sid}"
sm = json.load(open(f"{d}/SEED_META.json"))
log = open(f"{d}/confirm.log").read() if os.path.exists(f"{d}/confirm.log") else ""
suite = "?"
m = re.search(r"== pinned suite WITH the change.*?\n(.*?)== done", log, re.S)
if m:
    body = m.group(1)
    s = re.search(r"Summary.*", body)
    fails = sorted(set(re.findall(r"(?:FAIL|TIMEOUT|SIGABRT|SIGSEGV)\s+\[[^\]]*\]\s+(?:\(\d+/\d+\)\s+)?(\S+ \S+)", body)))
    suite = (s.group(0).strip() if s else body.strip()[:200]) + ("; not passed: " + ", ".join(fails) if fails else "")
    mm = re.search(r"(\d+) tests run: (\d+) passed", suite)
    if mm and all("try_from_js" in f for f in fails) and int(mm.group(1)) - int(mm.group(2)) == len(fails):
        suite = f"{mm.group(2)} of {mm.group(1)} passed" + ("; timed out: boa_macros_tests::derive try_from_js (trybuild recompiles the engine inside the 300 s per-test limit; it times out on the unchanged tree as well whenever its cache is cold)" if fails else "")
demo_without = re.search(r"== demo WITHOUT the change\n(.*?)== demo WITH", log, re.S)
demo_with = re.search(r"== demo WITH the change\n(.*?)(== pinned|== done|$)", log, re.S)
if os.path.exists(f"{d}/confirm-O.log"):
    # boa_cli keeps the optimizer off unless -O is given: the demonstration was run again with -O
    lo = open(f"{d}/confirm-O.log").read()
    demo_without = re.search(r"WITHOUT the change\n(.*?)== demo", lo, re.S)
    demo_with = re.search(r"WITH the change\n(.*?)(== done|$)", lo, re.S)
checks = {}
for f in sorted(glob.glob(f"{d}/check-*.log")):
    t = open(f).read()
    last = [l for l in t.split("\n") if l.startswith("[C")]
    checks[os.path.basename(f)[6:-4]] = {"violations_reported": len(re.findall(r"^VIOLATION", t, re.M)), "summary": last[-1] if last else t.strip().split("\n")[-2:],
                                        "first": (re.findall(r"^VIOLATION.*", t, re.M) or [""])[0][:400]}
meta = {"property": sm.get("property", sid[:3]), "summary": sm.get("summary"), "needs": sm.get("needs"), "files": sm.get("files"), "demo": sm.get("demo"),
        "base_commit": open(f"{d}/base_commit.txt").read().strip() if os.path.exists(f"{d}/base_commit.txt") else None,
        "confirmed_on": re.search(r"base (\w+)", log).group(1) if re.search(r"base (\w+)", log) else None,
        "demo_without_change": demo_without.group(1).strip()[-600:] if demo_without else None,
        "demo_with_change": demo_with.group(1).strip()[-800:] if demo_with else None,
        "suite": suite, "agent_tests_run": sm.get("tests_run"), "caught_by": caught, "checks_run": checks,
        "what_i_ran": [f"/verif/tools/confirm_seed.sh {sid} suite  (scratch worktree /tmp/confirm at /repo HEAD: demonstration without and with the change, pinned nextest suite with the change)",
                       f"git -C /repo apply seeded/{sid}/patch.diff; ./check <id> quick; git -C /repo checkout -- .  (logs seeded/{sid}/check-*.log)"]}
json.dump(meta, open(f"{d}/meta.json", "w"), indent=1)
print(json.dumps(meta, indent=1)[:1500])
