#!/bin/bash
# usage: try_seed.sh <seed-id> <check-id> [tier]  — apply the seeded change to /repo, run the check, revert. Output in /verif/seeded/<seed-id>/check-<check-id>-<tier>.log
set -u
sid=$1; cid=$2; tier=${3:-quick}
cd /verif
[ -z "$(git -C /repo status --short)" ] || { echo "/repo not clean"; exit 2; }
git -C /repo apply /verif/seeded/$sid/patch.diff || exit 2
cp evidence/$cid.json /tmp/ev-$cid.bak 2>/dev/null
timeout 10800 ./check $cid $tier > seeded/$sid/check-$cid-$tier.log 2>&1
echo "exit=$?" >> seeded/$sid/check-$cid-$tier.log
git -C /repo checkout -- .
cp /tmp/ev-$cid.bak evidence/$cid.json 2>/dev/null
grep -c '^VIOLATION' seeded/$sid/check-$cid-$tier.log; tail -3 seeded/$sid/check-$cid-$tier.log
