#!/bin/bash
# usage: collect_seed.sh <Cxx> — copy patch, demonstration and meta from /tmp/seed-<Cxx> to /verif/seeded/<Cxx>/ and record the base commit
set -u
id=$1; src=/tmp/seed-$id; dst=/verif/seeded/$id
mkdir -p $dst
git -C $src diff -- . ':(exclude)SEED_*' > $dst/patch.diff
git -C $src rev-parse HEAD > $dst/base_commit.txt
for f in SEED_DEMO.js SEED_DEMO.rs SEED_META.json; do [ -f $src/$f ] && cp $src/$f $dst/; done
git -C $src ls-files --others --exclude-standard | grep -v '^SEED_' | grep -v '^target' | while read f; do mkdir -p $dst/extra/$(dirname $f); cp $src/$f $dst/extra/$f; done
ls -la $dst; wc -l $dst/patch.diff
