#!/bin/bash
# usage: [CONFIRM_DIR=<scratch worktree>] confirm_seed.sh <seed-id> [suite]
# Confirms /verif/seeded/<Cxx>/ (already collected by collect_seed.sh) in the scratch worktree $CD at /repo's HEAD:
# demonstration without and with the change, then (if "suite") the pinned suite with the change. Log: /verif/seeded/<Cxx>/confirm.log
set -u
CD=${CONFIRM_DIR:-/tmp/confirm}
id=$1; suite=${2:-}
dst=/verif/seeded/$id
log=$dst/confirm.log
echo "== confirm $id $(date)" > $log
if [ ! -d $CD ]; then git -C /repo worktree add -q --detach $CD HEAD >> $log 2>&1; fi
cd $CD && git checkout -q --detach $(git -C /repo rev-parse HEAD) && git checkout -- . && git clean -fdq -e target
echo "base $(git rev-parse --short HEAD) (seed was written on $(cut -c1-7 $dst/base_commit.txt 2>/dev/null))" >> $log
if ! git apply --check $dst/patch.diff 2>>$log; then echo "PATCH DOES NOT APPLY" >> $log; exit 1; fi
export CARGO_TARGET_DIR=$CD/target
run_demo() {
  if [ -f $dst/SEED_DEMO.js ]; then cp $dst/SEED_DEMO.js $CD/SEED_DEMO.js; timeout 7200 cargo run --offline -q -p boa_cli -- SEED_DEMO.js 2>&1 | tail -40; fi
  if [ -d $dst/extra ]; then cp -r $dst/extra/* $CD/; fi
  if [ -f $dst/SEED_DEMO.rs ] && [ ! -d $dst/extra ]; then mkdir -p $CD/core/engine/tests; cp $dst/SEED_DEMO.rs $CD/core/engine/tests/seed_demo.rs; fi
  for t in $(cd $CD && git ls-files --others --exclude-standard | grep 'tests/.*\.rs$'); do
     crate=$(echo $t | sed -E 's#core/([a-z_]+)/tests/.*#boa_\1#'); name=$(basename $t .rs)
     echo "-- cargo test -p $crate --test $name"; timeout 7200 cargo test --offline -p $crate --test $name 2>&1 | grep -vE '^\s*(Compiling|Finished|Running)' | tail -25
  done
}
echo "== demo WITHOUT the change" >> $log; run_demo >> $log 2>&1
git apply $dst/patch.diff
echo "== demo WITH the change" >> $log; run_demo >> $log 2>&1
rm -f $CD/SEED_DEMO.js; for t in $(git ls-files --others --exclude-standard | grep 'tests/.*\.rs$'); do rm -f $t; done
if [ "$suite" = suite ]; then
  echo "== pinned suite WITH the change (nextest profile pb)" >> $log
  timeout 14400 cargo nextest run --workspace --no-fail-fast --tool-config-file pb:/w/lib/nextest.toml --profile pb --test-threads 8 --offline 2>&1 | grep -E "Summary|FAIL|TIMEOUT|SIGABRT|SIGSEGV|error" | sort | uniq -c | tail -15 >> $log
fi
git checkout -- . ; git clean -fdq -e target
echo "== done $(date)" >> $log
