#!/bin/bash
cd /verif
while IFS=$'\t' read -r id txt; do
  [ -f seeded/$id/SEED_META.json ] || continue
  python3 tools/mkmeta.py $id "$txt" > /dev/null && echo "meta $id: $(python3 -c "import json;print(json.load(open('/verif/seeded/$id/meta.json'))['suite'][:120])")"
done < tools/caught.tsv
