#!/bin/bash
# usage: thorough_queue.sh Cxx ...   (sequential thorough tiers against /repo, log out/thorough_c.log)
cd /verif
for c in "$@"; do
  [ -z "$(git -C /repo status --short)" ] || { echo "/repo not clean before $c" >> out/thorough_c.log; exit 2; }
  echo "== $c $(date)" >> out/thorough_c.log
  VERIF_TARGET=/verif/target-main VERIF_TARGET_ENUM=/verif/target-enum VERIF_NPROC=${VERIF_NPROC:-12} timeout 9000 ./check $c thorough > out/thorough_$c.log 2>&1
  echo "exit=$? $(grep '^\[C' out/thorough_$c.log | tail -1)" >> out/thorough_c.log
done
