// AUTHORING TIME ONLY: run C18 job sources in V8 (fresh vm context per job) to cross-validate the reference model.
// usage: node --harmony-json-parse-with-source c18_node_runner.js in.jsonl out.jsonl
// Never used by ./check C18 unless C18_ENGINE=node is set by hand.
'use strict';
const fs = require('fs'), vm = require('vm');
const [inp, outp] = process.argv.slice(2);
const out = fs.openSync(outp, 'w');
for (const line of fs.readFileSync(inp, 'utf8').split('\n')) {
  if (!line) continue;
  const job = JSON.parse(line);
  const lines = [];
  const ctx = vm.createContext({ __emit: (s) => { lines.push(String(s)); } });
  let completion = 'Value undefined';
  try {
    vm.runInContext(job.src, ctx, { timeout: 600000 });
  } catch (e) {
    completion = 'Throw ' + (e && e.name ? 'Error:' + e.name : String(e));
  }
  fs.writeSync(out, JSON.stringify({ i: job.i, lines, completion }) + '\n');
}
fs.closeSync(out);
