var __show = (function () {
  var isArray = Array.isArray, ownKeys = Reflect.ownKeys, getDesc = Object.getOwnPropertyDescriptor;
  var str = String, objToString = Object.prototype.toString, call = Function.prototype.call;
  function q(s) {
    var r = '"';
    for (var i = 0; i < s.length; i++) {
      var c = s.charCodeAt(i);
      if (c === 34 || c === 92) r += '\\' + s[i];
      else if (c >= 32 && c < 127) r += s[i];
      else { var h = c.toString(16); r += '\\u' + '0000'.slice(h.length) + h; }
    }
    return r + '"';
  }
  function show(v, d, seen) {
    switch (typeof v) {
      case 'undefined': return 'undefined';
      case 'boolean': return v ? 'true' : 'false';
      case 'number': return (v === 0 && 1 / v < 0) ? '-0' : str(v);
      case 'bigint': return str(v) + 'n';
      case 'string': return q(v);
      case 'symbol': return 'Symbol(' + str(v.description) + ')';
      case 'function': return 'fn:' + (typeof v.name === 'string' ? v.name : '?');
    }
    if (v === null) return 'null';
    if (d > 3) return '...';
    for (var i = 0; i < seen.length; i++) if (seen[i] === v) return '<cycle>';
    seen = seen.concat([v]);
    if (v instanceof Error) return 'Error:' + str(v.name);
    if (isArray(v)) {
      var parts = [];
      for (var i = 0; i < v.length && i < 20; i++) parts.push(i in v ? show(v[i], d + 1, seen) : '<hole>');
      return '[' + parts.join(',') + ']';
    }
    var keys = ownKeys(v), parts = [];
    for (var i = 0; i < keys.length && i < 20; i++) {
      var k = keys[i], ds = getDesc(v, k);
      if (!ds || !ds.enumerable) continue;
      var ks = typeof k === 'symbol' ? '[' + show(k, 0, seen) + ']' : k;
      parts.push(ks + ':' + ('value' in ds ? show(ds.value, d + 1, seen) : '<accessor>'));
    }
    return '{' + parts.join(',') + '}';
  }
  return function (v) { return show(v, 0, []); };
})();
var print = (function () {
  var emit = __emit, show = __show;
  return function () { var a = []; for (var i = 0; i < arguments.length; i++) a.push(show(arguments[i])); emit(a.join(' ')); };
})();
