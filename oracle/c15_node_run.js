// Authoring-time only: runs C15 jobs ({"kind":"c15","hist":[src...]}) under node (V8) with the same prelude, to
// cross-validate the Python byte model (vlib/c15_model.py).  Never used by the check at run time.
// usage: node c15_node_run.js jobs.jsonl out.jsonl
'use strict';
const fs = require('fs'), vm = require('vm'), path = require('path');
const prelude = fs.readFileSync(path.join(__dirname, 'prelude.js'), 'utf8');
const jobs = fs.readFileSync(process.argv[2], 'utf8').split('\n').filter(Boolean).map(l => JSON.parse(l));
const out = fs.openSync(process.argv[3], 'w');
for (const job of jobs) {
  let lines = [];
  const sandbox = {
    __emit: s => { lines.push(String(s)); },
    __detach: buf => {
      if (!(Object.prototype.toString.call(buf) === '[object ArrayBuffer]')) throw new TypeError('not an ArrayBuffer');
      const n = buf.byteLength;
      if (buf.detached === true || (n === 0 && isDetached(buf))) throw new TypeError('already detached');
      structuredClone(buf, { transfer: [buf] });
      return n;
    },
  };
  function isDetached(buf) { try { new Uint8Array(buf); return false; } catch (e) { return true; } }
  const ctx = vm.createContext(sandbox);
  vm.runInContext(prelude, ctx);
  const steps = [];
  for (const src of job.hist) {
    lines = [];
    let completion;
    try { const v = vm.runInContext(src, ctx); completion = 'Value ' + ctx.__show(v); }
    catch (e) { completion = 'Throw ' + (e && e.name); }
    steps.push({ lines, completion });
  }
  fs.writeSync(out, JSON.stringify({ steps }) + '\n');
}
fs.closeSync(out);
