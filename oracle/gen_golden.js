// Authoring-time only: run programs in fresh V8 contexts with the shared prelude and print their traces.
// usage: node gen_golden.js <in.jsonl> <out.jsonl>     in: {"src":...} per line; out: {"lines":[...],"completion":"..."} per line
const vm = require('vm'), fs = require('fs');
const prelude = fs.readFileSync(__dirname + '/prelude.js', 'utf8');
const preludeScript = new vm.Script(prelude);
const inp = fs.readFileSync(process.argv[2], 'utf8').split('\n').filter(x => x);
process.on('unhandledRejection', () => {});
const out = [];
for (const line of inp) {
  const job = JSON.parse(line);
  const lines = [];
  const ctx = vm.createContext({ __emit: (s) => { lines.push(String(s)); } }, { microtaskMode: 'afterEvaluate' });
  preludeScript.runInContext(ctx);
  const srcs = job.hist || [job.src];
  let completion;
  const steps = [];
  for (const src of srcs) {
    let script = null;
    const l0 = lines.length;
    try { script = new vm.Script(src); } catch (e) { completion = 'EarlySyntaxError'; }
    if (script) {
      try {
        const v = script.runInContext(ctx, { timeout: 3000 });
        completion = 'Value ' + ctx.__show(v);
      } catch (e) {
        if (e && e.code === 'ERR_SCRIPT_EXECUTION_TIMEOUT') completion = 'TIMEOUT';
        else { let s; try { s = ctx.__show(e); } catch (e2) { s = '?'; } completion = 'Throw ' + s; }
      }
    }
    steps.push({ lines: lines.slice(l0), completion });
  }
  out.push(JSON.stringify(job.hist ? { steps } : { lines, completion }));
}
fs.writeFileSync(process.argv[3], out.join('\n') + '\n');
