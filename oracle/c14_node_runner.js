// Authoring-time only (C14): run `hist` jobs of the C14 kit on V8, one fresh vm context per job.
// usage: node c14_node_runner.js <in.jsonl> <out.jsonl> [--fresh]
// Default: ONE vm context per process (jobs with the same kit text share it, so V8 runs the kit optimised; the kit keeps
// no state between steps); --fresh creates a context per job (used once at authoring time to validate the sharing).
// in : {"hist": [KIT, "Z(..)", "T(..)", ...]} per line          (same job objects as the boa side)
// out: {"steps": [{"lines": [...], "completion": "Value undefined"}, ...]} per line   (same shape as vrun's hist result)
// Unlike gen_golden.js all steps after the kit run inside ONE script (the kit catches every JS exception itself), which
// avoids a vm.Script + watchdog per step; a step that throws nevertheless is reported as completion "Throw ...".
const vm = require('vm'), fs = require('fs');
const prelude = fs.readFileSync(__dirname + '/prelude.js', 'utf8');
const preludeScript = new vm.Script(prelude);
const inp = fs.readFileSync(process.argv[2], 'utf8').split('\n').filter(x => x);
const out = [];
const fresh = process.argv.includes('--fresh');
let kitSrc = null, kitScript = null, ctx = null, lines = [];
for (const line of inp) {
  const job = JSON.parse(line);
  const steps = [];
  if (fresh || ctx === null || job.hist[0] !== kitSrc) {
    lines = [];
    ctx = vm.createContext({ __emit: (s) => { lines.push(String(s)); } });
    preludeScript.runInContext(ctx);
    if (job.hist[0] !== kitSrc) { kitSrc = job.hist[0]; kitScript = new vm.Script(kitSrc); }
    let completion = 'Value undefined';
    try { kitScript.runInContext(ctx); } catch (e) { completion = 'Throw ' + String(e); }
    steps.push({ lines, completion });
    lines = [];
    ctx.__cut = () => { const l = lines; lines = []; return l; };
  } else steps.push({ lines: [], completion: 'Value undefined' });
  const body = job.hist.slice(1).map(s =>
    'try { ' + s + '; R.push({lines: __cut(), completion: "Value undefined"}); } catch (e) { R.push({lines: __cut(), completion: "Throw " + String(e)}); }').join('\n');
  const res = vm.runInContext('(function(){ var R = [];\n' + body + '\nreturn R; })()', ctx, { timeout: 120000 });
  for (const r of res) steps.push({ lines: Array.from(r.lines), completion: r.completion });
  out.push(JSON.stringify({ steps }));
}
fs.writeFileSync(process.argv[3], out.join('\n') + '\n');
