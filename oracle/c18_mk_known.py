#!/usr/bin/env python3
"""scratch: triage output -> /verif/findings/C18-<class>.list (quick space) + C18-<class>.thorough.list (rest) + C18.known
usage: mk_known.py --quick q1.txt q2.txt --thorough t1.txt"""
import sys, re, os, collections
CLASSES = collections.OrderedDict([
 ("parse-lone-surrogate-raw", "JSON.parse rejects a text containing a raw lone surrogate inside a string (valid JSON): Json::parse converts the text with to_std_string(), which fails on unpaired surrogates"),
 ("parse-surrogate-escape", "JSON.parse rejects a \\\\uD800-\\\\uDFFF escape that is not part of a pair (valid JSON): the serde_json::Value pre-validation refuses lone surrogate escapes"),
 ("parse-number-overflow", "JSON.parse rejects a number whose value overflows to Infinity, e.g. 1e400 (valid JSON, must give Infinity): the serde_json::Value pre-validation reports 'number out of range'"),
])
def read(paths):
    by = collections.defaultdict(dict)
    for path in paths:
        for line in open(path, encoding="utf-8", errors="surrogateescape"):
            m = re.match(r"TRIAGE ([0-9a-f]{12}) ([0-9a-f]{12}) \[([^\]]+)\] (.*)", line.rstrip("\n"))
            if not m: continue
            ck, ok, cls, text = m.groups()
            if cls not in CLASSES:
                print("UNLISTED CLASS", cls, text[:150]); continue
            by[cls][(ck, ok)] = text
    return by
args = sys.argv[1:]
qi, ti = args.index("--quick"), args.index("--thorough")
q = read(args[qi + 1:ti]); t = read(args[ti + 1:])
fd = "/verif/findings"
def write(p, d, width):
    with open(p, "w", encoding="utf-8", errors="surrogateescape") as f:
        for (ck, ok), text in sorted(d.items()):
            f.write("%s %s %s\n" % (ck, ok, text.split(" -> ")[0].split(" logged ")[0][:width]))
with open(os.path.join(fd, "C18.known"), "w") as f:
    f.write("# C18 known findings: genuine boa defects (DESIGN.md section 4 #12 and one more class), one list per root cause.\n"
            "# <class>.list = inputs of the quick space, <class>.thorough.list = the additional inputs of the thorough space.\n"
            "# Generated from `C18_TRIAGE_OUT=<file> ./check C18 <tier>` (maintenance mode) by oracle/c18_mk_known.py.\n")
    for cls, desc in CLASSES.items():
        tq = q.get(cls, {}); tt = {k: v for k, v in t.get(cls, {}).items() if k not in tq}
        write(os.path.join(fd, "C18-%s.list" % cls), tq, 70)
        f.write('known-list: property=C18 file=findings/C18-%s.list class="%s"\n' % (cls, desc))
        if tt:
            write(os.path.join(fd, "C18-%s.thorough.list" % cls), tt, 44)
            f.write('known-list: property=C18 file=findings/C18-%s.thorough.list class="%s"\n' % (cls, desc))
        print(cls, len(tq), len(tt))
