//! `vc07` — C07 "every host entry leaves the VM balanced and the context reusable".
//!
//! A *history* is a sequence of host-entry kinds (Rust-side actions: `Context::eval`,
//! `JsObject::call`, `JsObject::construct`, generator resumption through `JsObject::call`,
//! `Context::run_jobs`, `Module::load_link_evaluate` / `link` / `evaluate`, hand-polled
//! `Script::evaluate_async_with_budget`). A history is executed on ONE fresh context with small
//! runtime limits; around every single host call (a *step*) the VM depths are sampled; after the
//! history a fixed probe script is evaluated.
//!
//! Job kinds (see `custom`):
//! * `c07kinds`  -> names of all entry kinds
//! * `c07cal`    -> calibrate the smallest recursion / stack limits under which the probe passes
//! * `c07hist`   -> one history in full detail (also runs the reference history)
//! * `c07range`  -> an index range of the histories of one length over an alphabet, aggregated
#![allow(missing_docs, clippy::too_many_lines)]

use boa_engine::{
    Context, JsError, JsNativeError, JsResult, JsString, JsValue, Module, NativeFunction, Script, Source,
    builtins::promise::PromiseState, job::PromiseJob,
    object::builtins::JsPromise,
};
use serde_json::{Value, json};
use std::cell::RefCell;
use std::future::Future;
use std::collections::{BTreeMap, BTreeSet, HashMap};
use std::rc::Rc;

// ------------------------------------------------------------------------------------------------
// depths
// ------------------------------------------------------------------------------------------------
const NCOMP: usize = 7;
const COMP: [&str; NCOMP] = ["frames", "stack_len", "pending_exception", "host_call_depth", "env_depth", "binding_stack_len", "stack_trace"];
type D = [i64; NCOMP];

fn depths(ctx: &Context) -> D {
    let d = boa_engine::verif::vm_depths(ctx);
    [
        d.frames as i64,
        d.stack_len as i64,
        i64::from(d.pending_exception),
        d.host_call_depth as i64,
        d.env_depth as i64,
        d.binding_stack_len as i64,
        ctx.stack_trace().count() as i64,
    ]
}
fn delta(a: &D, b: &D) -> D {
    let mut r = [0; NCOMP];
    for i in 0..NCOMP {
        r[i] = b[i] - a[i];
    }
    r
}
fn delta_text(d: &D) -> String {
    let mut s = Vec::new();
    for i in 0..NCOMP {
        if d[i] != 0 {
            s.push(format!("{}{:+}", COMP[i], d[i]));
        }
    }
    s.join(",")
}

// ------------------------------------------------------------------------------------------------
// the JS side
// ------------------------------------------------------------------------------------------------
const NBIG: usize = 48;

fn setup_source() -> String {
    let params: Vec<String> = (0..NBIG).map(|i| format!("a{i}")).collect();
    let locals: Vec<String> = (0..NBIG).map(|i| format!("v{i}=a{i}+1")).collect();
    let args: Vec<String> = (0..NBIG).map(|i| format!("v{i}")).collect();
    let ones: Vec<String> = (0..NBIG).map(|i| format!("{i}")).collect();
    format!(
        r"
var __count = 0;
function ok(a,b){{ return a+b }}
function bump(){{ __count += 1; return ok(__count, 100) }}
function thrower(a){{ throw new TypeError('t'+a) }}
function callsThrower(a,b,c){{ var x=1,y=2; return thrower(a)+x+y }}
function catches(n){{ var c=0; for(var i=0;i<n;i++){{ try{{ callsThrower(i,2,3) }}catch(e){{ c++ }} }} __count += 1; return c }}
function catchesOwn(n){{ var c=0; for(var i=0;i<n;i++){{ try{{ throw new Error('own') }}catch(e){{ c++ }} }} __count += 1; return c }}
function retFinallyCatch(){{ __count += 1; try{{ return ok(20,__count) }} finally {{ try{{ callsThrower(1,2,3) }}catch(e){{ }} }} }}
function finallyRethrow(){{ try{{ callsThrower(1,2,3) }} finally {{ print('finally ran') }} }}
function rec(n){{ return rec(n+1)+1 }}
function big({params}){{ var {locals}; return big({args})+1 }}
function callBig(){{ return big({ones}) }}
function looper(){{ for(;;){{}} }}
function limitInTry(){{ try{{ rec(0) }}catch(e){{ print('caught!') }} finally{{ print('finally!') }} return 'survived' }}
function loopInTry(){{ try{{ for(;;){{}} }}catch(e){{ print('caught!') }} finally{{ print('finally!') }} return 'survived' }}
function callsNative(a){{ return __nthrow(a,2)+1 }}
function nativeCaught(){{ __count += 1; try{{ __nthrow(1,2) }}catch(e){{ return 'c'+__count }} }}
function reenterThrow(){{ return __ncall(callsThrower,1,2,3)+1 }}
function reenterLimit(){{ return __ncall(rec,0)+1 }}
function reenterCaught(){{ __count += 1; try{{ __ncall(callsThrower,1,2,3) }}catch(e){{ return 'rc'+__count }} }}
function slenCaught(){{ __count += 1; var a=__slen(); try{{ callsThrower(1,2,3) }}catch(e){{ }} var b=__slen(); return b-a }}
function slenClassCaught(){{ __count += 1; var a=__slen(); try{{ K(1,2) }}catch(e){{ }} var b=__slen(); return b-a }}
function slenOwnCaught(){{ __count += 1; var a=__slen(); try{{ throw 1 }}catch(e){{ }} var b=__slen(); return b-a }}
function slenNativeCaught(){{ __count += 1; var a=__slen(); try{{ __nthrow(1,2) }}catch(e){{ }} var b=__slen(); return b-a }}
function slenFinally(){{ __count += 1; var a=__slen(); try{{ try{{ callsThrower(1,2,3) }}finally{{ a += 0 }} }}catch(e){{ }} var b=__slen(); return b-a }}
function slenEvalThrow(){{ __count += 1; var a=__slen(); try{{ (0,eval)('callsThrower(1,2,3)') }}catch(e){{ }} return __slen()-a }}
function slenEvalEdi(){{ __count += 1; var a=__slen(); try{{ (0,eval)('function NaN(){{}}') }}catch(e){{ }} return __slen()-a }}
function classCaught(){{ __count += 1; try{{ K(1,2) }}catch(e){{ return 'kc'+__count }} }}
var K = class K {{ constructor(a){{ this.a=a; __count += 1 }} }};
var D = class D extends K {{ constructor(){{ }} }};
var DRet = class DRet extends K {{ constructor(){{ super(1); __count -= 1; return 5 }} }};
function RetPrim(){{ this.x=1; __count += 1; return 5 }}
function CThrow(a){{ throw new RangeError('ct') }}
function CThrowCallee(a,b){{ this.q=1; callsThrower(a,b,3) }}
function CRec(){{ new CRec() }}
function CBig(){{ callBig() }}
var FieldThrow = class FieldThrow {{ x = thrower(9) }};
function nativeNewAtLimit(n){{ new Map(); return nativeNewAtLimit(n+1)+1 }}
function* G0(){{ var n=0; for(;;){{ try{{ var x = yield n++; }} catch(e){{ print('gen caught', e); n += 10 }} }} }}
var G = G0(); G.next();
function* GPlain(){{ yield 1; yield 2; return 3 }}
function* GBodyThrow(){{ yield 1; callsThrower(1,2,3); yield 2 }}
function* GBodyLimit(){{ yield 1; rec(0); yield 2 }}
function* GFinally(){{ try{{ yield 1; yield 2 }} finally {{ print('gen finally') }} }}
'setup-done'
",
        params = params.join(","),
        locals = locals.join(","),
        args = args.join(","),
        ones = ones.join(","),
    )
}

const PROBE: &str = r"
(function(){
  function down(n,a,b){ if(n==0) return a+b; return down(n-1,b,a+1)+1 }
  print('rec', down(11,1,2));
  function* g(){ var s=0; for(var i=0;i<3;i++){ s += yield i } return s }
  var it=g(), r=it.next(), acc=[];
  while(!r.done){ acc.push(r.value); r=it.next(10) }
  print('gen', acc.join(), r.value);
  var fin=[]; (function(){ try{ fin.push('t'); return } finally { fin.push('f') } })();
  print('fin', fin.join());
  var a=1,b=2,c=3,d=4,e=5,f=6,g2=7,h=8;
  print('expr', ((a+b)*(c+d)-(e*f))+((g2-h)*(a+c)+(b*d))*((e+f)*(g2+h)-(a*b+c*d)) + [a,b,c].map(function(x){return x*2}).join(''));
  Promise.resolve(5).then(function(v){ print('job', v, __count) });
  var caught = 'no'; try { null.x } catch (e2) { caught = 'yes' }
  print('state', __count, typeof __gv, typeof __gv2, typeof __gv3, typeof __mv, caught, G.next().value);
  return 'probe-done';
})()
";

// ------------------------------------------------------------------------------------------------
// native functions
// ------------------------------------------------------------------------------------------------
fn n_print(_: &JsValue, args: &[JsValue], ctx: &mut Context) -> JsResult<JsValue> {
    let mut parts = Vec::new();
    for a in args {
        parts.push(a.to_string(ctx)?.to_std_string_escaped());
    }
    vcore::push_line(parts.join(" "));
    Ok(JsValue::undefined())
}
fn n_throw(_: &JsValue, _: &[JsValue], _: &mut Context) -> JsResult<JsValue> {
    Err(JsNativeError::typ().with_message("native throws").into())
}
fn n_slen(_: &JsValue, _: &[JsValue], ctx: &mut Context) -> JsResult<JsValue> {
    Ok(JsValue::from(boa_engine::verif::vm_depths(ctx).stack_len as i32))
}
fn n_call(_: &JsValue, args: &[JsValue], ctx: &mut Context) -> JsResult<JsValue> {
    let f = args
        .first()
        .and_then(JsValue::as_callable)
        .ok_or_else(|| JsNativeError::typ().with_message("__ncall: not callable"))?;
    f.call(&JsValue::undefined(), &args[1..], ctx)
}
fn n_new(_: &JsValue, args: &[JsValue], ctx: &mut Context) -> JsResult<JsValue> {
    let f = args
        .first()
        .and_then(JsValue::as_constructor)
        .ok_or_else(|| JsNativeError::typ().with_message("__nnew: not a constructor"))?;
    f.construct(&args[1..], None, ctx).map(JsValue::from)
}

// ------------------------------------------------------------------------------------------------
// runner
// ------------------------------------------------------------------------------------------------
#[derive(Clone, Debug)]
struct StepOut {
    name: &'static str,
    d0: D,
    d1: D,
    completion: String,
}
#[derive(Clone, Debug)]
struct EntryOut {
    kind: usize,
    steps: Vec<StepOut>,
    lines: Vec<String>,
}
impl EntryOut {
    fn completion(&self) -> &str {
        self.steps.last().map_or("Value <no steps>", |s| s.completion.as_str())
    }
    fn ok(&self) -> bool {
        self.steps.iter().all(|s| s.completion.starts_with("Value"))
    }
    /// What the differential compares: completion of every step + the printed lines.
    fn trace(&self) -> String {
        let mut s = String::new();
        for st in &self.steps {
            s.push_str(st.name);
            s.push('=');
            s.push_str(&st.completion);
            s.push('\u{1f}');
        }
        s.push_str(&self.lines.join("\u{1e}"));
        s
    }
}

#[derive(Clone, Copy, Debug)]
struct Limits {
    rec: usize,
    /// stack limit while the entries run
    stack: usize,
    /// (tight, calibrated) stack limit while the probe runs
    pstack: usize,
    lp: u64,
}

struct R {
    ctx: Context,
    steps: Vec<StepOut>,
}

fn class_of(c: &str) -> String {
    let mut it = c.split(' ');
    let a = it.next().unwrap_or("");
    if a == "Limit" {
        format!("Limit {}", it.next().unwrap_or(""))
    } else {
        a.to_string()
    }
}

fn completion_of_err(ctx: &mut Context, e: JsError) -> String {
    let s = vcore::completion_of_err(ctx, e);
    if s.contains("<<pending>>") { "Pending".to_string() } else { s }
}

impl R {
    fn step_t<T>(
        &mut self,
        name: &'static str,
        f: impl FnOnce(&mut Context) -> JsResult<T>,
        render: impl FnOnce(&T, &mut Context) -> String,
    ) -> Option<T> {
        let d0 = depths(&self.ctx);
        let r = f(&mut self.ctx);
        let d1 = depths(&self.ctx);
        let (completion, out) = match r {
            Ok(v) => (format!("Value {}", render(&v, &mut self.ctx)), Some(v)),
            Err(e) => (completion_of_err(&mut self.ctx, e), None),
        };
        self.steps.push(StepOut { name, d0, d1, completion });
        out
    }
    fn step(&mut self, name: &'static str, f: impl FnOnce(&mut Context) -> JsResult<JsValue>) -> Option<JsValue> {
        self.step_t(name, f, |v, _| v.display().to_string())
    }
    fn global(&mut self, name: &str) -> JsValue {
        let g = self.ctx.global_object();
        g.get(JsString::from(name), &mut self.ctx).expect("global lookup")
    }
    fn eval(&mut self, src: &str) -> Option<JsValue> {
        self.step("eval", |c| c.eval(Source::from_bytes(src.as_bytes())))
    }
    fn call(&mut self, fname: &str, args: &[JsValue]) -> Option<JsValue> {
        let f = self.global(fname).as_object().expect("function object");
        self.step("call", |c| f.call(&JsValue::undefined(), args, c))
    }
    fn construct(&mut self, fname: &str, args: &[JsValue]) -> Option<JsValue> {
        let f = self.global(fname).as_object().expect("constructor object");
        self.step("construct", |c| f.construct(args, None, c).map(JsValue::from))
    }
    fn method(&mut self, step: &'static str, obj: &JsValue, name: &str, args: &[JsValue]) -> Option<JsValue> {
        let o = obj.as_object().expect("object");
        let m = o.get(JsString::from(name), &mut self.ctx).expect("method lookup").as_object().expect("method");
        let this = obj.clone();
        self.step(step, |c| m.call(&this, args, c))
    }
    fn run_jobs(&mut self) -> Option<JsValue> {
        self.step("run_jobs", |c| c.run_jobs().map(|()| JsValue::undefined()))
    }
    fn settle(&mut self, p: &JsPromise) -> Option<JsValue> {
        let st = p.state();
        self.step("settled", |_| match st {
            PromiseState::Fulfilled(v) => Ok(v),
            PromiseState::Rejected(v) => Err(JsError::from_opaque(v)),
            PromiseState::Pending => Err(JsNativeError::error().with_message("<<pending>>").into()),
        })
    }
    fn eval_async(&mut self, src: &str, budget: u32) -> Option<JsValue> {
        self.step("eval_async", |c| {
            let s = Script::parse(Source::from_bytes(src.as_bytes()), None, c)?;
            match vcore::poll_to_end(s.evaluate_async_with_budget(c, budget), 1_000_000) {
                Some((r, _)) => r,
                None => Err(JsNativeError::error().with_message("<<pending>>").into()),
            }
        })
    }
    fn module_lle(&mut self, src: &str) {
        let Some(m) = self.step_t("parse", |c| Module::parse(Source::from_bytes(src.as_bytes()), None, c), |_, _| "module".into()) else {
            return;
        };
        let Some(p) = self.step_t("lle", |c| Ok(m.load_link_evaluate(c)), |_, _| "promise".into()) else {
            return;
        };
        if self.run_jobs().is_none() {
            return;
        }
        self.settle(&p);
    }
    fn module_steps(&mut self, src: &str) {
        let Some(m) = self.step_t("parse", |c| Module::parse(Source::from_bytes(src.as_bytes()), None, c), |_, _| "module".into()) else {
            return;
        };
        let Some(p) = self.step_t("load", |c| Ok(m.load(c)), |_, _| "promise".into()) else {
            return;
        };
        if self.run_jobs().is_none() || self.settle(&p).is_none() {
            return;
        }
        if self.step_t("link", |c| m.link(c), |(), _| "linked".into()).is_none() {
            return;
        }
        let Some(p) = self.step_t("evaluate", |c| m.evaluate(c), |_, _| "promise".into()) else {
            return;
        };
        if self.run_jobs().is_none() {
            return;
        }
        self.settle(&p);
    }
}

fn n(i: i32) -> JsValue {
    JsValue::from(i)
}

type Action = fn(&mut R);
struct Kind {
    name: &'static str,
    act: Action,
}

/// Generator helper: create a fresh generator with `eval`, run it to its first `yield` with `next`.
fn fresh_gen(r: &mut R, ctor: &str) -> Option<JsValue> {
    let g = r.eval(&format!("{ctor}()"))?;
    r.method("next", &g, "next", &[])?;
    Some(g)
}

#[rustfmt::skip]
static KINDS: &[Kind] = &[
    // ---- Context::eval -------------------------------------------------------------------------
    Kind { name: "ev_ret",            act: |r| { r.eval("bump()"); } },
    Kind { name: "ev_throw_top",      act: |r| { r.eval("var t1 = 1; throw new RangeError('top')"); } },
    Kind { name: "ev_throw_callee",   act: |r| { r.eval("callsThrower(1,2,3)"); } },
    Kind { name: "ev_throw_callee2",  act: |r| { r.eval("(function(p,q){ var z = 4; return callsThrower(p,q,z) + z })(1,2)"); } },
    Kind { name: "ev_caught_callee",  act: |r| { r.eval("catches(20)"); } },
    Kind { name: "ev_caught_many",    act: |r| { r.eval("catches(45)"); } },
    Kind { name: "ev_caught_one",     act: |r| { r.eval("catches(1)"); } },
    Kind { name: "ev_caught_own",     act: |r| { r.eval("catchesOwn(20)"); } },
    Kind { name: "ev_caught_top",     act: |r| { r.eval("var c9 = 0; for (var i9 = 0; i9 < 20; i9++) { try { callsThrower(i9,2,3) } catch (e) { c9++ } } __count += 1; c9"); } },
    Kind { name: "ev_ret_finally",    act: |r| { r.eval("retFinallyCatch()"); } },
    Kind { name: "ev_finally_throw",  act: |r| { r.eval("finallyRethrow()"); } },
    Kind { name: "ev_slen_caught",    act: |r| { r.eval("slenCaught()"); } },
    Kind { name: "ev_slen_class",     act: |r| { r.eval("slenClassCaught()"); } },
    Kind { name: "ev_slen_own",       act: |r| { r.eval("slenOwnCaught()"); } },
    Kind { name: "ev_slen_native",    act: |r| { r.eval("slenNativeCaught()"); } },
    Kind { name: "ev_slen_finally",   act: |r| { r.eval("slenFinally()"); } },
    Kind { name: "ev_slen_eval_throw", act: |r| { r.eval("slenEvalThrow()"); } },
    Kind { name: "ev_slen_eval_edi",  act: |r| { r.eval("slenEvalEdi()"); } },
    Kind { name: "ev_eval_limit",     act: |r| { r.eval("(0,eval)('rec(0)')"); } },
    Kind { name: "ev_eval_throw",     act: |r| { r.eval("(0,eval)('callsThrower(1,2,3)')"); } },
    Kind { name: "ev_class_caught",   act: |r| { r.eval("classCaught()"); } },
    Kind { name: "ev_decl_a",         act: |r| { r.eval("let __dup = 1; __count += 1; __dup"); } },
    Kind { name: "ev_decl_b",         act: |r| { r.eval("var __gv = 1; let __dup = 2; __count += 1; __dup"); } },
    Kind { name: "ev_define_nc",      act: |r| { r.eval("Object.defineProperty(globalThis, '__nc', {value: 1, configurable: false}); __count += 1; __count"); } },
    Kind { name: "ev_gdi_hist",       act: |r| { r.eval("let __nc = 2; __count += 1; __nc"); } },
    Kind { name: "ev_gdi_let",        act: |r| { r.eval("var __gv2 = 1; let undefined = 1; __count += 1; 3"); } },
    Kind { name: "ev_gdi_fn",         act: |r| { r.eval("var __gv3 = 1; function NaN(){} __count += 1; 4"); } },
    Kind { name: "ev_syntax",         act: |r| { r.eval("var = ;"); } },
    Kind { name: "ev_loop",           act: |r| { r.eval("for(;;){}"); } },
    Kind { name: "ev_loop_callee",    act: |r| { r.eval("looper()"); } },
    Kind { name: "ev_rec",            act: |r| { r.eval("rec(0)"); } },
    Kind { name: "ev_stack",          act: |r| { r.eval("callBig()"); } },
    Kind { name: "ev_limit_try",      act: |r| { r.eval("limitInTry()"); } },
    Kind { name: "ev_loop_try",       act: |r| { r.eval("loopInTry()"); } },
    Kind { name: "ev_native_new_lim", act: |r| { r.eval("nativeNewAtLimit(0)"); } },
    Kind { name: "ev_native_caught",  act: |r| { r.eval("nativeCaught()"); } },
    Kind { name: "ev_reenter_throw",  act: |r| { r.eval("reenterThrow()"); } },
    Kind { name: "ev_reenter_limit",  act: |r| { r.eval("reenterLimit()"); } },
    Kind { name: "ev_reenter_caught", act: |r| { r.eval("reenterCaught()"); } },
    // ---- JsObject::call ------------------------------------------------------------------------
    Kind { name: "call_ret",          act: |r| { r.call("bump", &[]); } },
    Kind { name: "call_throw",        act: |r| { r.call("thrower", &[n(1)]); } },
    Kind { name: "call_throw_callee", act: |r| { r.call("callsThrower", &[n(1), n(2), n(3)]); } },
    Kind { name: "call_caught",       act: |r| { r.call("catches", &[n(20)]); } },
    Kind { name: "call_ret_finally",  act: |r| { r.call("retFinallyCatch", &[]); } },
    Kind { name: "call_class",        act: |r| { r.call("K", &[n(1), n(2)]); } },
    Kind { name: "call_rec",          act: |r| { r.call("rec", &[n(0)]); } },
    Kind { name: "call_stack",        act: |r| { r.call("callBig", &[]); } },
    Kind { name: "call_loop",         act: |r| { r.call("looper", &[]); } },
    Kind { name: "call_limit_try",    act: |r| { r.call("limitInTry", &[]); } },
    Kind { name: "call_native_throw", act: |r| { r.call("callsNative", &[n(1)]); } },
    Kind { name: "call_native_direct", act: |r| { r.call("__nthrow", &[n(1), n(2)]); } },
    Kind { name: "call_reenter_throw", act: |r| { let f = r.global("callsThrower"); r.call("__ncall", &[f, n(1), n(2), n(3)]); } },
    Kind { name: "call_reenter_limit", act: |r| { let f = r.global("rec"); r.call("__ncall", &[f, n(0)]); } },
    Kind { name: "call_reenter_ret",  act: |r| { let f = r.global("bump"); r.call("__ncall", &[f]); } },
    // ---- JsObject::construct -------------------------------------------------------------------
    Kind { name: "new_ret",           act: |r| { r.construct("K", &[n(1)]); } },
    Kind { name: "new_retprim",       act: |r| { r.construct("RetPrim", &[]); } },
    Kind { name: "new_throw",         act: |r| { r.construct("CThrow", &[n(1)]); } },
    Kind { name: "new_throw_callee",  act: |r| { r.construct("CThrowCallee", &[n(1), n(2)]); } },
    Kind { name: "new_derived_nosuper", act: |r| { r.construct("D", &[]); } },
    Kind { name: "new_derived_retprim", act: |r| { r.construct("DRet", &[]); } },
    Kind { name: "new_field_throw",   act: |r| { r.construct("FieldThrow", &[n(1)]); } },
    Kind { name: "new_rec",           act: |r| { r.construct("CRec", &[]); } },
    Kind { name: "new_stack",         act: |r| { r.construct("CBig", &[]); } },
    Kind { name: "new_native_throw",  act: |r| { r.construct("Symbol", &[n(1)]); } },
    Kind { name: "new_native_ret",    act: |r| { if r.construct("Map", &[]).is_some() { r.eval("__count += 1"); } } },
    Kind { name: "new_reenter_throw", act: |r| { let f = r.global("CThrowCallee"); r.call("__nnew", &[f, n(1), n(2)]); } },
    // ---- generators resumed from the host ------------------------------------------------------
    Kind { name: "gen_next",          act: |r| { let g = r.global("G"); r.method("next", &g, "next", &[n(5)]); } },
    Kind { name: "gen_throw_caught",  act: |r| { let g = r.global("G"); r.method("throw", &g, "throw", &[n(7)]); } },
    Kind { name: "gen_fresh_throw",   act: |r| { if let Some(g) = fresh_gen(r, "GPlain") { r.method("throw", &g, "throw", &[n(7)]); } } },
    Kind { name: "gen_fresh_return",  act: |r| { if let Some(g) = fresh_gen(r, "GFinally") { if r.method("return", &g, "return", &[n(8)]).is_some() { r.eval("__count += 1"); } } } },
    Kind { name: "gen_finally_throw", act: |r| { if let Some(g) = fresh_gen(r, "GFinally") { r.method("throw", &g, "throw", &[n(7)]); } } },
    Kind { name: "gen_body_throw",    act: |r| { if let Some(g) = fresh_gen(r, "GBodyThrow") { r.method("next", &g, "next", &[]); } } },
    Kind { name: "gen_body_limit",    act: |r| { if let Some(g) = fresh_gen(r, "GBodyLimit") { r.method("next", &g, "next", &[]); } } },
    // ---- Context::run_jobs ---------------------------------------------------------------------
    Kind { name: "jobs_reject",       act: |r| { if r.eval("Promise.reject(new Error('r')); Promise.resolve(1).then(function(v){ __count += 1; print('job ran', v) }); 0").is_some() { r.run_jobs(); } } },
    Kind { name: "jobs_handler_throw", act: |r| { if r.eval("Promise.resolve(1).then(function(){ callsThrower(1,2,3) }).then(null, function(e){ __count += 1; print('rejected', e) }); 0").is_some() { r.run_jobs(); } } },
    Kind { name: "jobs_native_err",   act: |r| {
        let f = r.global("callsThrower").as_object().expect("fn");
        r.ctx.enqueue_job(PromiseJob::new(move |c| f.call(&JsValue::undefined(), &[n(1), n(2), n(3)], c)).into());
        r.run_jobs();
    } },
    Kind { name: "jobs_limit",        act: |r| { if r.eval("Promise.resolve(1).then(function(){ rec(0) }); 0").is_some() { r.run_jobs(); } } },
    Kind { name: "jobs_loop_limit",   act: |r| { if r.eval("Promise.resolve(1).then(function(){ for(;;){} }); 0").is_some() { r.run_jobs(); } } },
    Kind { name: "jobs_async_limit",  act: |r| { if r.eval("(async function(){ await 0; rec(0) })().then(null, function(e){ print('async limit caught!') }); 0").is_some() { r.run_jobs(); } } },
    Kind { name: "ev_async_limit_sync", act: |r| { r.eval("(async function(){ rec(0) })().then(null, function(e){ print('async limit caught!') }); 0"); } },
    Kind { name: "jobs_async_throw",  act: |r| { if r.eval("(async function(){ await 0; callsThrower(1,2,3) })().then(null, function(e){ __count += 1; print('async rejected', e) }); 0").is_some() { r.run_jobs(); } } },
    // ---- modules -------------------------------------------------------------------------------
    Kind { name: "mod_ok",            act: |r| { r.module_lle("export let a = 1; globalThis.__count += 1; print('module ran', a);"); } },
    Kind { name: "mod_throw",         act: |r| { r.module_lle("export let a = 1; throw new Error('m');"); } },
    Kind { name: "mod_throw_callee",  act: |r| { r.module_lle("export let a = callsThrower(1,2,3);"); } },
    Kind { name: "mod_limit",         act: |r| { r.module_lle("export let a = rec(0);"); } },
    Kind { name: "mod_syntax",        act: |r| { r.module_lle("export let = ;"); } },
    Kind { name: "mod_tla_throw",     act: |r| { r.module_lle("await 0; callsThrower(1,2,3);"); } },
    Kind { name: "mod_tla_limit",     act: |r| { r.module_lle("await 0; rec(0);"); } },
    Kind { name: "mod_tla_limit_sync", act: |r| { r.module_lle("rec(0); await 0;"); } },
    Kind { name: "mod_steps_ok",      act: |r| { r.module_steps("export function mf(){ return 1 } globalThis.__mv = mf(); globalThis.__count += 1;"); } },
    Kind { name: "mod_steps_throw",   act: |r| { r.module_steps("export let a = callsThrower(1,2,3);"); } },
    Kind { name: "mod_steps_limit",   act: |r| { r.module_steps("export let a = rec(0);"); } },
    // ---- hand-polled evaluate_async_with_budget ------------------------------------------------
    Kind { name: "async_ret",         act: |r| { r.eval_async("var s7 = 0; for (var i7 = 0; i7 < 10; i7++) { s7 += ok(i7, 1) } __count += 1; s7", 3); } },
    Kind { name: "async_throw",       act: |r| { r.eval_async("var s8 = 0; for (var i8 = 0; i8 < 10; i8++) { s8 += ok(i8, 1) } callsThrower(1,2,3)", 3); } },
    // ---- self-test of the depth oracle (not part of any alphabet): an abandoned future leaves its frame behind
    Kind { name: "selftest_abandon_async", act: |r| {
        r.step("abandon", |c| {
            let s = Script::parse(Source::from_bytes(b"var sa = 0; for (var ia = 0; ia < 20; ia++) { sa += ia } sa"), None, c)?;
            let mut fut = std::pin::pin!(s.evaluate_async_with_budget(c, 1));
            let mut cx = std::task::Context::from_waker(std::task::Waker::noop());
            Ok(JsValue::from(fut.as_mut().poll(&mut cx).is_pending()))
        });
    } },
    Kind { name: "async_limit",       act: |r| { r.eval_async("var s9 = 0; for (var i9 = 0; i9 < 10; i9++) { s9 += ok(i9, 1) } rec(0)", 3); } },
];

fn kind_index(name: &str) -> usize {
    KINDS.iter().position(|k| k.name == name).unwrap_or_else(|| panic!("unknown entry kind {name}"))
}

struct Run {
    entries: Vec<EntryOut>,
    probe: EntryOut,
    /// depth at host level after setup
    base: D,
}

fn make_ctx(lim: Limits) -> Context {
    let cfg = vcore::Cfg { prelude: false, loop_limit: None, ..vcore::Cfg::default() };
    let mut ctx = vcore::make_context(&cfg);
    for (name, len, f) in [
        ("print", 0usize, n_print as fn(&JsValue, &[JsValue], &mut Context) -> JsResult<JsValue>),
        ("__nthrow", 2, n_throw),
        ("__ncall", 1, n_call),
        ("__slen", 0, n_slen),
        ("__nnew", 1, n_new),
    ] {
        ctx.register_global_builtin_callable(JsString::from(name), len, NativeFunction::from_fn_ptr(f)).expect("register native");
    }
    let setup = setup_source();
    let v = ctx.eval(Source::from_bytes(setup.as_bytes())).expect("setup script");
    assert_eq!(v.display().to_string(), "\"setup-done\"");
    ctx.run_jobs().expect("setup jobs");
    vcore::take_lines();
    let l = ctx.runtime_limits_mut();
    l.set_loop_iteration_limit(lim.lp);
    l.set_recursion_limit(lim.rec);
    l.set_stack_size_limit(lim.stack);
    ctx
}

fn run_probe(r: &mut R, lim: Limits) -> EntryOut {
    r.ctx.runtime_limits_mut().set_stack_size_limit(lim.pstack);
    vcore::take_lines();
    r.steps.clear();
    if r.eval(PROBE).is_some() {
        r.run_jobs();
    }
    EntryOut { kind: usize::MAX, steps: std::mem::take(&mut r.steps), lines: vcore::take_lines() }
}

/// Execute one history on a fresh context. Panics propagate to the caller.
fn run_history(hist: &[usize], lim: Limits) -> Run {
    let ctx = make_ctx(lim);
    let base = depths(&ctx);
    let mut r = R { ctx, steps: Vec::new() };
    let mut entries = Vec::with_capacity(hist.len());
    for &k in hist {
        vcore::take_lines();
        r.steps.clear();
        (KINDS[k].act)(&mut r);
        entries.push(EntryOut { kind: k, steps: std::mem::take(&mut r.steps), lines: vcore::take_lines() });
    }
    let probe = run_probe(&mut r, lim);
    drop(r);
    Run { entries, probe, base }
}

// ------------------------------------------------------------------------------------------------
// oracle
// ------------------------------------------------------------------------------------------------
/// What a differential needs to remember of a run.
#[derive(Clone, Debug)]
struct Summary {
    kinds: Vec<usize>,
    ok: Vec<bool>,
    traces: Vec<String>,
    completions: Vec<String>,
    probe_trace: String,
    probe_completion: String,
}
fn summarize(run: &Run) -> Summary {
    Summary {
        kinds: run.entries.iter().map(|e| e.kind).collect(),
        ok: run.entries.iter().map(EntryOut::ok).collect(),
        traces: run.entries.iter().map(EntryOut::trace).collect(),
        completions: run.entries.iter().map(|e| e.completion().to_string()).collect(),
        probe_trace: run.probe.trace(),
        probe_completion: run.probe.completion().to_string(),
    }
}

thread_local! {
    static CACHE: RefCell<HashMap<(Vec<usize>, usize, usize, usize, u64), Rc<Summary>>> = RefCell::new(HashMap::new());
    static SUBSIG: RefCell<HashMap<String, Rc<HashMap<String, String>>>> = RefCell::new(HashMap::new());
}
struct Counters {
    ref_runs: u64,
    ref_transitions: u64,
}
fn summary_cached(hist: &[usize], lim: Limits, cnt: &mut Counters) -> Rc<Summary> {
    let key = (hist.to_vec(), lim.rec, lim.stack, lim.pstack, lim.lp);
    if let Some(s) = CACHE.with(|c| c.borrow().get(&key).cloned()) {
        return s;
    }
    let run = run_history(hist, lim);
    cnt.ref_runs += 1;
    cnt.ref_transitions += run.entries.iter().map(|e| e.steps.len() as u64).sum::<u64>() + run.probe.steps.len() as u64;
    let s = Rc::new(summarize(&run));
    CACHE.with(|c| {
        let mut c = c.borrow_mut();
        if c.len() > 200_000 {
            c.clear();
        }
        c.insert(key, s.clone());
    });
    s
}

#[derive(Clone, Debug)]
struct Diff {
    /// position in the history, or `hist.len()` for the probe
    pos: usize,
    slot: String,
    observed: String,
    expected: String,
    asig: String,
}

fn first_line_diff(a: &str, b: &str) -> (String, String) {
    let (la, lb): (Vec<&str>, Vec<&str>) = (a.split(['\u{1f}', '\u{1e}']).collect(), b.split(['\u{1f}', '\u{1e}']).collect());
    for i in 0..la.len().max(lb.len()) {
        let (x, y) = (la.get(i).copied().unwrap_or("<none>"), lb.get(i).copied().unwrap_or("<none>"));
        if x != y {
            return (x.to_string(), y.to_string());
        }
    }
    ("<same>".into(), "<same>".into())
}

/// Differential: the successful entries of `s` and the probe must have the traces they have on a
/// context that ran only the successful entries. Returns the first difference + number of comparisons.
fn diff(s: &Summary, lim: Limits, cnt: &mut Counters) -> (Option<Diff>, u64) {
    if s.ok.iter().all(|&b| b) {
        return (None, 0);
    }
    let refh: Vec<usize> = s.kinds.iter().zip(&s.ok).filter(|(_, ok)| **ok).map(|(k, _)| *k).collect();
    let rs = summary_cached(&refh, lim, cnt);
    let mut compared = 0;
    let mut j = 0;
    for i in 0..s.kinds.len() {
        if !s.ok[i] {
            continue;
        }
        compared += 1;
        if s.traces[i] != rs.traces[j] {
            let (o, e) = if s.completions[i] != rs.completions[j] {
                (s.completions[i].clone(), rs.completions[j].clone())
            } else {
                first_line_diff(&s.traces[i], &rs.traces[j])
            };
            let slot = KINDS[s.kinds[i]].name.to_string();
            let asig = format!("{slot}|{o}|{e}");
            return (Some(Diff { pos: i, slot, observed: o, expected: e, asig }), compared);
        }
        j += 1;
    }
    compared += 1;
    if s.probe_trace != rs.probe_trace {
        let (o, e) = if s.probe_completion != rs.probe_completion {
            (s.probe_completion.clone(), rs.probe_completion.clone())
        } else {
            first_line_diff(&s.probe_trace, &rs.probe_trace)
        };
        let asig = format!("PROBE|{o}|{e}");
        return (Some(Diff { pos: s.kinds.len(), slot: "PROBE".into(), observed: o, expected: e, asig }), compared);
    }
    (None, compared)
}

fn hist_key(hist: &[usize]) -> String {
    hist.iter().map(|&k| KINDS[k].name).collect::<Vec<_>>().join(",")
}

fn load_subsig(path: &str) -> Rc<HashMap<String, String>> {
    if let Some(m) = SUBSIG.with(|c| c.borrow().get(path).cloned()) {
        return m;
    }
    let text = std::fs::read_to_string(path).unwrap_or_else(|e| panic!("subsig file {path}: {e}"));
    let mut m = HashMap::new();
    for line in text.lines() {
        if let Some((k, v)) = line.split_once('\t') {
            m.insert(k.to_string(), v.to_string());
        }
    }
    let m = Rc::new(m);
    SUBSIG.with(|c| c.borrow_mut().insert(path.to_string(), m.clone()));
    m
}

fn limits_of(job: &Value) -> Limits {
    let c = &job["cfg"];
    Limits {
        rec: c["rec"].as_u64().expect("cfg.rec") as usize,
        stack: c["stack"].as_u64().expect("cfg.stack") as usize,
        pstack: c["pstack"].as_u64().expect("cfg.pstack") as usize,
        lp: c["loop"].as_u64().expect("cfg.loop"),
    }
}

fn entry_json(e: &EntryOut) -> Value {
    json!({
        "kind": if e.kind == usize::MAX { "PROBE" } else { KINDS[e.kind].name },
        "ok": e.ok(),
        "completion": e.completion(),
        "lines": e.lines,
        "steps": e.steps.iter().map(|s| json!({"step": s.name, "completion": s.completion, "d0": s.d0, "d1": s.d1,
            "delta": delta_text(&delta(&s.d0, &s.d1))})).collect::<Vec<_>>(),
    })
}

fn catch<T>(f: impl FnOnce() -> T) -> Result<T, String> {
    std::panic::catch_unwind(std::panic::AssertUnwindSafe(f)).map_err(|_| vcore::take_last_panic().chars().take(160).collect())
}

/// `c07hist`: one history in full detail.
fn job_hist(job: &Value) -> Value {
    let lim = limits_of(job);
    let hist: Vec<usize> = job["hist"].as_array().expect("hist").iter().map(|v| kind_index(v.as_str().expect("name"))).collect();
    let mut cnt = Counters { ref_runs: 0, ref_transitions: 0 };
    let run = match catch(|| run_history(&hist, lim)) {
        Ok(r) => r,
        Err(p) => return json!({"completion": format!("RustPanic {p}"), "panic": p, "poisoned": true}),
    };
    let s = summarize(&run);
    let refh: Vec<usize> = s.kinds.iter().zip(&s.ok).filter(|(_, ok)| **ok).map(|(k, _)| *k).collect();
    let refrun = match catch(|| run_history(&refh, lim)) {
        Ok(r) => r,
        Err(p) => return json!({"completion": format!("RustPanic {p}"), "panic": format!("in reference history: {p}"), "poisoned": true}),
    };
    let (d, _) = match catch(|| diff(&s, lim, &mut cnt)) {
        Ok(r) => r,
        Err(p) => return json!({"completion": format!("RustPanic {p}"), "panic": p, "poisoned": true}),
    };
    json!({
        "hist": hist.iter().map(|&k| KINDS[k].name).collect::<Vec<_>>(),
        "base": run.base,
        "entries": run.entries.iter().map(entry_json).collect::<Vec<_>>(),
        "probe": entry_json(&run.probe),
        "ref_hist": refh.iter().map(|&k| KINDS[k].name).collect::<Vec<_>>(),
        "ref_entries": refrun.entries.iter().map(entry_json).collect::<Vec<_>>(),
        "ref_probe": entry_json(&refrun.probe),
        "diff": d.map(|d| json!({"pos": d.pos, "slot": d.slot, "observed": d.observed, "expected": d.expected, "asig": d.asig})),
    })
}

fn fnv(s: &str) -> u64 {
    let mut h: u64 = 0xcbf2_9ce4_8422_2325;
    for b in s.bytes() {
        h ^= u64::from(b);
        h = h.wrapping_mul(0x0100_0000_01b3);
    }
    h
}

/// `c07range`: histories `from..to` of length `len` over `alpha` (mixed radix, first entry most
/// significant), aggregated.
fn job_range(job: &Value) -> Value {
    let lim = limits_of(job);
    let alpha: Vec<usize> = job["alpha"].as_array().expect("alpha").iter().map(|v| kind_index(v.as_str().expect("name"))).collect();
    let len = job["len"].as_u64().expect("len") as usize;
    let from = job["from"].as_u64().expect("from");
    let to = job["to"].as_u64().expect("to");
    let want_sigs = job["want_sigs"].as_bool().unwrap_or(false);
    let subsig = job["subsig"].as_str().map(load_subsig);
    let sig_filter: Option<Vec<usize>> =
        job["sig_filter"].as_array().map(|a| a.iter().map(|v| kind_index(v.as_str().expect("name"))).collect());
    let nk = alpha.len() as u64;

    let mut cnt = Counters { ref_runs: 0, ref_transitions: 0 };
    let mut transitions = 0u64;
    let mut cmp_depth = 0u64;
    let mut cmp_diff = 0u64;
    let mut per_kind: BTreeMap<String, BTreeMap<String, u64>> = BTreeMap::new();
    let mut outcomes: BTreeSet<String> = BTreeSet::new();
    let mut depth_viol: BTreeMap<String, (u64, u64, Value)> = BTreeMap::new();
    let mut bad: BTreeMap<String, (u64, u64, Value)> = BTreeMap::new();
    let mut sigs: Vec<Value> = Vec::new();
    let mut minimal: Vec<Value> = Vec::new();
    let mut n_diff = 0u64;
    let mut n_subsumed = 0u64;
    let mut n_all_ok = 0u64;
    let mut panic: Option<Value> = None;
    let mut done_to = from;

    for idx in from..to {
        let mut hist = vec![0usize; len];
        let mut x = idx;
        for p in (0..len).rev() {
            hist[p] = alpha[(x % nk) as usize];
            x /= nk;
        }
        let res = catch(|| {
            let run = run_history(&hist, lim);
            let s = summarize(&run);
            let d = diff(&s, lim, &mut cnt);
            (run, s, d)
        });
        let (run, s, (d, compared)) = match res {
            Ok(v) => v,
            Err(p) => {
                panic = Some(json!({"index": idx, "hist": hist.iter().map(|&k| KINDS[k].name).collect::<Vec<_>>(), "panic": p}));
                done_to = idx + 1;
                break;
            }
        };
        done_to = idx + 1;
        cmp_diff += compared;
        if s.ok.iter().all(|&b| b) {
            n_all_ok += 1;
        }
        // (1) depths around every step
        for (pos, e) in run.entries.iter().chain(std::iter::once(&run.probe)).enumerate() {
            let kname = if e.kind == usize::MAX { "PROBE" } else { KINDS[e.kind].name };
            transitions += e.steps.len() as u64;
            if e.kind != usize::MAX {
                *per_kind.entry(kname.to_string()).or_default().entry(class_of(e.completion())).or_default() += 1;
            }
            outcomes.insert(format!("{:016x}", fnv(&format!("{kname}\u{1d}{}", e.trace()))));
            for (si, st) in e.steps.iter().enumerate() {
                if st.completion.starts_with("EnginePanic") || st.completion.starts_with("RustPanic") {
                    let id = format!("{kname}|{si}:{}|{}", st.name, st.completion);
                    let e = bad.entry(id).or_insert_with(|| (0, idx, json!({"pos": pos, "hist": hist.iter().map(|&k| KINDS[k].name).collect::<Vec<_>>()})));
                    e.0 += 1;
                }
                cmp_depth += 1;
                let dl = delta(&st.d0, &st.d1);
                if dl.iter().any(|&v| v != 0) {
                    let id = format!("{kname}|{si}:{}|{}|{}", st.name, class_of(&st.completion), delta_text(&dl));
                    let e = depth_viol.entry(id).or_insert_with(|| {
                        (0, idx, json!({"pos": pos, "hist": hist.iter().map(|&k| KINDS[k].name).collect::<Vec<_>>(), "completion": st.completion}))
                    });
                    e.0 += 1;
                }
            }
        }
        // (2) differential
        if let Some(d) = d {
            n_diff += 1;
            let mut is_min = true;
            if let Some(tab) = &subsig {
                for del in 0..len {
                    let mut g = hist.clone();
                    g.remove(del);
                    if tab.get(&hist_key(&g)).is_some_and(|a| *a == d.asig) {
                        is_min = false;
                        break;
                    }
                }
            }
            if want_sigs && sig_filter.as_ref().is_none_or(|f| hist.iter().all(|k| f.contains(k))) {
                sigs.push(json!([hist_key(&hist), d.asig]));
            }
            if is_min {
                minimal.push(json!({"index": idx, "hist": hist.iter().map(|&k| KINDS[k].name).collect::<Vec<_>>(),
                    "pos": d.pos, "slot": d.slot, "observed": d.observed, "expected": d.expected, "asig": d.asig}));
            } else {
                n_subsumed += 1;
            }
        }
    }
    let mut out = json!({
        "n": done_to - from - u64::from(panic.is_some()),
        "done_to": done_to,
        "transitions": transitions,
        "ref_runs": cnt.ref_runs,
        "ref_transitions": cnt.ref_transitions,
        "cmp_depth": cmp_depth,
        "cmp_diff": cmp_diff,
        "per_kind": per_kind,
        "outcomes": outcomes,
        "depth_viol": depth_viol.iter().map(|(k, (c, i, w))| json!({"id": k, "count": c, "first": i, "witness": w})).collect::<Vec<_>>(),
        "bad": bad.iter().map(|(k, (c, i, w))| json!({"id": k, "count": c, "first": i, "witness": w})).collect::<Vec<_>>(),
        "n_diff": n_diff,
        "n_subsumed": n_subsumed,
        "n_all_ok": n_all_ok,
        "minimal": minimal,
        "sigs": sigs,
        "completion": "Value range",
    });
    if let Some(p) = panic {
        out["panic"] = p;
        out["poisoned"] = json!(true);
    }
    out
}

/// `c07cal`: smallest recursion limit, then smallest stack limit, under which the probe gives the
/// trace it gives under generous limits (fresh context each attempt).
fn job_cal(job: &Value) -> Value {
    let lp = job["cfg"]["loop"].as_u64().unwrap_or(50);
    let probe_at = |rec: usize, stack: usize| -> String {
        let lim = Limits { rec, stack: 4096, pstack: stack, lp };
        let ctx = make_ctx(lim);
        let mut r = R { ctx, steps: Vec::new() };
        run_probe(&mut r, lim).trace()
    };
    let generous = probe_at(64, 4096);
    let search = |lo0: usize, hi0: usize, f: &dyn Fn(usize) -> bool| -> usize {
        // smallest x in (lo0, hi0] with f(x), assuming monotone; f(hi0) must hold
        let (mut lo, mut hi) = (lo0, hi0);
        assert!(f(hi), "probe does not pass under the largest limit");
        while hi - lo > 1 {
            let mid = (lo + hi) / 2;
            if f(mid) { hi = mid } else { lo = mid }
        }
        hi
    };
    let rec = search(1, 64, &|r| probe_at(r, 4096) == generous);
    let stack = search(8, 4096, &|s| probe_at(rec, s) == generous);
    // monotonicity spot checks around the boundary
    let below_rec = probe_at(rec - 1, 4096) == generous;
    let below_stack = probe_at(rec, stack - 1) == generous;
    let at = probe_at(rec, stack) == generous;
    json!({"rec": rec, "pstack": stack, "loop": lp, "probe_trace": generous.replace(['\u{1f}', '\u{1e}'], " ; "),
           "passes_at": at, "passes_below_rec": below_rec, "passes_below_stack": below_stack, "completion": "Value cal"})
}

struct CpuT(u64);
impl CpuT {
    fn ticks() -> u64 {
        let s = std::fs::read_to_string("/proc/self/stat").unwrap_or_default();
        let rest = s.rsplit(')').next().unwrap_or("");
        let f: Vec<&str> = rest.split_whitespace().collect();
        f.get(11).and_then(|x| x.parse::<u64>().ok()).unwrap_or(0) + f.get(12).and_then(|x| x.parse::<u64>().ok()).unwrap_or(0)
    }
    fn now() -> Self { Self(Self::ticks()) }
    fn elapsed_us(&self) -> u64 { (Self::ticks() - self.0) * 10_000 }
}

fn custom(job: &Value) -> Value {
    match job["kind"].as_str().unwrap_or("") {
        "c07kinds" => json!({"kinds": KINDS.iter().map(|k| k.name).collect::<Vec<_>>(), "completion": "Value kinds"}),
        "c07cal" => job_cal(job),
        "c07bench" => {
            let lim = Limits { rec: 14, stack: 1024, pstack: 183, lp: 50 };
            let n = 400;
            let t = CpuT::now();
            for _ in 0..n { let cfg = vcore::Cfg { prelude: false, loop_limit: None, ..vcore::Cfg::default() }; let c = vcore::make_context(&cfg); drop(c); }
            let t_ctx = t.elapsed_us() / n;
            let t = CpuT::now();
            for _ in 0..n { let c = make_ctx(lim); drop(c); }
            let t_setup = t.elapsed_us() / n;
            let t = CpuT::now();
            for _ in 0..n { let _ = run_history(&[], lim); }
            let t_probe = t.elapsed_us() / n;
            let t = CpuT::now();
            for _ in 0..n { let _ = run_history(&[0, 0, 0], lim); }
            let t_3 = t.elapsed_us() / n;
            json!({"ctx_us": t_ctx, "ctx_setup_us": t_setup, "ctx_setup_probe_us": t_probe, "with_3_ev_ret_us": t_3, "completion": "Value bench"})
        }
        "c07hist" => job_hist(job),
        "c07range" => job_range(job),
        k => panic!("unknown job kind {k}"),
    }
}

fn main() {
    let args: Vec<String> = std::env::args().skip(1).collect();
    let code = match args.first().map(String::as_str) {
        Some("batch") => vcore::worker::batch_main(&args[1..], Some(custom)),
        Some("one") => {
            // vc07 one '<job json>'
            vcore::install_panic_hook();
            let job: Value = serde_json::from_str(args.get(1).expect("job json")).expect("job json");
            println!("{}", serde_json::to_string_pretty(&custom(&job)).unwrap());
            0
        }
        _ => {
            eprintln!("usage: vc07 batch <in> <out> [skip] | one '<job json>'");
            2
        }
    };
    std::process::exit(code);
}
