//! The real side: the same operations executed on `boa_gc`, plus observation and comparison.

use crate::model::{Caps, M, NONE, Op, Sizes, hash2};
use boa_gc::{Ephemeron, Finalize, Gc, GcRefCell, Trace, WeakGc, WeakMap, force_collect};
use std::cell::RefCell;
use std::fmt::Write as _;

const CANARY: u64 = 0x00C0_FFEE_5EED_0009;

pub struct ArmSlot {
    me: WeakGc<Node>,
    into: Option<Gc<Node>>,
}

#[derive(Default)]
pub struct Tab {
    pub fin: Vec<u32>,
    pub drp: Vec<u32>,
    pub arms: Vec<Option<ArmSlot>>,
    pub res_out: Vec<(u8, Gc<Node>)>,
    pub notes: Vec<String>,
}
thread_local! { pub static TAB: RefCell<Tab> = RefCell::new(Tab::default()); }
thread_local! { pub static STAGE: RefCell<String> = const { RefCell::new(String::new()) }; }
fn stage(s: String) {
    STAGE.with(|x| *x.borrow_mut() = s);
}

pub struct Canary {
    serial: usize,
    v: u64,
}
impl Drop for Canary {
    fn drop(&mut self) {
        let bad = self.v != CANARY;
        self.v = 0xDEAD_DEAD;
        let s = self.serial;
        let _ = TAB.try_with(|t| {
            if let Ok(mut t) = t.try_borrow_mut() {
                if bad {
                    t.notes.push(format!("payload of serial {s} dropped with a damaged canary"));
                }
                if s < t.drp.len() {
                    t.drp[s] += 1;
                } else {
                    t.notes.push(format!("payload with unknown serial {s} dropped"));
                }
            }
        });
    }
}

#[derive(Trace)]
pub struct Node {
    #[unsafe_ignore_trace]
    id: u8,
    #[unsafe_ignore_trace]
    serial: usize,
    #[unsafe_ignore_trace]
    canary: Canary,
    out: GcRefCell<Vec<Gc<Node>>>,
    weak: GcRefCell<Vec<WeakGc<Node>>>,
    eph: GcRefCell<Vec<Ephemeron<Node, Gc<Node>>>>,
    map: GcRefCell<Option<WeakMap<Node, Gc<Node>>>>,
}

impl Finalize for Node {
    fn finalize(&self) {
        let serial = self.serial;
        let slot = TAB.with(|t| {
            let mut t = t.borrow_mut();
            if self.canary.v != CANARY {
                t.notes.push(format!("finalizer of serial {serial} ran on a damaged payload"));
            }
            t.fin[serial] += 1;
            t.arms[serial].take()
        });
        if let Some(slot) = slot {
            let me = slot.me.upgrade();
            match (me, slot.into) {
                (Some(me), None) => TAB.with(|t| t.borrow_mut().res_out.push((self.id, me))),
                (Some(me), Some(target)) => {
                    let has = target.out.borrow().iter().any(|g| g.serial == serial);
                    if !has {
                        target.out.borrow_mut().push(me);
                    }
                }
                (None, _) => TAB.with(|t| t.borrow_mut().notes.push(format!("weak pointer to serial {serial} did not upgrade inside its own finalizer"))),
            }
        }
    }
}

type Eph = Ephemeron<Node, Gc<Node>>;
type Map = WeakMap<Node, Gc<Node>>;

pub struct Real {
    handles: Vec<Vec<Gc<Node>>>,
    hw: Vec<WeakGc<Node>>,
    he: Vec<Eph>,
    map: Option<Map>,
    next_serial: usize,
}

#[derive(Debug, Clone)]
pub struct Viol {
    pub kind: String,
    pub detail: String,
    pub expected: String,
    pub observed: String,
    pub step: usize,
}

fn viol(kind: &str, detail: String, expected: String, observed: String) -> Viol {
    Viol { kind: kind.into(), detail, expected, observed, step: 0 }
}

pub fn stats_tuple() -> (usize, usize, usize, usize, usize) {
    let s = boa_gc::verif::stats();
    (s.strongs, s.weaks, s.weak_maps, s.bytes, s.collections)
}

fn new_node(id: u8, serial: usize) -> Gc<Node> {
    Gc::new(Node {
        id,
        serial,
        canary: Canary { serial, v: CANARY },
        out: GcRefCell::new(Vec::new()),
        weak: GcRefCell::new(Vec::new()),
        eph: GcRefCell::new(Vec::new()),
        map: GcRefCell::new(None),
    })
}

pub fn reset_tab() {
    TAB.with(|t| {
        let mut t = t.borrow_mut();
        t.fin.clear();
        t.drp.clear();
        t.notes.clear();
        debug_assert!(t.arms.iter().all(Option::is_none) && t.res_out.is_empty());
        t.arms.clear();
    });
}

/// Box sizes measured on the real allocator (bytes_allocated deltas).
pub fn measure_sizes() -> Result<Sizes, String> {
    clean_heap("size measurement")?;
    TAB.with(|t| {
        let mut t = t.borrow_mut();
        t.fin = vec![0; 2];
        t.drp = vec![0; 2];
        t.arms = vec![None, None];
    });
    let b0 = stats_tuple().3;
    let a = new_node(0, 0);
    let b1 = stats_tuple().3;
    let w = WeakGc::new(&a);
    let b2 = stats_tuple().3;
    let e = Ephemeron::new(&a, a.clone());
    let b3 = stats_tuple().3;
    let m: Map = WeakMap::new();
    let b4 = stats_tuple().3;
    let st = boa_gc::verif::stats();
    if st.strongs != 2 || st.weaks != 3 || st.weak_maps != 1 {
        return Err(format!("unexpected box counts after one node, one weak, one ephemeron, one weak map: {st:?}"));
    }
    drop((a, w, e, m));
    // the weak map contributes one strong box and one anchor ephemeron; tell them apart by a second probe
    force_collect();
    force_collect();
    force_collect();
    let z = stats_tuple();
    if (z.0, z.1, z.2, z.3) != (0, 0, 0, 0) {
        return Err(format!("heap not empty after size measurement: {z:?}"));
    }
    let weak = b2 - b1;
    let map_total = b4 - b3;
    // anchor = WeakGc<GcRefCell<RawWeakMap>> = EphemeronBox<_, ()>: same layout as a WeakGc<Node> box (header + Option<(ptr, ())>)
    let anchor = weak;
    reset_tab();
    Ok(Sizes { node: b1 - b0, weak, eph: b3 - b2, anchor, map: map_total - anchor })
}

/// Drop nothing, collect until stable; the heap must then be empty.
pub fn clean_heap(when: &str) -> Result<(), String> {
    for _ in 0..3 {
        force_collect();
    }
    let z = stats_tuple();
    if (z.0, z.1, z.2, z.3) != (0, 0, 0, 0) {
        return Err(format!("heap not empty {when}: strongs={} weaks={} weak_maps={} bytes={}", z.0, z.1, z.2, z.3));
    }
    Ok(())
}

impl Real {
    pub fn new(n: u8) -> Real {
        Real { handles: (0..n).map(|_| Vec::new()).collect(), hw: vec![], he: vec![], map: None, next_serial: 0 }
    }

    fn g(&self, i: u8) -> &Gc<Node> {
        &self.handles[i as usize][0]
    }

    /// Execute one op (already checked as enabled on the model `pre`).
    pub fn apply(&mut self, pre: &M, op: Op, expect: Option<bool>) -> Result<(), Viol> {
        match op {
            Op::Alloc(i) => {
                let serial = self.next_serial;
                self.next_serial += 1;
                TAB.with(|t| {
                    let mut t = t.borrow_mut();
                    t.fin.push(0);
                    t.drp.push(0);
                    t.arms.push(None);
                });
                self.handles[i as usize].push(new_node(i, serial));
            }
            Op::Clone(i) => {
                let h = self.g(i).clone();
                self.handles[i as usize].push(h);
            }
            Op::Drop(i) => {
                self.handles[i as usize].pop();
            }
            Op::Link(i, j) => {
                let t = self.g(j).clone();
                self.g(i).out.borrow_mut().push(t);
            }
            Op::Unlink(i, j) => {
                let sj = pre.nodes[j as usize].serial;
                let mut out = self.g(i).out.borrow_mut();
                match out.iter().position(|g| g.serial == sj) {
                    Some(p) => {
                        out.remove(p);
                    }
                    None => return Err(viol("obs-mismatch", format!("edge {i}->{j} not found in the real node"), "edge present".into(), "edge absent".into())),
                }
            }
            Op::Follow(i, j) => {
                let sj = pre.nodes[j as usize].serial;
                let h = self.g(i).out.borrow().iter().find(|g| g.serial == sj).cloned();
                match h {
                    Some(h) => self.handles[j as usize].push(h),
                    None => return Err(viol("obs-mismatch", format!("edge {i}->{j} not found in the real node"), "edge present".into(), "edge absent".into())),
                }
            }
            Op::HostWeak(j) => {
                let w = WeakGc::new(self.g(j));
                self.hw.push(w);
            }
            Op::DropHostWeak(x) => {
                self.hw.remove(x as usize);
            }
            Op::UpgradeKeep(x) => {
                let t = pre.bx(pre.hw[x as usize]).k;
                match self.hw[x as usize].upgrade() {
                    Some(h) => {
                        if h.canary.v != CANARY || h.serial != pre.nodes[t as usize].serial {
                            std::mem::forget(h);
                            return Err(viol("premature-free", format!("upgrade of host weak {x} returned a damaged or foreign payload"), "intact payload".into(), "damaged".into()));
                        }
                        self.handles[t as usize].push(h)
                    }
                    None => return Err(viol("weak-upgrade", format!("host weak {x}: target is alive (not yet collected) but upgrade() is None"), "Some".into(), "None".into())),
                }
            }
            Op::HostEph(k, v) => {
                let e = Ephemeron::new(self.g(k), self.g(v).clone());
                self.he.push(e);
            }
            Op::DropHostEph(x) => {
                self.he.remove(x as usize);
            }
            Op::TakeValue(x) => {
                let t = pre.bx(pre.he[x as usize]).v;
                let h = self.he[x as usize].value().map(|r| (*r).clone());
                match h {
                    Some(h) => {
                        if h.canary.v != CANARY || h.serial != pre.nodes[t as usize].serial {
                            std::mem::forget(h);
                            return Err(viol("premature-free", format!("value of host ephemeron {x} is a damaged or foreign payload"), "intact payload".into(), "damaged".into()));
                        }
                        self.handles[t as usize].push(h)
                    }
                    None => return Err(viol("eph-value", format!("host ephemeron {x}: key is alive but value() is None"), "Some".into(), "None".into())),
                }
            }
            Op::NodeWeak(i, j) => {
                let w = WeakGc::new(self.g(j));
                self.g(i).weak.borrow_mut().push(w);
            }
            Op::NodeEph(i, k, v) => {
                let e = Ephemeron::new(self.g(k), self.g(v).clone());
                self.g(i).eph.borrow_mut().push(e);
            }
            Op::MapNew => self.map = Some(WeakMap::new()),
            Op::MapDropHost => self.map = None,
            Op::MapStore(i) => {
                // WeakMap<K, V> is Clone only for K: Clone, so the single map handle MOVES between host and node
                let m = self.map.take().unwrap();
                *self.g(i).map.borrow_mut() = Some(m);
            }
            Op::MapTake(i) => {
                let m = self.g(i).map.borrow_mut().take();
                match m {
                    Some(m) => self.map = Some(m),
                    None => return Err(viol("obs-mismatch", format!("node {i} has lost its stored weak map"), "Some".into(), "None".into())),
                }
            }
            Op::MapInsert(k, v) => {
                let kk = self.g(k).clone();
                let vv = self.g(v).clone();
                self.map.as_mut().unwrap().insert(&kk, vv);
            }
            Op::MapRemove(k) => {
                let kk = self.g(k).clone();
                let r = self.map.as_mut().unwrap().remove(&kk);
                if Some(r) != expect {
                    return Err(viol("op-result", format!("WeakMap::remove({k}) returned {r}"), format!("{expect:?}"), format!("{r}")));
                }
            }
            Op::Collect => force_collect(),
            Op::ArmHost(i) => {
                let s = pre.nodes[i as usize].serial;
                let me = WeakGc::new(self.g(i));
                TAB.with(|t| t.borrow_mut().arms[s] = Some(ArmSlot { me, into: None }));
            }
            Op::ArmNode(i, j) => {
                let s = pre.nodes[i as usize].serial;
                let me = WeakGc::new(self.g(i));
                let into = Some(self.g(j).clone());
                TAB.with(|t| t.borrow_mut().arms[s] = Some(ArmSlot { me, into }));
            }
        }
        // handles that armed finalizers stored in the host slot (a collection can also run inside an allocating op)
        let res: Vec<(u8, Gc<Node>)> = TAB.with(|t| std::mem::take(&mut t.borrow_mut().res_out));
        for (id, h) in res {
            self.handles[id as usize].push(h);
        }
        Ok(())
    }

    /// Compare everything observable with the model `m` (state after the op). Returns the rendering.
    /// Order matters: counters first (no heap access), so that a premature free is reported before
    /// any freed memory would be touched.
    pub fn compare(&self, m: &M, colls0: usize) -> Result<String, Viol> {
        let (fin, drp, notes) = TAB.with(|t| {
            let t = t.borrow();
            (t.fin.clone(), t.drp.clone(), t.notes.clone())
        });
        if !notes.is_empty() {
            return Err(viol("payload", notes.join("; "), "no payload damage".into(), notes[0].clone()));
        }
        for s in 0..m.fin.len() {
            let alive = m.nodes.iter().any(|nd| nd.alive && nd.serial == s);
            if drp[s] != m.drp[s] {
                let kind = if drp[s] > m.drp[s] && alive {
                    "premature-free"
                } else if drp[s] > 1 {
                    "double-drop"
                } else if drp[s] > m.drp[s] {
                    "drop-count"
                } else {
                    "not-freed"
                };
                let reach = if alive { "alive in the model (reachable, or not yet collected)" } else { "dead in the model" };
                return Err(viol(kind, format!("node serial {s} ({reach}): dropped {} time(s), model {}", drp[s], m.drp[s]), format!("drops={}", m.drp[s]), format!("drops={}", drp[s])));
            }
            if fin[s] != m.fin[s] {
                let kind = if fin[s] > m.fin[s] { "finalized-extra" } else { "finalized-missing" };
                return Err(viol(kind, format!("node serial {s}: finalized {} time(s), model {}", fin[s], m.fin[s]), format!("finalized={}", m.fin[s]), format!("finalized={}", fin[s])));
            }
        }
        let st = stats_tuple();
        let _ = colls0; // the number of collections is not part of the property
        let exp = (m.n_strongs(), m.n_weaks(), m.n_weak_maps(), m.bytes());
        let got = (st.0, st.1, st.2, st.3);
        if exp != got {
            // boxes that became unreferenced in the post-sweep step may already be gone (if defect 17 gets fixed)
            let lag = m.lag_sizes();
            let mut ok = false;
            for mask in 1u32..(1u32 << lag.len()) {
                let k = mask.count_ones() as usize;
                let bytes: usize = (0..lag.len()).filter(|i| mask & (1 << i) != 0).map(|i| lag[i]).sum();
                if (exp.0, exp.1 - k, exp.2, exp.3 - bytes) == got {
                    ok = true;
                    break;
                }
            }
            if !ok {
                let kind = if exp.0 != got.0 {
                    "stats-strongs"
                } else if exp.1 != got.1 {
                    "stats-weaks"
                } else if exp.2 != got.2 {
                    "stats-weak-maps"
                } else {
                    "stats-bytes"
                };
                return Err(viol(kind, format!("heap statistics (strong boxes, ephemeron boxes, weak-map boxes, bytes): real {got:?}, model {exp:?}"), format!("{exp:?}"), format!("{got:?}")));
            }
        }
        let real = self.render(m)?;
        let model = m.render();
        if real != model {
            return Err(viol("obs-mismatch", "host-visible observation differs from the model".into(), model, real));
        }
        Ok(real)
    }

    fn name(sr: &[u8], g: &Gc<Node>, bad: &mut Option<String>) -> String {
        if g.canary.v != CANARY {
            *bad = Some(format!("payload reached through a live pointer has a damaged canary ({:#x})", g.canary.v));
            return "!".into();
        }
        match sr.get(g.serial) {
            Some(&r) if r != NONE => format!("{r}"),
            _ => format!("?s{}", g.serial),
        }
    }

    fn render_map(&self, m: &M, sr: &[u8], map: &Map, s: &mut String, bad: &mut Option<String>) {
        let rk = m.ranks();
        let mut handled: Vec<u8> = (0..m.n).filter(|&i| !self.handles[i as usize].is_empty()).collect();
        handled.sort_by_key(|&i| rk[i as usize]);
        s.push('{');
        for k in handled {
            let kg = self.g(k);
            if let Some(e) = map.get(kg) {
                match e.value() {
                    Some(v) => {
                        let _ = write!(s, "{}>{},", Self::name(sr, kg, bad), Self::name(sr, &v, bad));
                    }
                    None => {
                        let _ = write!(s, "{}>CLEARED,", Self::name(sr, kg, bad));
                    }
                }
            }
        }
        s.push('}');
    }

    fn render(&self, m: &M) -> Result<String, Viol> {
        let sr = m.serial_ranks();
        let mut bad: Option<String> = None;
        let mut s = String::new();
        // visible nodes
        let mut seen: Vec<(u8, Gc<Node>)> = Vec::new(); // (rank, handle)
        let mut stack: Vec<Gc<Node>> = Vec::new();
        for hs in &self.handles {
            if let Some(h) = hs.first() {
                stack.push(h.clone());
            }
        }
        while let Some(h) = stack.pop() {
            if h.canary.v != CANARY {
                let v = h.canary.v;
                std::mem::forget(h);
                for x in stack.drain(..) {
                    std::mem::forget(x);
                }
                for (_, x) in seen.drain(..) {
                    std::mem::forget(x);
                }
                return Err(viol("premature-free", format!("a node reachable from a host handle has a damaged canary ({v:#x})"), "intact payload".into(), "damaged".into()));
            }
            let r = sr.get(h.serial).copied().unwrap_or(NONE);
            if seen.iter().any(|(_, x)| x.serial == h.serial) {
                continue;
            }
            for j in h.out.borrow().iter() {
                stack.push(j.clone());
            }
            seen.push((r, h));
        }
        seen.sort_by_key(|(r, h)| (*r, h.serial));
        for (_, h) in &seen {
            let id = h.id;
            let _ = write!(s, "N{} h{} out[", Self::name(&sr, h, &mut bad), self.handles[id as usize].len());
            for j in h.out.borrow().iter() {
                let _ = write!(s, "{},", Self::name(&sr, j, &mut bad));
            }
            s.push_str("] w[");
            for w in h.weak.borrow().iter() {
                match w.upgrade() {
                    Some(t) => {
                        let _ = write!(s, "{},", Self::name(&sr, &t, &mut bad));
                    }
                    None => s.push_str("-,"),
                }
            }
            s.push_str("] e[");
            for e in h.eph.borrow().iter() {
                Self::render_eph(&sr, e, &mut s, &mut bad);
            }
            s.push_str("] m");
            match &*h.map.borrow() {
                Some(map) => self.render_map(m, &sr, map, &mut s, &mut bad),
                None => s.push('-'),
            }
            s.push(';');
        }
        s.push_str("HW[");
        for w in &self.hw {
            match w.upgrade() {
                Some(t) => {
                    let _ = write!(s, "{},", Self::name(&sr, &t, &mut bad));
                }
                None => s.push_str("-,"),
            }
        }
        s.push_str("] HE[");
        for e in &self.he {
            Self::render_eph(&sr, e, &mut s, &mut bad);
        }
        s.push_str("] M");
        match &self.map {
            Some(map) => self.render_map(m, &sr, map, &mut s, &mut bad),
            None => s.push('-'),
        }
        if let Some(b) = bad {
            for (_, x) in seen.drain(..) {
                std::mem::forget(x);
            }
            return Err(viol("premature-free", b, "intact payload".into(), s));
        }
        Ok(s)
    }

    fn render_eph(sr: &[u8], e: &Eph, s: &mut String, bad: &mut Option<String>) {
        let k = e.key();
        let v = e.value();
        match (k, v) {
            (Some(k), Some(v)) => {
                let _ = write!(s, "{}>{},", Self::name(sr, &k, bad), Self::name(sr, &v, bad));
            }
            (None, None) => s.push_str("-,"),
            (Some(_), None) => s.push_str("KEY-WITHOUT-VALUE,"),
            (None, Some(_)) => s.push_str("VALUE-WITHOUT-KEY,"),
        }
    }

    /// Leak the host side without running any destructor (after a violation the heap may be damaged).
    pub fn leak(self) {
        std::mem::forget(self);
    }
}

pub struct Outcome {
    pub key: (u64, u64),
    pub digest: u64,
    pub flags: u16,
    pub render: String,
}

/// Replay a whole history on a fresh heap. `check_all`: compare after every step (single-history
/// mode); otherwise only after the last one (the prefixes were compared when they were explored).
/// Err(None) = the history is not valid (an op is not enabled).
pub fn run_history(n: u8, sizes: Sizes, caps: Caps, gc_alloc: bool, hist: &[Op], check_all: bool, trace: Option<&mut Vec<String>>) -> Result<Outcome, Option<Viol>> {
    let z = stats_tuple();
    if (z.0, z.1, z.2, z.3) != (0, 0, 0, 0) {
        return Err(Some(Viol { step: 0, ..viol("heap-not-empty", format!("heap not empty at the start of a replay: {z:?}"), "(0,0,0,0)".into(), format!("{z:?}")) }));
    }
    reset_tab();
    let colls0 = z.4;
    let mut m = M::new(n, sizes, caps);
    m.gc_alloc = gc_alloc;
    if gc_alloc {
        boa_gc::verif::set_schedule(boa_gc::verif::Schedule::Every(1));
    }
    let mut r = Real::new(n);
    let mut last = String::new();
    let mut trace = trace;
    for (step, &op) in hist.iter().enumerate() {
        if !m.enabled(op) {
            boa_gc::verif::set_schedule(boa_gc::verif::Schedule::Off);
            drop(r);
            teardown_arms();
            let _ = clean_heap("after an invalid history");
            return Err(None);
        }
        let pre = m.clone();
        stage(format!("step {step} {}", op.show()));
        let expect = m.apply(op);
        if let Err(mut v) = r.apply(&pre, op, expect) {
            v.step = step;
            r.leak();
            return Err(Some(v));
        }
        if check_all || step + 1 == hist.len() {
            match r.compare(&m, colls0) {
                Ok(s) => {
                    if let Some(t) = trace.as_deref_mut() {
                        t.push(format!("{} => {} | stats {:?} fin {:?} drp {:?}", op.show(), s, (m.n_strongs(), m.n_weaks(), m.n_weak_maps(), m.bytes()), m.fin, m.drp));
                    }
                    last = s;
                }
                Err(mut v) => {
                    v.step = step;
                    r.leak();
                    return Err(Some(v));
                }
            }
        }
    }
    let key = hash2(&m.canon());
    let flags = m.flags;
    // digest of the real observation (rendering + counters relative to the model's numbering)
    let st = stats_tuple();
    let dig = hash2(format!("{last}|{},{},{},{}", st.0, st.1, st.2, st.3).as_bytes()).0;
    // teardown: everything the host holds is dropped, then the heap must drain completely and every
    // node ever allocated must have been dropped exactly once, each still-allocated one finalized once more.
    let alive_serials: Vec<usize> = m.nodes.iter().filter(|nd| nd.alive).map(|nd| nd.serial).collect();
    let total = m.fin.len();
    stage("teardown (every host handle dropped, then collect x3)".into());
    boa_gc::verif::set_schedule(boa_gc::verif::Schedule::Off);
    drop(r);
    teardown_arms();
    let fin_before: Vec<u32> = TAB.with(|t| t.borrow().fin.clone());
    let steps = hist.len();
    if let Err(e) = clean_heap("after dropping every host handle and collecting three times") {
        return Err(Some(Viol { step: steps, ..viol("teardown-leak", e, "empty heap".into(), "non-empty heap".into()) }));
    }
    let (fin, drp, notes) = TAB.with(|t| {
        let t = t.borrow();
        (t.fin.clone(), t.drp.clone(), t.notes.clone())
    });
    if !notes.is_empty() {
        return Err(Some(Viol { step: steps, ..viol("payload", notes.join("; "), "no payload damage".into(), notes[0].clone()) }));
    }
    for s in 0..total {
        if drp[s] != 1 {
            return Err(Some(Viol { step: steps, ..viol("teardown-drop-count", format!("after teardown node serial {s} was dropped {} time(s)", drp[s]), "drops=1".into(), format!("drops={}", drp[s])) }));
        }
        let want = fin_before[s] + alive_serials.contains(&s) as u32;
        if fin[s] != want {
            return Err(Some(Viol { step: steps, ..viol("teardown-finalize-count", format!("after teardown node serial {s} was finalized {} time(s), expected {want}", fin[s]), format!("finalized={want}"), format!("finalized={}", fin[s])) }));
        }
    }
    Ok(Outcome { key, digest: dig, flags, render: last })
}

fn teardown_arms() {
    let (arms, res): (Vec<Option<ArmSlot>>, Vec<(u8, Gc<Node>)>) = TAB.with(|t| {
        let mut t = t.borrow_mut();
        (std::mem::take(&mut t.arms), std::mem::take(&mut t.res_out))
    });
    drop(arms);
    drop(res);
    // keep the table long enough for finalizers that still run during the teardown collections
    TAB.with(|t| {
        let mut t = t.borrow_mut();
        let n = t.fin.len();
        t.arms = (0..n).map(|_| None).collect();
    });
}

