//! vc09 — explicit-state exploration of the real `boa_gc` against a reachability model (property C09).
//!
//!   vc09 explore --part P --nodes N --depth D [--prefix "op;op"] [--workers W] [--boxes B]
//!        breadth-first over operation histories; every transition is a fresh replay on the real heap in a
//!        child process (`vc09 worker`), compared with the model; states merged on the canonical model key.
//!        Last stdout line: JSON summary.
//!   vc09 hist [--nodes N] [--boxes B] "op;op;..."      one history, compared after every step. JSON line.
//!   vc09 worker ...                                     (internal)
//!   vc09 sizes                                          measured box sizes

mod model;
mod real;

use model::{Caps, M, Op, Sizes, all_ops, feat, hash2, part_allows};
use serde_json::json;
use std::collections::{BTreeMap, HashMap, HashSet};
use std::io::{BufRead, BufReader, BufWriter, Write};
use std::process::{Child, ChildStdin, ChildStdout, Command, Stdio};
use std::sync::atomic::{AtomicUsize, Ordering};
use std::sync::mpsc;

unsafe extern "C" {
    fn _exit(code: i32) -> !;
}

thread_local! { static PANIC_MSG: std::cell::RefCell<String> = const { std::cell::RefCell::new(String::new()) }; }

fn install_panic_hook() {
    std::panic::set_hook(Box::new(|info| {
        let loc = info.location().map(|l| format!("{}:{}", l.file(), l.line())).unwrap_or_default();
        let msg = if let Some(s) = info.payload().downcast_ref::<&str>() {
            (*s).to_string()
        } else if let Some(s) = info.payload().downcast_ref::<String>() {
            s.clone()
        } else {
            "?".into()
        };
        let st = real::STAGE.with(|s| s.borrow().clone());
        PANIC_MSG.with(|p| *p.borrow_mut() = format!("{msg} @ {loc} during {st}"));
    }));
}

struct Args {
    part: String,
    nodes: u8,
    depth: usize,
    prefix: Vec<Op>,
    workers: usize,
    caps: Caps,
    positional: Vec<String>,
    max_viol: usize,
    gc_alloc: bool,
}

fn parse_hist(s: &str) -> Result<Vec<Op>, String> {
    let mut v = vec![];
    for t in s.split(';') {
        if t.trim().is_empty() {
            continue;
        }
        v.push(Op::parse(t).ok_or_else(|| format!("bad op `{t}`"))?);
    }
    Ok(v)
}

fn parse_args(a: &[String]) -> Result<Args, String> {
    let mut r = Args { part: "full".into(), nodes: 3, depth: 4, prefix: vec![], workers: 16, caps: Caps::default(), positional: vec![], max_viol: 100000, gc_alloc: false };
    let mut i = 0;
    while i < a.len() {
        let need = |i: usize| a.get(i + 1).cloned().ok_or_else(|| format!("{} needs a value", a[i]));
        match a[i].as_str() {
            "--part" => {
                r.part = need(i)?;
                i += 1;
            }
            "--nodes" => {
                r.nodes = need(i)?.parse().map_err(|_| "bad --nodes")?;
                i += 1;
            }
            "--depth" => {
                r.depth = need(i)?.parse().map_err(|_| "bad --depth")?;
                i += 1;
            }
            "--workers" => {
                r.workers = need(i)?.parse().map_err(|_| "bad --workers")?;
                i += 1;
            }
            "--boxes" => {
                r.caps.boxes = need(i)?.parse().map_err(|_| "bad --boxes")?;
                i += 1;
            }
            "--max-viol" => {
                r.max_viol = need(i)?.parse().map_err(|_| "bad --max-viol")?;
                i += 1;
            }
            "--gc-alloc" => r.gc_alloc = true,
            "--prefix" => {
                r.prefix = parse_hist(&need(i)?)?;
                i += 1;
            }
            s => r.positional.push(s.to_string()),
        }
        i += 1;
    }
    if r.nodes == 0 || r.nodes > 4 {
        return Err("--nodes 1..4".into());
    }
    Ok(r)
}

fn set_mutation() {
    if let Ok(v) = std::env::var("VC09_MUTATE") {
        let k = match v.as_str() {
            "" | "0" | "none" => 0,
            "eph_once" => 1,
            "unreachable_kept" => 2,
            "weak_strong" => 3,
            "cycles_leak" => 4,
            "eph_value_strong" => 5,
            _ => {
                eprintln!("unknown VC09_MUTATE");
                std::process::exit(2);
            }
        };
        model::MUTATE.store(k, Ordering::Relaxed);
    }
}

fn viol_json(hist: &[Op], v: &real::Viol) -> serde_json::Value {
    json!({"hist": hist.iter().map(Op::show).collect::<Vec<_>>(), "kind": v.kind, "detail": v.detail, "expected": v.expected, "observed": v.observed, "step": v.step})
}

// ------------------------------------------------------------------------------------------------
// single history
// ------------------------------------------------------------------------------------------------
fn cmd_hist(a: &Args) -> i32 {
    install_panic_hook();
    let hist = match a.positional.first().map(|s| parse_hist(s)) {
        Some(Ok(h)) => h,
        Some(Err(e)) => {
            println!("{}", json!({"error": e}));
            return 2;
        }
        None => {
            println!("{}", json!({"error": "no history"}));
            return 2;
        }
    };
    let sizes = match real::measure_sizes() {
        Ok(s) => s,
        Err(e) => {
            println!("{}", json!({"error": e}));
            return 2;
        }
    };
    let mut trace = vec![];
    let n = a.nodes;
    let caps = a.caps;
    let res = std::panic::catch_unwind(std::panic::AssertUnwindSafe(|| real::run_history(n, sizes, caps, a.gc_alloc, &hist, true, Some(&mut trace))));
    let out = match res {
        Ok(Ok(o)) => json!({"valid": true, "violation": null, "final": o.render, "trace": trace, "flags": flag_names(o.flags)}),
        Ok(Err(None)) => json!({"valid": false, "violation": null}),
        Ok(Err(Some(v))) => json!({"valid": true, "violation": viol_json(&hist, &v), "trace": trace}),
        Err(_) => {
            let msg = PANIC_MSG.with(|p| p.borrow().clone());
            json!({"valid": true, "violation": {"hist": hist.iter().map(Op::show).collect::<Vec<_>>(), "kind": "panic", "detail": msg, "expected": "no panic", "observed": panic_class(&msg), "step": -1}, "trace": trace})
        }
    };
    println!("{out}");
    std::io::stdout().flush().ok();
    unsafe { _exit(0) }
}

/// Stable class of a panic message (file:line and numbers removed from the identity).
fn panic_class(msg: &str) -> String {
    let head = msg.split(" @ ").next().unwrap_or(msg);
    let loc = msg.split(" @ ").nth(1).unwrap_or("").split(" during ").next().unwrap_or("");
    let file = loc.rsplit('/').next().unwrap_or(loc).split(':').next().unwrap_or("");
    format!("panic: {} [{}]", head.chars().take(80).collect::<String>(), file)
}

fn flag_names(f: u16) -> Vec<&'static str> {
    feat::NAMES.iter().enumerate().filter(|(i, _)| f & (1 << i) != 0).map(|(_, n)| *n).collect()
}

// ------------------------------------------------------------------------------------------------
// worker: reads "P <start_op_index> <hex history>" lines, answers per enabled op
//   "T <opidx> <key_a> <key_b> <digest> <flags>"   or   "V <opidx> <json>"  followed by "R <next opidx>" and exit
//   and "E" at the end of each parent.
// ------------------------------------------------------------------------------------------------
fn cmd_worker(a: &Args) -> i32 {
    install_panic_hook();
    let ops = all_ops(a.nodes);
    let sizes = match real::measure_sizes() {
        Ok(s) => s,
        Err(e) => {
            println!("F {e}");
            return 3;
        }
    };
    println!("S {} {} {} {} {}", sizes.node, sizes.map, sizes.weak, sizes.eph, sizes.anchor);
    let stdin = std::io::stdin();
    let stdout = std::io::stdout();
    let mut out = BufWriter::new(stdout.lock());
    out.flush().ok();
    let mut line = String::new();
    let mut inp = stdin.lock();
    loop {
        line.clear();
        if inp.read_line(&mut line).unwrap_or(0) == 0 {
            break;
        }
        let mut it = line.split_whitespace();
        let cmd = it.next();
        if cmd == Some("H") {
            // one whole history, compared after every step: "O" ok, "I" invalid, "V <json>" (then exit)
            let hx = it.next().unwrap_or("");
            let hist: Vec<Op> = (0..hx.len() / 2).map(|i| ops[usize::from_str_radix(&hx[2 * i..2 * i + 2], 16).unwrap()]).collect();
            let n = a.nodes;
            let caps = a.caps;
            let res = std::panic::catch_unwind(std::panic::AssertUnwindSafe(|| real::run_history(n, sizes, caps, a.gc_alloc, &hist, true, None)));
            match res {
                Ok(Ok(_)) => {
                    let _ = writeln!(out, "O");
                }
                Ok(Err(None)) => {
                    let _ = writeln!(out, "I");
                }
                Ok(Err(Some(v))) => {
                    let _ = writeln!(out, "V {}", viol_json(&hist, &v));
                    out.flush().ok();
                    unsafe { _exit(0) }
                }
                Err(_) => {
                    let msg = PANIC_MSG.with(|p| p.borrow().clone());
                    let v = json!({"hist": hist.iter().map(Op::show).collect::<Vec<_>>(), "kind": "panic", "detail": msg, "expected": "no panic", "observed": panic_class(&msg), "step": -1});
                    let _ = writeln!(out, "V {v}");
                    out.flush().ok();
                    unsafe { _exit(0) }
                }
            }
            out.flush().ok();
            continue;
        }
        if cmd != Some("P") {
            continue;
        }
        let start: usize = it.next().unwrap().parse().unwrap();
        let hx = it.next().unwrap_or("");
        let parent: Vec<Op> = (0..hx.len() / 2).map(|i| ops[usize::from_str_radix(&hx[2 * i..2 * i + 2], 16).unwrap()]).collect();
        // model of the parent
        let mut m = M::new(a.nodes, sizes, a.caps);
        m.gc_alloc = a.gc_alloc;
        for &op in &parent {
            assert!(m.enabled(op), "parent history invalid");
            m.apply(op);
        }
        let mut hist = parent.clone();
        hist.push(Op::Collect);
        for (idx, &op) in ops.iter().enumerate().skip(start) {
            if !part_allows(&a.part, &op) || !m.enabled(op) {
                continue;
            }
            *hist.last_mut().unwrap() = op;
            let n = a.nodes;
            let caps = a.caps;
            let res = std::panic::catch_unwind(std::panic::AssertUnwindSafe(|| real::run_history(n, sizes, caps, a.gc_alloc, &hist, false, None)));
            match res {
                Ok(Ok(o)) => {
                    let _ = writeln!(out, "T {idx} {:x} {:x} {:x} {:x}", o.key.0, o.key.1, o.digest, o.flags);
                }
                Ok(Err(None)) => unreachable!("enabled op became invalid"),
                Ok(Err(Some(v))) => {
                    let _ = writeln!(out, "V {idx} {}", viol_json(&hist, &v));
                    let _ = writeln!(out, "R {}", idx + 1);
                    out.flush().ok();
                    unsafe { _exit(0) }
                }
                Err(_) => {
                    let msg = PANIC_MSG.with(|p| p.borrow().clone());
                    let v = json!({"hist": hist.iter().map(Op::show).collect::<Vec<_>>(), "kind": "panic", "detail": msg, "expected": "no panic", "observed": panic_class(&msg), "step": -1});
                    let _ = writeln!(out, "V {idx} {v}");
                    let _ = writeln!(out, "R {}", idx + 1);
                    out.flush().ok();
                    unsafe { _exit(0) }
                }
            }
        }
        let _ = writeln!(out, "E");
        out.flush().ok();
    }
    out.flush().ok();
    unsafe { _exit(0) }
}

// ------------------------------------------------------------------------------------------------
// explorer
// ------------------------------------------------------------------------------------------------
struct Proc {
    child: Child,
    inp: ChildStdin,
    out: BufReader<ChildStdout>,
}

fn spawn_worker(a: &Args) -> Proc {
    let exe = std::env::current_exe().expect("current_exe");
    let mut child = Command::new(exe)
        .args(["worker", "--part", &a.part, "--nodes", &a.nodes.to_string(), "--boxes", &a.caps.boxes.to_string()])
        .args(if a.gc_alloc { vec!["--gc-alloc"] } else { vec![] })
        .stdin(Stdio::piped())
        .stdout(Stdio::piped())
        .stderr(Stdio::null())
        .spawn()
        .expect("spawn worker");
    let inp = child.stdin.take().unwrap();
    let mut out = BufReader::new(child.stdout.take().unwrap());
    let mut l = String::new();
    out.read_line(&mut l).expect("worker hello");
    assert!(l.starts_with("S "), "worker did not start: {l}");
    Proc { child, inp, out }
}

enum Res {
    T { parent: u32, op: u8, key: (u64, u64), digest: u64, flags: u16 },
    V { parent: u32, op: u8, v: serde_json::Value },
}

/// Process one chunk of parents on a worker (respawning it when it exits after a violation or dies).
fn run_chunk(a: &Args, ops: &[Op], proc_: &mut Option<Proc>, base: u32, parents: &[&[u8]], respawns: &AtomicUsize) -> Vec<Res> {
    let mut res = Vec::new();
    let mut pi = 0usize; // index of the parent being answered
    let mut start = 0usize; // first op index to run for parents[pi]
    'outer: while pi < parents.len() {
        if proc_.is_none() {
            *proc_ = Some(spawn_worker(a));
            respawns.fetch_add(1, Ordering::Relaxed);
        }
        let p = proc_.as_mut().unwrap();
        // send the rest of the chunk
        let mut msg = String::new();
        for (k, h) in parents[pi..].iter().enumerate() {
            let hx: String = h.iter().map(|b| format!("{b:02x}")).collect();
            msg.push_str(&format!("P {} {}\n", if k == 0 { start } else { 0 }, hx));
        }
        if p.inp.write_all(msg.as_bytes()).is_err() || p.inp.flush().is_err() {
            let _ = p.child.kill();
            let _ = p.child.wait();
            *proc_ = None;
            continue;
        }
        let mut last_idx: Option<usize> = None; // last op index answered for the current parent
        let mut line = String::new();
        loop {
            line.clear();
            let n = p.out.read_line(&mut line).unwrap_or(0);
            if n == 0 {
                // worker died without saying why: the op after the last answered one crashed it
                let status = p.child.wait().ok();
                *proc_ = None;
                let m = {
                    let mut m = M::new(a.nodes, Sizes { node: 1, map: 1, weak: 1, eph: 1, anchor: 1 }, a.caps);
                    m.gc_alloc = a.gc_alloc;
                    for &b in parents[pi] {
                        m.apply(ops[b as usize]);
                    }
                    m
                };
                let from = last_idx.map(|x| x + 1).unwrap_or(start);
                let crashed = (from..ops.len()).find(|&i| part_allows(&a.part, &ops[i]) && m.enabled(ops[i]));
                match crashed {
                    Some(ci) => {
                        let mut hist: Vec<Op> = parents[pi].iter().map(|&b| ops[b as usize]).collect();
                        hist.push(ops[ci]);
                        let st = format!("{status:?}");
                        res.push(Res::V {
                            parent: base + pi as u32,
                            op: ci as u8,
                            v: json!({"hist": hist.iter().map(Op::show).collect::<Vec<_>>(), "kind": "crash", "detail": format!("explorer worker died ({st}) while replaying this history"), "expected": "no crash", "observed": "Abort", "step": -1}),
                        });
                        start = ci + 1;
                    }
                    None => {
                        pi += 1;
                        start = 0;
                    }
                }
                continue 'outer;
            }
            let mut it = line.split_whitespace();
            match it.next() {
                Some("T") => {
                    let idx: usize = it.next().unwrap().parse().unwrap();
                    let ka = u64::from_str_radix(it.next().unwrap(), 16).unwrap();
                    let kb = u64::from_str_radix(it.next().unwrap(), 16).unwrap();
                    let dg = u64::from_str_radix(it.next().unwrap(), 16).unwrap();
                    let fl = u16::from_str_radix(it.next().unwrap(), 16).unwrap();
                    last_idx = Some(idx);
                    res.push(Res::T { parent: base + pi as u32, op: idx as u8, key: (ka, kb), digest: dg, flags: fl });
                }
                Some("V") => {
                    let idx: usize = it.next().unwrap().parse().unwrap();
                    let js = line.splitn(3, ' ').nth(2).unwrap_or("{}");
                    let v: serde_json::Value = serde_json::from_str(js).unwrap_or(json!({"kind": "unparsable"}));
                    last_idx = Some(idx);
                    res.push(Res::V { parent: base + pi as u32, op: idx as u8, v });
                }
                Some("R") => {
                    start = it.next().unwrap().parse().unwrap();
                    let _ = p.child.wait();
                    *proc_ = None;
                    continue 'outer;
                }
                Some("E") => {
                    pi += 1;
                    start = 0;
                    last_idx = None;
                    if pi == parents.len() {
                        break 'outer;
                    }
                }
                _ => {}
            }
        }
    }
    res
}


/// Result of running one whole history in a worker: None = no violation, Some(v) = violation JSON; Err = invalid.
fn eval_hist(a: &Args, proc_: &mut Option<Proc>, hist: &[u8], ops: &[Op], respawns: &AtomicUsize) -> Result<Option<serde_json::Value>, ()> {
    for _attempt in 0..3 {
        if proc_.is_none() {
            *proc_ = Some(spawn_worker(a));
            respawns.fetch_add(1, Ordering::Relaxed);
        }
        let p = proc_.as_mut().unwrap();
        let hx: String = hist.iter().map(|b| format!("{b:02x}")).collect();
        if p.inp.write_all(format!("H {hx}\n").as_bytes()).is_err() || p.inp.flush().is_err() {
            let _ = p.child.kill();
            let _ = p.child.wait();
            *proc_ = None;
            continue;
        }
        let mut line = String::new();
        let n = p.out.read_line(&mut line).unwrap_or(0);
        if n == 0 {
            let status = p.child.wait().ok();
            *proc_ = None;
            let h: Vec<String> = hist.iter().map(|&b| ops[b as usize].show()).collect();
            return Ok(Some(json!({"hist": h, "kind": "crash", "detail": format!("worker died ({status:?}) while replaying this history"), "expected": "no crash", "observed": "Abort", "step": -1})));
        }
        return match line.chars().next() {
            Some('O') => Ok(None),
            Some('I') => Err(()),
            Some('V') => {
                let _ = p.child.wait();
                *proc_ = None;
                Ok(Some(serde_json::from_str(line[2..].trim()).unwrap_or(json!({"kind": "unparsable"}))))
            }
            _ => Ok(Some(json!({"kind": "protocol", "detail": line}))),
        };
    }
    Ok(Some(json!({"kind": "machinery", "detail": "could not talk to a worker"})))
}

/// Rename node ids so that every alloc takes the lowest free id (the only alloc the alphabet offers).
/// Returns None when the history is not valid after renaming.
fn renumber(a: &Args, ops: &[Op], code_of: &HashMap<Op, u8>, hist: &[u8]) -> Option<Vec<u8>> {
    let dummy = Sizes { node: 1, map: 1, weak: 1, eph: 1, anchor: 1 };
    let mut m = M::new(a.nodes, dummy, a.caps);
    m.gc_alloc = a.gc_alloc;
    let mut map: Vec<Option<u8>> = vec![None; a.nodes as usize];
    let mut out = Vec::with_capacity(hist.len());
    for &b in hist {
        let op = ops[b as usize];
        let t = |x: u8| map.get(x as usize).copied().flatten();
        let new = match op {
            Op::Alloc(o) => {
                let f = m.lowest_free()?;
                map[o as usize] = Some(f);
                Op::Alloc(f)
            }
            Op::Clone(i) => Op::Clone(t(i)?),
            Op::Drop(i) => Op::Drop(t(i)?),
            Op::Link(i, j) => Op::Link(t(i)?, t(j)?),
            Op::Unlink(i, j) => Op::Unlink(t(i)?, t(j)?),
            Op::Follow(i, j) => Op::Follow(t(i)?, t(j)?),
            Op::HostWeak(i) => Op::HostWeak(t(i)?),
            Op::HostEph(i, j) => Op::HostEph(t(i)?, t(j)?),
            Op::NodeWeak(i, j) => Op::NodeWeak(t(i)?, t(j)?),
            Op::NodeEph(i, j, k) => Op::NodeEph(t(i)?, t(j)?, t(k)?),
            Op::MapStore(i) => Op::MapStore(t(i)?),
            Op::MapTake(i) => Op::MapTake(t(i)?),
            Op::MapInsert(i, j) => Op::MapInsert(t(i)?, t(j)?),
            Op::MapRemove(i) => Op::MapRemove(t(i)?),
            Op::ArmHost(i) => Op::ArmHost(t(i)?),
            Op::ArmNode(i, j) => Op::ArmNode(t(i)?, t(j)?),
            o @ (Op::DropHostWeak(_) | Op::UpgradeKeep(_) | Op::DropHostEph(_) | Op::TakeValue(_) | Op::MapNew | Op::MapDropHost | Op::Collect) => o,
        };
        if !part_allows(&a.part, &new) || !m.enabled(new) {
            return None;
        }
        m.apply(new);
        out.push(*code_of.get(&new)?);
    }
    Some(out)
}

type Memo = std::sync::Mutex<HashMap<Vec<u8>, Option<(String, serde_json::Value)>>>;

/// Greedy one-op-at-a-time reduction preserving the violation kind; deterministic.
fn minimize(a: &Args, ops: &[Op], code_of: &HashMap<Op, u8>, proc_: &mut Option<Proc>, memo: &Memo, hist: Vec<u8>, kind: &str, v0: serde_json::Value, respawns: &AtomicUsize, evals: &AtomicUsize) -> (Vec<u8>, serde_json::Value) {
    let mut cur = hist;
    let mut curv = v0;
    loop {
        let mut progressed = false;
        for i in 0..cur.len() {
            let mut cand = cur.clone();
            cand.remove(i);
            let Some(cand) = renumber(a, ops, code_of, &cand) else { continue };
            let cached = memo.lock().unwrap().get(&cand).cloned();
            let r = match cached {
                Some(r) => r,
                None => {
                    evals.fetch_add(1, Ordering::Relaxed);
                    let r = match eval_hist(a, proc_, &cand, ops, respawns) {
                        Ok(Some(v)) => Some((v["kind"].as_str().unwrap_or("?").to_string(), v)),
                        Ok(None) | Err(()) => None,
                    };
                    memo.lock().unwrap().insert(cand.clone(), r.clone());
                    r
                }
            };
            if let Some((k, v)) = r {
                if k == kind {
                    cur = cand;
                    curv = v;
                    progressed = true;
                    break;
                }
            }
        }
        if !progressed {
            return (cur, curv);
        }
    }
}

fn cmd_explore(a: &Args) -> i32 {
    let t0 = std::time::Instant::now();
    let ops = all_ops(a.nodes);
    let code_of: HashMap<Op, u8> = ops.iter().enumerate().map(|(i, o)| (*o, i as u8)).collect();
    // root
    let dummy = Sizes { node: 1, map: 1, weak: 1, eph: 1, anchor: 1 };
    let mut root = M::new(a.nodes, dummy, a.caps);
    root.gc_alloc = a.gc_alloc;
    let mut root_hist: Vec<u8> = vec![];
    for &op in &a.prefix {
        if !root.enabled(op) {
            println!("{}", json!({"error": format!("prefix op {} not enabled", op.show())}));
            return 2;
        }
        root.apply(op);
        root_hist.push(code_of[&op]);
    }
    let mut seen: HashMap<(u64, u64), u64> = HashMap::new();
    // the root's digest is unknown until something reaches it again; use a marker
    const UNKNOWN: u64 = u64::MAX;
    seen.insert(hash2(&root.canon()), UNKNOWN);
    let mut states: u64 = 1;
    let mut transitions: u64 = 0;
    let mut merged: u64 = 0;
    let mut cross_ok: u64 = 0;
    let mut digests: HashSet<u64> = HashSet::new();
    let mut flag_counts = vec![0u64; feat::NAMES.len()];
    let mut nontrivial: u64 = 0;
    let mut violations: Vec<serde_json::Value> = vec![];
    let mut raw_viol: Vec<Vec<u8>> = vec![];
    let mut per_depth = vec![];
    let mut samples: Vec<serde_json::Value> = vec![];
    let respawns = AtomicUsize::new(0);
    let mut procs: Vec<Option<Proc>> = (0..a.workers.max(1)).map(|_| None).collect();
    let mut frontier: Vec<Vec<u8>> = vec![root_hist.clone()];
    let mut depth_done = 0;
    let mut viol_capped = false;
    let mut viol_dropped: u64 = 0;
    for d in 0..a.depth {
        if frontier.is_empty() {
            depth_done = a.depth; // the whole reachable space is exhausted
            break;
        }
        let chunk = (frontier.len() / (a.workers * 8)).clamp(1, 128);
        let nchunks = frontier.len().div_ceil(chunk);
        let next = AtomicUsize::new(0);
        let (tx, rx) = mpsc::channel::<(usize, Vec<Res>)>();
        let mut next_frontier: Vec<Vec<u8>> = Vec::new();
        let (s0, t0l) = (states, transitions);
        std::thread::scope(|sc| {
            for pr in procs.iter_mut() {
                let tx = tx.clone();
                let (frontier, next, ops, respawns) = (&frontier, &next, &ops, &respawns);
                sc.spawn(move || {
                    loop {
                        let c = next.fetch_add(1, Ordering::Relaxed);
                        if c >= nchunks {
                            break;
                        }
                        let lo = c * chunk;
                        let hi = (lo + chunk).min(frontier.len());
                        let parents: Vec<&[u8]> = frontier[lo..hi].iter().map(|v| v.as_slice()).collect();
                        let r = run_chunk(a, ops, pr, lo as u32, &parents, respawns);
                        if tx.send((c, r)).is_err() {
                            break;
                        }
                    }
                });
            }
            drop(tx);
            // deterministic merge: chunks in index order, results in worker order (= op order per parent)
            let mut pending: BTreeMap<usize, Vec<Res>> = BTreeMap::new();
            let mut want = 0usize;
            for (c, r) in rx {
                pending.insert(c, r);
                while let Some(r) = pending.remove(&want) {
                    want += 1;
                    for x in r {
                        transitions += 1;
                        match x {
                            Res::T { parent, op, key, digest, flags } => {
                                digests.insert(digest);
                                for (i, fc) in flag_counts.iter_mut().enumerate() {
                                    if flags & (1 << i) != 0 {
                                        *fc += 1;
                                    }
                                }
                                if flags & !(feat::GARBAGE) != 0 {
                                    nontrivial += 1;
                                }
                                match seen.get_mut(&key) {
                                    Some(d0) => {
                                        merged += 1;
                                        if *d0 == UNKNOWN {
                                            *d0 = digest;
                                        } else if *d0 != digest {
                                            let mut hist: Vec<Op> = frontier[parent as usize].iter().map(|&b| ops[b as usize]).collect();
                                            hist.push(ops[op as usize]);
                                            let mut hc = frontier[parent as usize].clone();
                                            hc.push(op);
                                            raw_viol.push(hc);
                                            violations.push(json!({"hist": hist.iter().map(Op::show).collect::<Vec<_>>(), "kind": "merge-divergence", "detail": "a history reaching an already known model state shows a different real observation than the first history that reached it", "expected": format!("{:x}", *d0), "observed": format!("{digest:x}"), "step": hist.len() - 1}));
                                        } else {
                                            cross_ok += 1;
                                        }
                                    }
                                    None => {
                                        seen.insert(key, digest);
                                        states += 1;
                                        let mut h = frontier[parent as usize].clone();
                                        h.push(op);
                                        if samples.len() < 6 && (flags & (feat::FREED_CYCLE | feat::EPH_ONLY | feat::CLEARED | feat::MAP_EXPIRE | feat::RESURRECT) != 0) && samples.iter().all(|s| s["flags"] != json!(flag_names(flags))) {
                                            samples.push(json!({"hist": h.iter().map(|&b| ops[b as usize].show()).collect::<Vec<_>>(), "flags": flag_names(flags)}));
                                        }
                                        if d + 1 < a.depth {
                                            next_frontier.push(h);
                                        }
                                    }
                                }
                            }
                            Res::V { parent, op, v } => {
                                if violations.len() < a.max_viol {
                                    let mut h = frontier[parent as usize].clone();
                                    h.push(op);
                                    raw_viol.push(h);
                                    violations.push(v);
                                } else {
                                    viol_capped = true;
                                    viol_dropped += 1;
                                }
                            }
                        }
                    }
                }
            }
        });
        per_depth.push(json!({"depth": a.prefix.len() + d + 1, "parents": frontier.len(), "new_states": states - s0, "transitions": transitions - t0l}));
        frontier = next_frontier;
        depth_done = d + 1;
    }
    // ---- reduce every violating history to a 1-minimal witness of the same kind; group by witness
    let evals = AtomicUsize::new(0);
    let mut witnesses: Vec<serde_json::Value> = vec![];
    if !violations.is_empty() {
        let memo: Memo = std::sync::Mutex::new(HashMap::new());
        let nextv = AtomicUsize::new(0);
        let results: std::sync::Mutex<Vec<Option<(Vec<u8>, serde_json::Value)>>> = std::sync::Mutex::new(vec![None; violations.len()]);
        std::thread::scope(|sc| {
            for pr in procs.iter_mut() {
                let (violations, raw_viol, nextv, results, memo, ops, code_of, respawns, evals) = (&violations, &raw_viol, &nextv, &results, &memo, &ops, &code_of, &respawns, &evals);
                sc.spawn(move || {
                    loop {
                        let i = nextv.fetch_add(1, Ordering::Relaxed);
                        if i >= violations.len() {
                            break;
                        }
                        let kind = violations[i]["kind"].as_str().unwrap_or("?").to_string();
                        let r = if kind == "merge-divergence" { (raw_viol[i].clone(), violations[i].clone()) } else { minimize(a, ops, code_of, pr, memo, raw_viol[i].clone(), &kind, violations[i].clone(), respawns, evals) };
                        results.lock().unwrap()[i] = Some(r);
                    }
                });
            }
        });
        let results = results.into_inner().unwrap();
        let mut groups: BTreeMap<(Vec<u8>, String), (serde_json::Value, u64, usize)> = BTreeMap::new();
        for (i, r) in results.into_iter().enumerate() {
            let (h, v) = r.unwrap();
            let kind = v["kind"].as_str().unwrap_or("?").to_string();
            let e = groups.entry((h, kind)).or_insert((v, 0, i));
            e.1 += 1;
        }
        let mut gl: Vec<_> = groups.into_iter().collect();
        gl.sort_by_key(|((h, k), _)| (h.len(), h.clone(), k.clone()));
        for ((h, _k), (v, count, first)) in gl {
            witnesses.push(json!({"hist": h.iter().map(|&b| ops[b as usize].show()).collect::<Vec<_>>(), "kind": v["kind"], "detail": v["detail"], "expected": v["expected"], "observed": v["observed"], "step": v["step"], "raw_count": count, "raw_example": violations[first]["hist"]}));
        }
    }
    for p in procs.iter_mut() {
        if let Some(mut p) = p.take() {
            drop(p.inp);
            let _ = p.child.wait();
        }
    }
    let flags_json: serde_json::Map<String, serde_json::Value> = feat::NAMES.iter().zip(flag_counts.iter()).map(|(n, c)| (n.to_string(), json!(c))).collect();
    println!(
        "{}",
        json!({
            "part": a.part, "nodes": a.nodes, "depth": a.depth, "depth_completed": depth_done, "prefix": a.prefix.iter().map(Op::show).collect::<Vec<_>>(),
            "alphabet": ops.iter().filter(|o| part_allows(&a.part, o)).count(),
            "states": states, "transitions": transitions, "merged": merged, "merged_cross_compared": cross_ok,
            "distinct_observations": digests.len(), "nontrivial_transitions": nontrivial, "features": flags_json,
            "raw_violations": violations.len() as u64 + viol_dropped, "witnesses": witnesses, "minimize_evals": evals.load(Ordering::Relaxed), "violations_capped": viol_capped, "per_depth": per_depth, "samples": samples,
            "worker_respawns": respawns.load(Ordering::Relaxed), "boxes_cap": a.caps.boxes, "gc_alloc": a.gc_alloc,
            "mutation": std::env::var("VC09_MUTATE").unwrap_or_default(),
            "seconds": t0.elapsed().as_secs_f64(),
        })
    );
    std::io::stdout().flush().ok();
    unsafe { _exit(0) }
}

fn main() {
    let argv: Vec<String> = std::env::args().skip(1).collect();
    let Some(cmd) = argv.first().cloned() else {
        eprintln!("usage: vc09 explore|hist|worker|sizes ...");
        std::process::exit(2);
    };
    set_mutation();
    let a = match parse_args(&argv[1..]) {
        Ok(a) => a,
        Err(e) => {
            eprintln!("{e}");
            std::process::exit(2);
        }
    };
    let rc = match cmd.as_str() {
        "explore" => cmd_explore(&a),
        "hist" => cmd_hist(&a),
        "worker" => cmd_worker(&a),
        "sizes" => {
            println!("{:?}", real::measure_sizes());
            0
        }
        "ops" => {
            for o in all_ops(a.nodes) {
                println!("{}", o.show());
            }
            0
        }
        _ => 2,
    };
    std::process::exit(rc);
}
