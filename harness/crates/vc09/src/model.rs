//! Operation alphabet and the reference model of C09 (plain lists and sets; no boa code in here).
//!
//! The model mirrors what a tracing collector with ephemerons must do, stated over
//!   nodes (strong boxes), "boxes" (ephemeron boxes: weak pointers, ephemerons, weak-map entries,
//!   the weak map's own anchor) and at most one weak map,
//! each kept in allocation order (the order of `BoaGc::strongs` / `BoaGc::weaks`), because mark order
//! and the ephemeron fix-point depend on that order and two histories are merged only when the
//! orders agree too.

use std::fmt::Write as _;
use std::sync::atomic::{AtomicU8, Ordering};

pub const NONE: u8 = 255;
pub const MAX_HANDLES: u8 = 2;

/// Deliberate model mutations (sensitivity demonstration only; selected by env VC09_MUTATE).
/// 0 none, 1 ephemeron rule applied in ONE pass only, 2 unreachable nodes treated as reachable,
/// 3 weak pointer treated as a strong edge, 4 cycles leak (a node with an in-edge is always kept),
/// 5 ephemeron value kept although key dead.
pub static MUTATE: AtomicU8 = AtomicU8::new(0);
fn mutate() -> u8 {
    MUTATE.load(Ordering::Relaxed)
}

#[derive(Clone, Copy, PartialEq, Eq, Debug, Hash, PartialOrd, Ord)]
pub enum Op {
    Alloc(u8),
    Clone(u8),
    Drop(u8),
    Link(u8, u8),
    Unlink(u8, u8),
    Follow(u8, u8),
    HostWeak(u8),
    DropHostWeak(u8),
    UpgradeKeep(u8),
    HostEph(u8, u8),
    DropHostEph(u8),
    TakeValue(u8),
    NodeWeak(u8, u8),
    NodeEph(u8, u8, u8),
    MapNew,
    MapDropHost,
    MapStore(u8),
    MapTake(u8),
    MapInsert(u8, u8),
    MapRemove(u8),
    Collect,
    ArmHost(u8),
    ArmNode(u8, u8),
}

impl Op {
    pub fn name(&self) -> &'static str {
        match self {
            Op::Alloc(_) => "alloc",
            Op::Clone(_) => "clone_handle",
            Op::Drop(_) => "drop_handle",
            Op::Link(..) => "link",
            Op::Unlink(..) => "unlink",
            Op::Follow(..) => "follow",
            Op::HostWeak(_) => "host_weak",
            Op::DropHostWeak(_) => "drop_host_weak",
            Op::UpgradeKeep(_) => "upgrade_keep",
            Op::HostEph(..) => "host_eph",
            Op::DropHostEph(_) => "drop_host_eph",
            Op::TakeValue(_) => "take_value",
            Op::NodeWeak(..) => "weak",
            Op::NodeEph(..) => "eph",
            Op::MapNew => "map_new",
            Op::MapDropHost => "map_drop_host",
            Op::MapStore(_) => "map_store",
            Op::MapTake(_) => "map_take",
            Op::MapInsert(..) => "map_insert",
            Op::MapRemove(_) => "map_remove",
            Op::Collect => "collect",
            Op::ArmHost(_) => "arm_resurrection",
            Op::ArmNode(..) => "arm_resurrection_into",
        }
    }
    pub fn args(&self) -> Vec<u8> {
        match *self {
            Op::Alloc(a) | Op::Clone(a) | Op::Drop(a) | Op::HostWeak(a) | Op::DropHostWeak(a) | Op::UpgradeKeep(a)
            | Op::DropHostEph(a) | Op::TakeValue(a) | Op::MapStore(a) | Op::MapTake(a) | Op::MapRemove(a) | Op::ArmHost(a) => vec![a],
            Op::Link(a, b) | Op::Unlink(a, b) | Op::Follow(a, b) | Op::HostEph(a, b) | Op::NodeWeak(a, b) | Op::MapInsert(a, b)
            | Op::ArmNode(a, b) => vec![a, b],
            Op::NodeEph(a, b, c) => vec![a, b, c],
            Op::MapNew | Op::MapDropHost | Op::Collect => vec![],
        }
    }
    pub fn show(&self) -> String {
        let a: Vec<String> = self.args().iter().map(|x| x.to_string()).collect();
        format!("{}({})", self.name(), a.join(","))
    }
    pub fn parse(s: &str) -> Option<Op> {
        let s = s.trim();
        let p = s.find('(')?;
        let name = &s[..p];
        let inner = s[p + 1..].strip_suffix(')')?;
        let a: Vec<u8> = if inner.trim().is_empty() { vec![] } else { inner.split(',').map(|x| x.trim().parse().ok()).collect::<Option<Vec<u8>>>()? };
        let g = |i: usize| a.get(i).copied();
        Some(match (name, a.len()) {
            ("alloc", 1) => Op::Alloc(g(0)?),
            ("clone_handle", 1) => Op::Clone(g(0)?),
            ("drop_handle", 1) => Op::Drop(g(0)?),
            ("link", 2) => Op::Link(g(0)?, g(1)?),
            ("unlink", 2) => Op::Unlink(g(0)?, g(1)?),
            ("follow", 2) => Op::Follow(g(0)?, g(1)?),
            ("host_weak", 1) => Op::HostWeak(g(0)?),
            ("drop_host_weak", 1) => Op::DropHostWeak(g(0)?),
            ("upgrade_keep", 1) => Op::UpgradeKeep(g(0)?),
            ("host_eph", 2) => Op::HostEph(g(0)?, g(1)?),
            ("drop_host_eph", 1) => Op::DropHostEph(g(0)?),
            ("take_value", 1) => Op::TakeValue(g(0)?),
            ("weak", 2) => Op::NodeWeak(g(0)?, g(1)?),
            ("eph", 3) => Op::NodeEph(g(0)?, g(1)?, g(2)?),
            ("map_new", 0) => Op::MapNew,
            ("map_drop_host", 0) => Op::MapDropHost,
            ("map_store", 1) => Op::MapStore(g(0)?),
            ("map_take", 1) => Op::MapTake(g(0)?),
            ("map_insert", 2) => Op::MapInsert(g(0)?, g(1)?),
            ("map_remove", 1) => Op::MapRemove(g(0)?),
            ("collect", 0) => Op::Collect,
            ("arm_resurrection", 1) => Op::ArmHost(g(0)?),
            ("arm_resurrection_into", 2) => Op::ArmNode(g(0)?, g(1)?),
            _ => return None,
        })
    }
}

/// The whole alphabet over `n` node ids, in a fixed order (the op code is the index).
pub fn all_ops(n: u8) -> Vec<Op> {
    let mut v = vec![Op::Collect];
    for i in 0..n {
        v.push(Op::Alloc(i));
    }
    for i in 0..n {
        v.push(Op::Clone(i));
        v.push(Op::Drop(i));
    }
    for i in 0..n {
        for j in 0..n {
            v.push(Op::Link(i, j));
            v.push(Op::Unlink(i, j));
            v.push(Op::Follow(i, j));
        }
    }
    for i in 0..n {
        v.push(Op::HostWeak(i));
    }
    for x in 0..2 {
        v.push(Op::DropHostWeak(x));
        v.push(Op::UpgradeKeep(x));
    }
    for i in 0..n {
        for j in 0..n {
            v.push(Op::HostEph(i, j));
        }
    }
    for x in 0..2 {
        v.push(Op::DropHostEph(x));
        v.push(Op::TakeValue(x));
    }
    for i in 0..n {
        for j in 0..n {
            v.push(Op::NodeWeak(i, j));
        }
    }
    for i in 0..n {
        for k in 0..n {
            for w in 0..n {
                v.push(Op::NodeEph(i, k, w));
            }
        }
    }
    v.push(Op::MapNew);
    v.push(Op::MapDropHost);
    for i in 0..n {
        v.push(Op::MapStore(i));
        v.push(Op::MapTake(i));
        v.push(Op::MapRemove(i));
    }
    for i in 0..n {
        for j in 0..n {
            v.push(Op::MapInsert(i, j));
        }
    }
    for i in 0..n {
        v.push(Op::ArmHost(i));
    }
    for i in 0..n {
        for j in 0..n {
            if i != j {
                v.push(Op::ArmNode(i, j));
            }
        }
    }
    assert!(v.len() < 256);
    v
}

/// Families: sub-alphabets explored to different depths.
pub fn part_allows(part: &str, op: &Op) -> bool {
    use Op::*;
    let base = matches!(op, Alloc(_) | Drop(_) | Link(..) | Unlink(..) | Collect);
    match part {
        "graph" => base || matches!(op, Clone(_) | Follow(..)),
        "weak" => base || matches!(op, HostWeak(_) | DropHostWeak(_) | UpgradeKeep(_) | NodeWeak(..)),
        "eph" => base || matches!(op, HostEph(..) | DropHostEph(_) | TakeValue(_) | NodeEph(..)),
        // host-held ephemerons only (ephemeron chains at greater depth)
        "ephh" => matches!(op, Alloc(_) | Drop(_) | Link(..) | Collect | HostEph(..) | DropHostEph(_) | TakeValue(_)),
        "map" => matches!(op, Alloc(_) | Drop(_) | Link(..) | Collect | MapNew | MapDropHost | MapStore(_) | MapTake(_) | MapInsert(..) | MapRemove(_)),
        "res" => base || matches!(op, Clone(_) | ArmHost(_) | ArmNode(..) | HostWeak(_)),
        "full" => true,
        // everything except resurrection
        "noarm" => !matches!(op, ArmHost(_) | ArmNode(..)),
        _ => false,
    }
}

#[derive(Clone, Copy, PartialEq, Eq, Debug)]
pub enum BK {
    Weak,
    Eph,
    Anchor,
}
#[derive(Clone, Copy, PartialEq, Eq, Debug)]
pub enum Holder {
    Host,
    Node(u8),
    Map,
    MapBox,
    Arm(u8),
    Orphan,
}
#[derive(Clone, Debug)]
pub struct BoxM {
    pub id: u32,
    pub kind: BK,
    pub k: u8,
    pub v: u8,
    pub holder: Holder,
    pub cleared: bool,
    /// became unreferenced only in the post-sweep step of a collection (dead weak map's anchor, expired
    /// weak-map entry): boa releases it one collection late (defect 17, a C10 matter); C09 accepts both
    pub lag: bool,
}
#[derive(Clone, Copy, PartialEq, Eq, Debug)]
pub enum S {
    Node(u8),
    Map,
}
#[derive(Clone, Debug, Default)]
pub struct NodeM {
    pub alive: bool,
    pub serial: usize,
    pub handles: u8,
    pub hidden: u8,
    pub out: Vec<u8>,
    pub weak: Vec<u32>,
    pub eph: Vec<u32>,
    pub has_map: bool,
    /// 0 none, 1 host slot, 2+j into node j
    pub arm: u8,
    /// merge-key only: how often this node was finalized and survived / had a finalized-and-surviving in-neighbour
    pub taint: u8,
}

#[derive(Clone, Copy, Debug)]
pub struct Sizes {
    pub node: usize,
    pub map: usize,
    pub weak: usize,
    pub eph: usize,
    pub anchor: usize,
}

#[derive(Clone, Copy, Debug)]
pub struct Caps {
    pub boxes: usize,
    pub host_weak: usize,
    pub host_eph: usize,
    pub node_weak: usize,
    pub node_eph: usize,
}
impl Default for Caps {
    fn default() -> Self {
        Caps { boxes: 5, host_weak: 2, host_eph: 2, node_weak: 1, node_eph: 1 }
    }
}

/// feature flags of the last transition (evidence of non-vacuity)
pub mod feat {
    pub const FREED: u16 = 1 << 0; // a collection freed >= 1 node
    pub const FREED_CYCLE: u16 = 1 << 1; // ... a node that had an in-edge from another freed node or itself
    pub const EPH_ONLY: u16 = 1 << 2; // a node survived only because of an ephemeron rule
    pub const EPH_ROUNDS: u16 = 1 << 3; // the ephemeron fix-point needed a second pass in `weaks` order
    pub const CLEARED: u16 = 1 << 4; // a weak pointer / ephemeron was cleared
    pub const RESURRECT: u16 = 1 << 5; // an armed finalizer fired
    pub const MAP_EXPIRE: u16 = 1 << 6; // a weak-map entry expired
    pub const MAP_LAG: u16 = 1 << 7; // dead weak map: its anchor box outlives the collection (known defect 17, C10)
    pub const REVIVE: u16 = 1 << 8; // a handle to a garbage (unreachable, not yet collected) node was regained through a weak thing
    pub const GARBAGE: u16 = 1 << 9; // unreachable nodes present after the op
    pub const KEPT: u16 = 1 << 10; // a collection kept >= 1 node that has no host handle
    pub const NAMES: &[&str] = &["freed", "freed_cycle", "eph_only", "eph_rounds", "cleared", "resurrect", "map_expire", "map_lag", "revive", "garbage", "kept_inner"];
}

#[derive(Clone, Debug)]
pub struct M {
    pub n: u8,
    pub nodes: Vec<NodeM>,
    pub strongs: Vec<S>,
    pub boxes: Vec<BoxM>,
    pub hw: Vec<u32>,
    pub he: Vec<u32>,
    pub map_alive: bool,
    pub map_host: bool,
    pub map_tracked: bool,
    pub entries: Vec<u32>,
    pub fin: Vec<u32>,
    pub drp: Vec<u32>,
    pub colls: u64,
    pub next_box: u32,
    pub sizes: Sizes,
    pub caps: Caps,
    pub flags: u16,
    /// every allocation first runs a collection (boa_gc::verif Schedule::Every(1)): exercises Allocator::manage_state
    pub gc_alloc: bool,
}

pub struct Reach {
    pub node: Vec<bool>,
    pub bx: Vec<bool>,
    pub map: bool,
    pub rounds: u32,
}

impl M {
    pub fn new(n: u8, sizes: Sizes, caps: Caps) -> M {
        M {
            n,
            nodes: vec![NodeM::default(); n as usize],
            strongs: vec![],
            boxes: vec![],
            hw: vec![],
            he: vec![],
            map_alive: false,
            map_host: false,
            map_tracked: false,
            entries: vec![],
            fin: vec![],
            drp: vec![],
            colls: 0,
            next_box: 0,
            sizes,
            caps,
            flags: 0,
            gc_alloc: false,
        }
    }
    fn h(&self, i: u8) -> bool {
        (i as usize) < self.nodes.len() && self.nodes[i as usize].alive && self.nodes[i as usize].handles > 0
    }
    pub fn bx(&self, id: u32) -> &BoxM {
        self.boxes.iter().find(|b| b.id == id).expect("box id")
    }
    fn bx_mut(&mut self, id: u32) -> &mut BoxM {
        self.boxes.iter_mut().find(|b| b.id == id).expect("box id")
    }
    fn room(&self) -> bool {
        self.boxes.len() < self.caps.boxes
    }
    pub fn lowest_free(&self) -> Option<u8> {
        (0..self.n).find(|&i| !self.nodes[i as usize].alive)
    }
    pub fn entry_for(&self, k: u8) -> Option<u32> {
        self.entries.iter().copied().find(|&e| {
            let b = self.bx(e);
            !b.cleared && b.k == k
        })
    }

    pub fn enabled(&self, op: Op) -> bool {
        let n = self.n;
        let ok = |x: u8| x < n;
        match op {
            Op::Alloc(i) => self.lowest_free() == Some(i),
            Op::Clone(i) => self.h(i) && self.nodes[i as usize].handles < MAX_HANDLES,
            Op::Drop(i) => self.h(i),
            Op::Link(i, j) => self.h(i) && self.h(j) && !self.nodes[i as usize].out.contains(&j),
            Op::Unlink(i, j) => ok(j) && self.h(i) && self.nodes[i as usize].out.contains(&j),
            Op::Follow(i, j) => ok(j) && self.h(i) && self.nodes[i as usize].out.contains(&j) && self.nodes[j as usize].handles < MAX_HANDLES,
            Op::HostWeak(j) => self.h(j) && self.hw.len() < self.caps.host_weak && self.room(),
            Op::DropHostWeak(x) => (x as usize) < self.hw.len(),
            Op::UpgradeKeep(x) => {
                (x as usize) < self.hw.len() && {
                    let b = self.bx(self.hw[x as usize]);
                    !b.cleared && self.nodes[b.k as usize].handles < MAX_HANDLES
                }
            }
            Op::HostEph(k, v) => self.h(k) && self.h(v) && self.he.len() < self.caps.host_eph && self.room(),
            Op::DropHostEph(x) => (x as usize) < self.he.len(),
            Op::TakeValue(x) => {
                (x as usize) < self.he.len() && {
                    let b = self.bx(self.he[x as usize]);
                    !b.cleared && self.nodes[b.v as usize].handles < MAX_HANDLES
                }
            }
            Op::NodeWeak(i, j) => self.h(i) && self.h(j) && self.nodes[i as usize].weak.len() < self.caps.node_weak && self.room(),
            Op::NodeEph(i, k, v) => self.h(i) && self.h(k) && self.h(v) && self.nodes[i as usize].eph.len() < self.caps.node_eph && self.room(),
            Op::MapNew => !self.map_alive && !self.boxes.iter().any(|b| b.kind == BK::Anchor) && self.room(),
            Op::MapDropHost => self.map_host,
            Op::MapStore(i) => self.map_host && self.h(i) && !self.nodes[i as usize].has_map,
            Op::MapTake(i) => !self.map_host && self.h(i) && self.nodes[i as usize].has_map,
            Op::MapInsert(k, v) => self.map_host && self.h(k) && self.h(v) && self.room(),
            Op::MapRemove(k) => self.map_host && self.h(k) && self.entry_for(k).is_some(),
            Op::Collect => true,
            Op::ArmHost(i) => self.h(i) && self.nodes[i as usize].arm == 0 && self.room(),
            Op::ArmNode(i, j) => i != j && self.h(i) && self.h(j) && self.nodes[i as usize].arm == 0 && self.room(),
        }
    }

    fn new_box(&mut self, kind: BK, k: u8, v: u8, holder: Holder) -> u32 {
        let id = self.next_box;
        self.next_box += 1;
        self.boxes.push(BoxM { id, kind, k, v, holder, cleared: false, lag: false });
        id
    }

    pub fn bytes(&self) -> usize {
        let mut b = 0;
        for s in &self.strongs {
            b += match s {
                S::Node(_) => self.sizes.node,
                S::Map => self.sizes.map,
            };
        }
        for x in &self.boxes {
            b += match x.kind {
                BK::Weak => self.sizes.weak,
                BK::Eph => self.sizes.eph,
                BK::Anchor => self.sizes.anchor,
            };
        }
        b
    }
    /// sizes of the boxes whose release boa delays by one collection (each may or may not still exist)
    pub fn lag_sizes(&self) -> Vec<usize> {
        self.boxes
            .iter()
            .filter(|b| b.lag)
            .map(|b| match b.kind {
                BK::Weak => self.sizes.weak,
                BK::Eph => self.sizes.eph,
                BK::Anchor => self.sizes.anchor,
            })
            .collect()
    }
    pub fn n_strongs(&self) -> usize {
        self.strongs.len()
    }
    pub fn n_weaks(&self) -> usize {
        self.boxes.len()
    }
    pub fn n_weak_maps(&self) -> usize {
        self.map_tracked as usize
    }

    /// Apply an enabled op. Returns the expected boolean result of the op where it has one.
    pub fn apply(&mut self, op: Op) -> Option<bool> {
        self.flags = 0;
        let mut pre_flags = 0;
        if self.gc_alloc {
            // the collection runs inside the allocator, before the new box is registered; everything the
            // operation touches is still held by host handles, so it sees the state before the op
            let allocs = match op {
                Op::Alloc(_) | Op::HostWeak(_) | Op::HostEph(..) | Op::NodeWeak(..) | Op::NodeEph(..) | Op::MapInsert(..) | Op::ArmHost(_) | Op::ArmNode(..) => 1,
                Op::MapNew => 2,
                _ => 0,
            };
            for _ in 0..allocs {
                // WeakMap::insert allocates while the map's GcRefCell is mutably borrowed: the collector cannot
                // drop expired entries then (try_borrow_mut fails); they go at the next collection
                self.collect_inner(true, matches!(op, Op::MapInsert(..)));
                pre_flags |= self.flags;
            }
        }
        let mut res = None;
        match op {
            Op::Alloc(i) => {
                let serial = self.fin.len();
                self.fin.push(0);
                self.drp.push(0);
                self.nodes[i as usize] = NodeM { alive: true, serial, handles: 1, ..NodeM::default() };
                self.strongs.push(S::Node(i));
            }
            Op::Clone(i) => self.nodes[i as usize].handles += 1,
            Op::Drop(i) => self.nodes[i as usize].handles -= 1,
            Op::Link(i, j) => self.nodes[i as usize].out.push(j),
            Op::Unlink(i, j) => {
                let p = self.nodes[i as usize].out.iter().position(|&x| x == j).unwrap();
                self.nodes[i as usize].out.remove(p);
            }
            Op::Follow(_, j) => {
                if !self.reach().node[j as usize] {
                    self.flags |= feat::REVIVE;
                }
                self.nodes[j as usize].handles += 1;
            }
            Op::HostWeak(j) => {
                let id = self.new_box(BK::Weak, j, NONE, Holder::Host);
                self.hw.push(id);
            }
            Op::DropHostWeak(x) => {
                let id = self.hw.remove(x as usize);
                self.bx_mut(id).holder = Holder::Orphan;
            }
            Op::UpgradeKeep(x) => {
                let t = self.bx(self.hw[x as usize]).k;
                if !self.reach().node[t as usize] {
                    self.flags |= feat::REVIVE;
                }
                self.nodes[t as usize].handles += 1;
            }
            Op::HostEph(k, v) => {
                let id = self.new_box(BK::Eph, k, v, Holder::Host);
                self.he.push(id);
            }
            Op::DropHostEph(x) => {
                let id = self.he.remove(x as usize);
                self.bx_mut(id).holder = Holder::Orphan;
            }
            Op::TakeValue(x) => {
                let t = self.bx(self.he[x as usize]).v;
                if !self.reach().node[t as usize] {
                    self.flags |= feat::REVIVE;
                }
                self.nodes[t as usize].handles += 1;
            }
            Op::NodeWeak(i, j) => {
                let id = self.new_box(BK::Weak, j, NONE, Holder::Node(i));
                self.nodes[i as usize].weak.push(id);
            }
            Op::NodeEph(i, k, v) => {
                let id = self.new_box(BK::Eph, k, v, Holder::Node(i));
                self.nodes[i as usize].eph.push(id);
            }
            Op::MapNew => {
                self.map_alive = true;
                self.map_host = true;
                self.map_tracked = true;
                self.strongs.push(S::Map);
                self.new_box(BK::Anchor, NONE, NONE, Holder::MapBox);
                self.entries.clear();
            }
            Op::MapDropHost => self.map_host = false,
            Op::MapStore(i) => {
                // the single map handle moves from the host into node i
                self.nodes[i as usize].has_map = true;
                self.map_host = false;
            }
            Op::MapTake(i) => {
                self.nodes[i as usize].has_map = false;
                self.map_host = true;
            }
            Op::MapInsert(k, v) => {
                if let Some(old) = self.entry_for(k) {
                    self.entries.retain(|&e| e != old);
                    self.bx_mut(old).holder = Holder::Orphan;
                }
                let id = self.new_box(BK::Eph, k, v, Holder::Map);
                self.entries.push(id);
            }
            Op::MapRemove(k) => {
                let e = self.entry_for(k);
                res = Some(e.is_some());
                if let Some(old) = e {
                    self.entries.retain(|&e| e != old);
                    self.bx_mut(old).holder = Holder::Orphan;
                }
            }
            Op::Collect => self.collect_inner(false, false),
            Op::ArmHost(i) => {
                self.new_box(BK::Weak, i, NONE, Holder::Arm(i));
                self.nodes[i as usize].arm = 1;
            }
            Op::ArmNode(i, j) => {
                self.new_box(BK::Weak, i, NONE, Holder::Arm(i));
                self.nodes[i as usize].arm = 2 + j;
                self.nodes[j as usize].hidden += 1;
            }
        }
        self.flags |= pre_flags;
        if op != Op::Collect {
            let r = self.reach();
            if (0..self.n as usize).any(|i| self.nodes[i].alive && !r.node[i]) {
                self.flags |= feat::GARBAGE;
            }
        }
        res
    }

    /// Least fix-point of reachability. Nodes with a host handle (or a hidden harness handle), host-held
    /// boxes and the host-held map are roots; strong edges, "holder reaches its boxes", "node reaches the
    /// map it stores", "map reaches its entries" propagate; an ephemeron's value is reached if the box
    /// is reached AND its key is reached.
    pub fn reach(&self) -> Reach {
        self.reach_with(true, None)
    }
    fn closure(&self, node: &mut [bool], bx: &mut [bool], map: &mut bool) {
        let n = self.n as usize;
        let mu = mutate();
        loop {
            let mut ch = false;
            for i in 0..n {
                if !node[i] {
                    continue;
                }
                for &j in &self.nodes[i].out {
                    if !node[j as usize] {
                        node[j as usize] = true;
                        ch = true;
                    }
                }
                if self.nodes[i].has_map && self.map_alive && !*map {
                    *map = true;
                    ch = true;
                }
            }
            for (bi, b) in self.boxes.iter().enumerate() {
                if bx[bi] {
                    if mu == 3 && b.kind == BK::Weak && !b.cleared && !node[b.k as usize] {
                        node[b.k as usize] = true;
                        ch = true;
                    }
                    continue;
                }
                let r = match b.holder {
                    Holder::Node(i) => node[i as usize],
                    Holder::Map => *map,
                    _ => false,
                };
                if r {
                    bx[bi] = true;
                    ch = true;
                }
            }
            if !ch {
                break;
            }
        }
    }

    pub fn reach_with(&self, use_eph: bool, seed: Option<&Reach>) -> Reach {
        let n = self.n as usize;
        let mut node = vec![false; n];
        let mut bx = vec![false; self.boxes.len()];
        let mut map = self.map_alive && self.map_host;
        for i in 0..n {
            if self.nodes[i].alive && (self.nodes[i].handles > 0 || self.nodes[i].hidden > 0) {
                node[i] = true;
            }
        }
        for (bi, b) in self.boxes.iter().enumerate() {
            if matches!(b.holder, Holder::Host | Holder::MapBox | Holder::Arm(_)) {
                bx[bi] = true;
            }
        }
        if let Some(s) = seed {
            // everything that was marked by the first pass stays marked (it was reachable when the collection began)
            for i in 0..n {
                node[i] |= s.node[i] && self.nodes[i].alive;
            }
            for bi in 0..bx.len() {
                bx[bi] |= s.bx[bi];
            }
            map |= s.map && self.map_alive;
        }
        let mu = mutate();
        if mu == 2 {
            for i in 0..n {
                node[i] = self.nodes[i].alive;
            }
        }
        if mu == 4 {
            for i in 0..n {
                if self.nodes[i].alive {
                    for &j in &self.nodes[i].out {
                        node[j as usize] = true;
                    }
                }
            }
        }
        self.closure(&mut node, &mut bx, &mut map);
        let mut rounds = 0;
        while use_eph {
            // one pass of the ephemeron rule in `weaks` order; a fired rule is propagated at once
            let mut ch = false;
            for bi in 0..self.boxes.len() {
                let b = &self.boxes[bi];
                if bx[bi] && !b.cleared && b.kind == BK::Eph && (node[b.k as usize] || mu == 5) && !node[b.v as usize] {
                    node[b.v as usize] = true;
                    ch = true;
                    self.closure(&mut node, &mut bx, &mut map);
                }
            }
            if !ch {
                break;
            }
            rounds += 1;
            if mu == 1 {
                break; // mutation: the fix-point is run once
            }
        }
        Reach { node, bx, map, rounds }
    }

    fn collect_inner(&mut self, forced: bool, map_busy: bool) {
        self.flags = 0;
        if self.bytes() == 0 && !forced {
            return; // force_collect does nothing on an empty heap
        }
        self.colls += 1;
        let n = self.n as usize;
        let r1 = self.reach();
        let strong_only = self.reach_with(false, None);
        let mut flags = 0u16;
        if r1.rounds >= 2 {
            flags |= feat::EPH_ROUNDS;
        }
        for i in 0..n {
            if self.nodes[i].alive && r1.node[i] && !strong_only.node[i] {
                flags |= feat::EPH_ONLY;
            }
            if self.nodes[i].alive && r1.node[i] && self.nodes[i].handles == 0 {
                flags |= feat::KEPT;
            }
        }
        // condemned nodes, in `strongs` order
        let condemned: Vec<u8> = self.strongs.iter().filter_map(|s| if let S::Node(i) = s { if !r1.node[*i as usize] { Some(*i) } else { None } } else { None }).collect();
        let map_condemned = self.map_alive && !r1.map;
        // pending boxes: unreached, or key unreached
        let mut pending = vec![false; self.boxes.len()];
        for (bi, b) in self.boxes.iter().enumerate() {
            let key_ok = if b.cleared {
                true
            } else {
                match b.kind {
                    BK::Weak | BK::Eph => r1.node[b.k as usize],
                    BK::Anchor => r1.map,
                }
            };
            pending[bi] = !r1.bx[bi] || !key_ok;
        }
        // finalizers of condemned nodes
        for &i in &condemned {
            let s = self.nodes[i as usize].serial;
            self.fin[s] += 1;
            let arm = self.nodes[i as usize].arm;
            if arm != 0 {
                flags |= feat::RESURRECT;
                self.nodes[i as usize].arm = 0;
                for b in self.boxes.iter_mut() {
                    if b.holder == Holder::Arm(i) {
                        b.holder = Holder::Orphan;
                    }
                }
                if arm == 1 {
                    self.nodes[i as usize].handles += 1;
                } else {
                    let j = (arm - 2) as usize;
                    if !self.nodes[j].out.contains(&i) {
                        self.nodes[j].out.push(i);
                    }
                    self.nodes[j].hidden -= 1;
                }
            }
        }
        // clear pending boxes
        for (bi, b) in self.boxes.iter_mut().enumerate() {
            if pending[bi] && !b.cleared {
                b.cleared = true;
                b.k = NONE;
                b.v = NONE;
                if r1.bx[bi] {
                    flags |= feat::CLEARED;
                    if b.holder == Holder::Map {
                        flags |= feat::MAP_EXPIRE;
                    }
                }
            }
        }
        // re-mark (resurrection); marks accumulate
        let r2 = self.reach_with(true, Some(&r1));
        let keep_node: Vec<bool> = r2.node.clone();
        let keep_box: Vec<bool> = r2.bx.clone();
        let keep_map = r2.map;
        // taint (merge key only)
        for &i in &condemned {
            if keep_node[i as usize] {
                let t = &mut self.nodes[i as usize].taint;
                *t = (*t + 1).min(3);
                let outs = self.nodes[i as usize].out.clone();
                for j in outs {
                    if keep_node[j as usize] && j != i {
                        let t = &mut self.nodes[j as usize].taint;
                        *t = (*t + 1).min(3);
                    }
                }
            }
        }
        // sweep nodes
        let mut freed_any = false;
        for i in 0..n {
            if self.nodes[i].alive && !keep_node[i] {
                freed_any = true;
                // in-edge from a freed node (or itself)?
                for x in 0..n {
                    if self.nodes[x].alive && !keep_node[x] && self.nodes[x].out.contains(&(i as u8)) {
                        flags |= feat::FREED_CYCLE;
                    }
                }
            }
        }
        for i in 0..n {
            if self.nodes[i].alive && !keep_node[i] {
                let s = self.nodes[i].serial;
                self.drp[s] += 1;
                assert!(self.nodes[i].handles == 0 && self.nodes[i].hidden == 0);
                self.nodes[i] = NodeM::default();
            }
        }
        if freed_any {
            flags |= feat::FREED;
        }
        self.strongs.retain(|s| match s {
            S::Node(i) => keep_node[*i as usize],
            S::Map => keep_map,
        });
        // sweep boxes
        let gone: Vec<u32> = self.boxes.iter().enumerate().filter(|(bi, _)| !keep_box[*bi]).map(|(_, b)| b.id).collect();
        let mut bi = 0;
        self.boxes.retain(|_| {
            let k = keep_box[bi];
            bi += 1;
            k
        });
        for nd in self.nodes.iter_mut() {
            nd.weak.retain(|id| !gone.contains(id));
            nd.eph.retain(|id| !gone.contains(id));
        }
        self.entries.retain(|id| !gone.contains(id));
        debug_assert!(self.hw.iter().all(|id| !gone.contains(id)) && self.he.iter().all(|id| !gone.contains(id)));
        if self.map_alive && !keep_map {
            self.map_alive = false;
            self.map_host = false;
            self.entries.clear();
        }
        let _ = map_condemned;
        // weak_maps.retain(...): a live map drops its expired entries, a dead map's box is released
        if self.map_tracked {
            let anchor_cleared = self.boxes.iter().find(|b| b.kind == BK::Anchor && b.holder == Holder::MapBox).map(|b| b.cleared).unwrap_or(true);
            if anchor_cleared {
                self.map_tracked = false;
                for b in self.boxes.iter_mut() {
                    if b.kind == BK::Anchor && b.holder == Holder::MapBox {
                        b.holder = Holder::Orphan;
                        b.lag = true;
                        flags |= feat::MAP_LAG;
                    }
                }
            } else if !map_busy {
                let expired: Vec<u32> = self.entries.iter().copied().filter(|&e| self.bx(e).cleared).collect();
                for e in expired {
                    self.entries.retain(|&x| x != e);
                    let b = self.bx_mut(e);
                    b.holder = Holder::Orphan;
                    b.lag = true;
                }
            }
        }
        self.flags = flags;
    }

    /// rank of alive nodes = position in `strongs`
    pub fn ranks(&self) -> Vec<u8> {
        let mut r = vec![NONE; self.n as usize];
        let mut k = 0;
        for s in &self.strongs {
            if let S::Node(i) = s {
                r[*i as usize] = k;
                k += 1;
            }
        }
        r
    }
    /// serial -> rank (for rendering real observations)
    pub fn serial_ranks(&self) -> Vec<u8> {
        let rk = self.ranks();
        let mut v = vec![NONE; self.fin.len()];
        for (i, nd) in self.nodes.iter().enumerate() {
            if nd.alive {
                v[nd.serial] = rk[i];
            }
        }
        v
    }

    /// Canonical encoding of the full model state (node ids replaced by allocation rank).
    pub fn canon(&self) -> Vec<u8> {
        let rk = self.ranks();
        let r = |x: u8| if x == NONE { NONE } else { rk[x as usize] };
        let pos = |id: u32| self.boxes.iter().position(|b| b.id == id).unwrap() as u8;
        let mut o = Vec::with_capacity(96);
        for s in &self.strongs {
            match s {
                S::Node(i) => {
                    let nd = &self.nodes[*i as usize];
                    o.push(0xA0);
                    o.push(nd.handles);
                    o.push(nd.hidden);
                    o.push(if nd.arm >= 2 { 2 + r(nd.arm - 2) } else { nd.arm });
                    o.push(nd.has_map as u8);
                    o.push(nd.taint);
                    o.push(nd.out.len() as u8);
                    o.extend(nd.out.iter().map(|&j| r(j)));
                    o.push(nd.weak.len() as u8);
                    o.extend(nd.weak.iter().map(|&b| pos(b)));
                    o.push(nd.eph.len() as u8);
                    o.extend(nd.eph.iter().map(|&b| pos(b)));
                }
                S::Map => {
                    o.push(0xA1);
                    o.push(self.map_host as u8);
                    let mut e: Vec<u8> = self.entries.iter().map(|&b| pos(b)).collect();
                    e.sort();
                    o.push(e.len() as u8);
                    o.extend(e);
                }
            }
        }
        o.push(0xB0);
        o.push(self.map_tracked as u8);
        for b in &self.boxes {
            o.push(match b.kind {
                BK::Weak => 1,
                BK::Eph => 2,
                BK::Anchor => 3,
            });
            o.push(b.cleared as u8);
            o.push(r(b.k));
            o.push(r(b.v));
            match b.holder {
                Holder::Host => o.push(10),
                Holder::Node(i) => {
                    o.push(11);
                    o.push(r(i));
                }
                Holder::Map => o.push(12),
                Holder::MapBox => o.push(13),
                Holder::Arm(i) => {
                    o.push(14);
                    o.push(r(i));
                }
                Holder::Orphan => o.push(15),
            }
        }
        o.push(0xC0);
        o.extend(self.hw.iter().map(|&b| pos(b)));
        o.push(0xC1);
        o.extend(self.he.iter().map(|&b| pos(b)));
        o
    }

    /// Rendering of everything the host can observe, in allocation-rank names. The real side renders the
    /// same format from the real heap; the two strings must be equal.
    pub fn render(&self) -> String {
        let rk = self.ranks();
        let nm = |x: u8| if x == NONE { "-".to_string() } else { format!("{}", rk[x as usize]) };
        let mut s = String::new();
        // visible nodes: from host-handled nodes over strong edges
        let n = self.n as usize;
        let mut vis = vec![false; n];
        let mut stack: Vec<u8> = (0..self.n).filter(|&i| self.h(i)).collect();
        for &i in &stack {
            vis[i as usize] = true;
        }
        while let Some(x) = stack.pop() {
            for &j in &self.nodes[x as usize].out {
                if !vis[j as usize] {
                    vis[j as usize] = true;
                    stack.push(j);
                }
            }
        }
        let mut order: Vec<u8> = (0..self.n).filter(|&i| vis[i as usize]).collect();
        order.sort_by_key(|&i| rk[i as usize]);
        let handled: Vec<u8> = {
            let mut h: Vec<u8> = (0..self.n).filter(|&i| self.h(i)).collect();
            h.sort_by_key(|&i| rk[i as usize]);
            h
        };
        let map_str = |s: &mut String| {
            s.push('{');
            for &k in &handled {
                if let Some(e) = self.entry_for(k) {
                    let _ = write!(s, "{}>{},", nm(k), nm(self.bx(e).v));
                }
            }
            s.push('}');
        };
        for &i in &order {
            let nd = &self.nodes[i as usize];
            let _ = write!(s, "N{} h{} out[", nm(i), nd.handles);
            for &j in &nd.out {
                let _ = write!(s, "{},", nm(j));
            }
            s.push_str("] w[");
            for &b in &nd.weak {
                let b = self.bx(b);
                let _ = write!(s, "{},", if b.cleared { "-".into() } else { nm(b.k) });
            }
            s.push_str("] e[");
            for &b in &nd.eph {
                let b = self.bx(b);
                if b.cleared {
                    s.push_str("-,");
                } else {
                    let _ = write!(s, "{}>{},", nm(b.k), nm(b.v));
                }
            }
            s.push_str("] m");
            if nd.has_map {
                map_str(&mut s);
            } else {
                s.push('-');
            }
            s.push(';');
        }
        s.push_str("HW[");
        for &b in &self.hw {
            let b = self.bx(b);
            let _ = write!(s, "{},", if b.cleared { "-".into() } else { nm(b.k) });
        }
        s.push_str("] HE[");
        for &b in &self.he {
            let b = self.bx(b);
            if b.cleared {
                s.push_str("-,");
            } else {
                let _ = write!(s, "{}>{},", nm(b.k), nm(b.v));
            }
        }
        s.push_str("] M");
        if self.map_host {
            map_str(&mut s);
        } else {
            s.push('-');
        }
        s
    }
}

pub fn hash2(bytes: &[u8]) -> (u64, u64) {
    // two independent 64-bit FNV-style/xorshift mixes (deterministic, no std RandomState)
    let mut a: u64 = 0xcbf29ce484222325;
    let mut b: u64 = 0x9E3779B97F4A7C15;
    for &x in bytes {
        a ^= x as u64;
        a = a.wrapping_mul(0x100000001b3);
        b = (b ^ (x as u64).wrapping_add(0x632BE59BD9B4E019)).wrapping_mul(0xD6E8FEB86659FD93);
        b ^= b >> 29;
    }
    a ^= a >> 32;
    a = a.wrapping_mul(0xff51afd7ed558ccd);
    a ^= a >> 33;
    b = b.wrapping_mul(0xc4ceb9fe1a85ec53);
    b ^= b >> 31;
    (a, b ^ (bytes.len() as u64).wrapping_mul(0x9E3779B97F4A7C15))
}
