//! Harness-free reproduction of the two C09 findings (resurrection by a finalizer).
//!   cargo run --offline -p vc09 --example c09_confirm -- self     (premature free)
//!   cargo run --offline -p vc09 --example c09_confirm -- child    (ref-count underflow)
use boa_gc::{Finalize, Gc, GcRefCell, Trace, WeakGc, force_collect};
use std::cell::{Cell, RefCell};

thread_local! {
    static SLOT: RefCell<Option<Gc<N>>> = const { RefCell::new(None) };
    static ME: RefCell<Option<WeakGc<N>>> = const { RefCell::new(None) };
    static DROPS: Cell<u32> = const { Cell::new(0) };
}
struct D(&'static str);
impl Drop for D {
    fn drop(&mut self) {
        println!("  payload `{}` dropped", self.0);
        DROPS.with(|d| d.set(d.get() + 1));
    }
}
#[derive(Trace)]
struct N {
    next: GcRefCell<Option<Gc<N>>>,
    #[unsafe_ignore_trace]
    resurrect: bool,
    #[unsafe_ignore_trace]
    d: D,
}
impl Finalize for N {
    fn finalize(&self) {
        println!("  finalizer of `{}`", self.d.0);
        if self.resurrect {
            if let Some(w) = ME.with(|m| m.borrow_mut().take()) {
                let h = w.upgrade();
                println!("  finalizer stores a strong handle in a host slot: upgrade is {}", if h.is_some() { "Some" } else { "None" });
                SLOT.with(|s| *s.borrow_mut() = h);
            }
        }
    }
}
fn node(name: &'static str, resurrect: bool) -> Gc<N> {
    Gc::new(N { next: GcRefCell::new(None), resurrect, d: D(name) })
}
fn main() {
    let mode = std::env::args().nth(1).unwrap_or_default();
    if mode == "self" {
        let a = node("a", true);
        *a.next.borrow_mut() = Some(a.clone()); // a -> a
        ME.with(|m| *m.borrow_mut() = Some(WeakGc::new(&a)));
        drop(a);
        println!("collect:");
        force_collect();
        let held = SLOT.with(|s| s.borrow().is_some());
        println!("host slot holds a Gc handle: {held}; payload drops so far: {} (expected 0: the node is reachable from the slot)", DROPS.with(Cell::get));
        std::process::exit(if held && DROPS.with(Cell::get) > 0 { 1 } else { 0 });
    } else {
        let a = node("a", true);
        let b = node("b", false);
        *a.next.borrow_mut() = Some(b.clone()); // a -> b
        ME.with(|m| *m.borrow_mut() = Some(WeakGc::new(&a)));
        drop(a);
        println!("collect #1 (a is unreachable, its finalizer resurrects it):");
        force_collect();
        println!("drop every handle, collect #2:");
        drop(b);
        SLOT.with(|s| *s.borrow_mut() = None);
        force_collect();
        println!("payload drops: {} (expected 2)", DROPS.with(Cell::get));
    }
}
