//! `vc17` — module-graph configurations on the real engine with a controllable `ModuleLoader`.
//!
//! Job (`kind: "g"`), all fields compact because the check submits millions of configurations:
//!   n      number of modules (names a, b, c, d)
//!   imp    per module: string of dependency names in import order ("bc", "", "a")
//!   kinds  per module: string of edge-kind letters parallel to `imp` (absent = all 'n'):
//!            n `import {vD as iD} from 'D'`      s `import * as nD from 'D'`
//!            x `export * from 'D'`               r `export {vD as X_vD} from 'D'`
//!            b `import 'D'`                      d named import now + a second (namespace) import of
//!                                                  the same specifier after all other declarations
//!   behs   list of behaviour strings, one letter per module: p plain, t throws, w `await 0`,
//!          v `await 0` then throws.  One run (fresh context) per behaviour string.
//!   hist   list of evaluation steps: module name, optionally followed by '!' = do not drain the
//!          job queue after this `evaluate` (only with `pre`)
//!   pre    true = load+link every module named in `hist` first, then do the evaluate calls
//!   api    "steps" (load / link / evaluate) | "lle" (`Module::load_link_evaluate`)
//!   sched  "imm" (loader answers immediately) | "all" (every order of releasing pending loads,
//!          depth-first over the choice tree) | [c0, c1, ...] explicit choice list
//!   cap    maximum number of schedules explored per behaviour (sched = all)
//!   reuse  k > 1: up to k consecutive runs of this job share one context (fresh modules and loader
//!          state each run; a fresh context after a panic); default 1 = fresh context per run
//!   src    true = also return the generated module sources
//!
//! Result: {"r": [<per behaviour>]}; per behaviour for imm / explicit: the compact outcome string
//!   step#step...$final-states$namespaces$sorted-loader-log      with step = line|line~state
//! for "all": {"runs": N, "maxw": W, "outs": [[count, first-choices, outcome], ...], "capped": bool}.
#![allow(missing_docs)]

use boa_engine::{
    Context, JsError, JsNativeError, JsResult, JsValue, Module, NativeFunction, Source,
    builtins::promise::PromiseState,
    job::{JobExecutor, SimpleJobExecutor},
    js_string,
    module::{ModuleLoader, ModuleRequest, Referrer},
    object::builtins::JsPromise,
    property::PropertyKey,
};
use serde_json::{Value, json};
use std::{
    cell::{Cell, RefCell},
    future::Future,
    pin::Pin,
    rc::Rc,
    task::{Context as TaskCx, Poll, Waker},
};

const NAMES: [&str; 4] = ["a", "b", "c", "d"];

thread_local! {
    static LINES: RefCell<Vec<String>> = const { RefCell::new(Vec::new()) };
}
fn nlines() -> usize {
    LINES.with(|l| l.borrow().len())
}
fn take_lines() -> Vec<String> {
    LINES.with(|l| std::mem::take(&mut *l.borrow_mut()))
}
fn print(_: &JsValue, args: &[JsValue], ctx: &mut Context) -> JsResult<JsValue> {
    let s = args
        .first()
        .cloned()
        .unwrap_or_default()
        .to_string(ctx)?
        .to_std_string_escaped();
    LINES.with(|l| l.borrow_mut().push(s));
    Ok(JsValue::undefined())
}

// ------------------------------------------------------------------------------------------------
// module sources
// ------------------------------------------------------------------------------------------------
fn module_source(x: &str, imp: &str, kinds: &str, beh: char) -> String {
    let mut s = String::new();
    let mut tail = String::new();
    let mut reads = String::new();
    for (d, k) in imp.chars().zip(kinds.chars()) {
        match k {
            'n' => {
                s += &format!("import {{v{d} as i{d}}} from '{d}';\n");
                reads += &format!(" + ' {d}=' + rd(() => i{d})");
            }
            's' => {
                s += &format!("import * as n{d} from '{d}';\n");
                reads += &format!(" + ' {d}=' + rd(() => n{d}.v{d})");
            }
            'x' => {
                s += &format!("export * from '{d}';\n");
                reads += &format!(" + ' {d}=-'");
            }
            'r' => {
                s += &format!("export {{v{d} as {x}_v{d}}} from '{d}';\n");
                reads += &format!(" + ' {d}=-'");
            }
            'b' => {
                s += &format!("import '{d}';\n");
                reads += &format!(" + ' {d}=-'");
            }
            'd' => {
                s += &format!("import {{v{d} as i{d}}} from '{d}';\n");
                tail += &format!("import * as n{d} from '{d}';\n");
                reads += &format!(" + ' {d}=' + rd(() => i{d} + '/' + n{d}.v{d})");
            }
            _ => panic!("vc17: bad edge kind {k}"),
        }
    }
    s += &tail;
    s += &format!("export let v{x} = 1;\n");
    s += "const rd = f => { try { return f(); } catch (e) { return e instanceof ReferenceError ? 'TDZ' : 'ERR'; } };\n";
    s += &format!("print('pre:{x}'{reads});\n");
    match beh {
        'p' => s += &format!("v{x} = 2;\nprint('post:{x}'{reads});\n"),
        't' => s += &format!("throw 'E_{x}';\n"),
        'w' => s += &format!("await 0;\nv{x} = 2;\nprint('post:{x}'{reads});\n"),
        'v' => s += &format!("await 0;\nthrow 'E_{x}';\n"),
        _ => panic!("vc17: bad behaviour {beh}"),
    }
    s
}

// ------------------------------------------------------------------------------------------------
// controllable loader
// ------------------------------------------------------------------------------------------------
struct Slot {
    released: bool,
    done: bool,
    waker: Option<Waker>,
}
#[derive(Default)]
struct Ctl {
    modules: RefCell<Vec<(String, Module)>>,
    imm: Cell<bool>,
    log: RefCell<Vec<(String, String)>>,
    slots: RefCell<Vec<Slot>>,
}
impl Ctl {
    fn lookup(&self, spec: &str) -> JsResult<Module> {
        self.modules
            .borrow()
            .iter()
            .find(|(n, _)| n == spec)
            .map(|(_, m)| m.clone())
            .ok_or_else(|| JsNativeError::typ().with_message("no such module").into())
    }
    fn name_of(&self, m: &Module) -> String {
        self.modules
            .borrow()
            .iter()
            .find(|(_, x)| x == m)
            .map_or_else(|| "?".to_string(), |(n, _)| n.clone())
    }
    /// sequence numbers of requests that are still held back
    fn unreleased(&self) -> Vec<usize> {
        self.slots
            .borrow()
            .iter()
            .enumerate()
            .filter(|(_, s)| !s.released)
            .map(|(i, _)| i)
            .collect()
    }
    fn n_done(&self) -> usize {
        self.slots.borrow().iter().filter(|s| s.done).count()
    }
    fn release(&self, seq: usize) {
        let w = {
            let mut slots = self.slots.borrow_mut();
            slots[seq].released = true;
            slots[seq].waker.take()
        };
        // the executor's FutureGroup only re-polls futures that were woken
        if let Some(w) = w {
            w.wake();
        }
    }
}
struct PendingLoad {
    ctl: Rc<Ctl>,
    seq: usize,
    spec: String,
}
impl Future for PendingLoad {
    type Output = JsResult<Module>;
    fn poll(self: Pin<&mut Self>, cx: &mut TaskCx<'_>) -> Poll<Self::Output> {
        let ready = {
            let mut slots = self.ctl.slots.borrow_mut();
            let slot = &mut slots[self.seq];
            if slot.released {
                slot.done = true;
                true
            } else {
                slot.waker = Some(cx.waker().clone());
                false
            }
        };
        if ready { Poll::Ready(self.ctl.lookup(&self.spec)) } else { Poll::Pending }
    }
}
impl ModuleLoader for Ctl {
    fn load_imported_module(
        self: Rc<Self>,
        referrer: Referrer,
        request: ModuleRequest,
        _context: &RefCell<&mut Context>,
    ) -> impl Future<Output = JsResult<Module>> {
        let spec = request.specifier().to_std_string_escaped();
        let from = match &referrer {
            Referrer::Module(m) => self.name_of(m),
            Referrer::Realm(_) => "<realm>".to_string(),
            Referrer::Script(_) => "<script>".to_string(),
        };
        self.log.borrow_mut().push((from, spec.clone()));
        let seq = {
            let mut slots = self.slots.borrow_mut();
            slots.push(Slot { released: self.imm.get(), done: false, waker: None });
            slots.len() - 1
        };
        PendingLoad { ctl: self.clone(), seq, spec }
    }
}

// ------------------------------------------------------------------------------------------------
// schedules
// ------------------------------------------------------------------------------------------------
#[derive(Default)]
struct Sched {
    choices: Vec<usize>,
    pos: usize,
    widths: Vec<usize>,
}
impl Sched {
    fn next(&mut self, width: usize) -> usize {
        let c = self.choices.get(self.pos).copied().unwrap_or(0);
        self.pos += 1;
        self.widths.push(width);
        c.min(width - 1)
    }
}

/// Run the job executor by hand until it reports an empty queue. Whenever nothing changes for three
/// consecutive polls and loads are held back, release the one the schedule chooses.
fn drive(ctx: &mut Context, ctl: &Rc<Ctl>, sched: &mut Sched) -> Result<(), String> {
    let exec = ctx
        .downcast_job_executor::<SimpleJobExecutor>()
        .expect("SimpleJobExecutor");
    let cell = RefCell::new(ctx);
    let fut = exec.run_jobs_async(&cell);
    let mut fut = std::pin::pin!(fut);
    let mut cx = TaskCx::from_waker(Waker::noop());
    let mut idle = 0u32;
    let mut sig = (usize::MAX, 0usize, 0usize, 0usize);
    for _ in 0..200_000u32 {
        if let Poll::Ready(r) = fut.as_mut().poll(&mut cx) {
            return match r {
                Ok(()) => {
                    if ctl.unreleased().is_empty() {
                        Ok(())
                    } else {
                        Err("executor finished with loads still pending".into())
                    }
                }
                Err(e) => Err(format!("run_jobs error: {e}")),
            };
        }
        let pend = ctl.unreleased();
        let now = (ctl.log.borrow().len(), pend.len(), nlines(), ctl.n_done());
        if now == sig {
            idle += 1;
        } else {
            idle = 0;
            sig = now;
        }
        if idle >= 3 && !pend.is_empty() {
            let c = sched.next(pend.len());
            ctl.release(pend[c]);
            idle = 0;
            sig = (usize::MAX, 0, 0, 0);
        }
    }
    Err("job queue never became empty (200000 polls)".into())
}

fn state_of(p: &JsPromise, ctx: &mut Context) -> String {
    match p.state() {
        PromiseState::Pending => "P".into(),
        PromiseState::Fulfilled(v) => {
            if v.is_undefined() {
                "F".into()
            } else {
                format!("F:{}", v.display())
            }
        }
        PromiseState::Rejected(e) => format!(
            "R:{}",
            e.to_string(ctx)
                .map_or_else(|_| "?".into(), |s| s.to_std_string_escaped())
        ),
    }
}
fn err_text(e: JsError, ctx: &mut Context) -> String {
    match e.into_opaque(ctx) {
        Ok(v) => v
            .to_string(ctx)
            .map_or_else(|_| "?".into(), |s| s.to_std_string_escaped()),
        Err(e) => format!("<{e}>"),
    }
}

struct Cfg<'a> {
    n: usize,
    imp: Vec<&'a str>,
    kinds: Vec<String>,
    hist: Vec<(usize, bool)>, // (module index, drain afterwards)
    pre: bool,
    lle: bool,
    /// number of consecutive runs that share one context (1 = fresh context per run)
    reuse: usize,
}

thread_local! {
    /// a context kept for the next run of the same job (`reuse` > 1): (context, loader, uses left)
    static POOL: RefCell<Option<(Context, Rc<Ctl>, usize)>> = const { RefCell::new(None) };
}

/// One execution: fresh (or pooled) context, parse, history of evaluations, observations.
fn run_once(cfg: &Cfg<'_>, beh: &str, imm: bool, sched: &mut Sched) -> String {
    take_lines();
    let t0 = std::time::Instant::now();
    let (mut ctx, ctl, uses_left) = match POOL.with(|p| p.borrow_mut().take()) {
        Some(t) if cfg.reuse > 1 => t,
        _ => {
            let ctl = Rc::new(Ctl::default());
            let mut ctx = Context::builder()
                .module_loader(ctl.clone())
                .build()
                .expect("context");
            vcore::apply_limits(&mut ctx, &vcore::Cfg::default());
            ctx.register_global_builtin_callable(js_string!("print"), 1, NativeFunction::from_fn_ptr(print))
                .expect("register print");
            (ctx, ctl, cfg.reuse)
        }
    };
    ctl.imm.set(imm);
    let t1 = t0.elapsed();
    let behs: Vec<char> = beh.chars().collect();
    for i in 0..cfg.n {
        let src = module_source(NAMES[i], cfg.imp[i], &cfg.kinds[i], behs[i]);
        let m = Module::parse(Source::from_bytes(src.as_bytes()), None, &mut ctx)
            .unwrap_or_else(|e| panic!("vc17: generated module does not parse: {e}\n{src}"));
        ctl.modules.borrow_mut().push((NAMES[i].to_string(), m));
    }
    let t2 = t0.elapsed();
    let module = |i: usize| ctl.modules.borrow()[i].1.clone();
    let mut steps: Vec<String> = Vec::new();
    let mut promises: Vec<Option<JsPromise>> = Vec::new();
    let mut loaded = vec![false; cfg.n];

    // load + link one module; Err(text) is rendered as the step's state
    let load_link = |i: usize, ctx: &mut Context, sched: &mut Sched, loaded: &mut Vec<bool>| -> Result<(), String> {
        let m = module(i);
        let lp = m.load(ctx);
        drive(ctx, &ctl, sched).map_err(|e| format!("!{e}"))?;
        match lp.state() {
            PromiseState::Fulfilled(_) => {}
            _ => return Err(format!("!load:{}", state_of(&lp, ctx))),
        }
        loaded[i] = true;
        m.link(ctx).map_err(|e| format!("!link:{}", err_text(e, ctx)))
    };
    let mut pre_err: Option<String> = None;
    if cfg.pre && !cfg.lle {
        for &(i, _) in &cfg.hist {
            if let Err(e) = load_link(i, &mut ctx, sched, &mut loaded) {
                pre_err = Some(e);
                break;
            }
        }
    }
    for &(i, drain) in &cfg.hist {
        let mut state: Option<String> = pre_err.clone();
        let mut promise = None;
        if state.is_none() {
            if cfg.lle {
                loaded[i] = true;
                promise = Some(module(i).load_link_evaluate(&mut ctx));
            } else {
                let r = if cfg.pre { Ok(()) } else { load_link(i, &mut ctx, sched, &mut loaded) };
                match r {
                    Err(e) => state = Some(e),
                    Ok(()) => match module(i).evaluate(&mut ctx) {
                        Ok(p) => promise = Some(p),
                        Err(e) => state = Some(format!("!evaluate:{}", err_text(e, &mut ctx))),
                    },
                }
            }
            if state.is_none() && drain {
                if let Err(e) = drive(&mut ctx, &ctl, sched) {
                    state = Some(format!("!{e}"));
                }
            }
        }
        let st = match (&state, &promise) {
            (Some(s), _) => s.clone(),
            (None, Some(p)) => state_of(p, &mut ctx),
            (None, None) => "?".into(),
        };
        steps.push(format!("{}~{}", take_lines().join("|"), st));
        promises.push(promise);
    }
    // a final drain for histories whose last step did not drain
    if cfg.hist.last().is_some_and(|&(_, d)| !d) && pre_err.is_none() {
        let r = drive(&mut ctx, &ctl, sched);
        let st = match r {
            Ok(()) => "-".to_string(),
            Err(e) => format!("!{e}"),
        };
        steps.push(format!("{}~{}", take_lines().join("|"), st));
    }
    let t3 = t0.elapsed();
    let fin: Vec<String> = promises
        .iter()
        .map(|p| p.as_ref().map_or_else(|| "-".to_string(), |p| state_of(p, &mut ctx)))
        .collect();
    // reachable (= loaded) modules: closure of the loaded entries over the import lists
    let mut reach = loaded.clone();
    loop {
        let mut ch = false;
        for i in 0..cfg.n {
            if reach[i] {
                for d in cfg.imp[i].chars() {
                    let j = (d as u8 - b'a') as usize;
                    if !reach[j] {
                        reach[j] = true;
                        ch = true;
                    }
                }
            }
        }
        if !ch {
            break;
        }
    }
    let mut ns = Vec::new();
    if pre_err.is_none() && !fin.iter().any(|s| s.starts_with("R:SyntaxError") || s.starts_with("R:TypeError")) {
        for i in 0..cfg.n {
            if !reach[i] {
                continue;
            }
            let o = module(i).namespace(&mut ctx);
            let keys = o.own_property_keys(&mut ctx).unwrap_or_default();
            let mut items = Vec::new();
            for k in keys {
                if let PropertyKey::String(s) = &k {
                    let v = match o.get(k.clone(), &mut ctx) {
                        Ok(v) => v
                            .to_string(&mut ctx)
                            .map_or_else(|_| "?".into(), |s| s.to_std_string_escaped()),
                        Err(e) => {
                            let t = err_text(e, &mut ctx);
                            if t.starts_with("ReferenceError") { "TDZ".into() } else { format!("ERR:{t}") }
                        }
                    };
                    items.push(format!("{}={}", s.to_std_string_escaped(), v));
                }
            }
            ns.push(format!("{}{{{}}}", NAMES[i], items.join(",")));
        }
    }
    let mut log: Vec<String> = ctl
        .log
        .borrow()
        .iter()
        .map(|(a, b)| format!("{a}>{b}"))
        .collect();
    log.sort();
    let late = take_lines();
    let mut out = format!("{}${}${}${}", steps.join("#"), fin.join(","), ns.join(" "), log.join(","));
    if !late.is_empty() {
        out += &format!("$LATE:{}", late.join("|"));
    }
    let t4 = t0.elapsed();
    if uses_left > 1 {
        ctl.modules.borrow_mut().clear();
        ctl.log.borrow_mut().clear();
        ctl.slots.borrow_mut().clear();
        POOL.with(|p| *p.borrow_mut() = Some((ctx, ctl, uses_left - 1)));
    } else {
        drop(ctx);
    }
    if std::env::var_os("VC17_TIME").is_some() {
        eprintln!("ctx {:?} parse {:?} hist {:?} obs {:?} drop {:?}", t1, t2 - t1, t3 - t2, t4 - t3, t0.elapsed() - t4);
    }
    out
}

fn run_caught(cfg: &Cfg<'_>, beh: &str, imm: bool, sched: &mut Sched, poisoned: &mut bool) -> String {
    let r = std::panic::catch_unwind(std::panic::AssertUnwindSafe(|| run_once(cfg, beh, imm, sched)));
    match r {
        Ok(s) => s,
        Err(_) => {
            *poisoned = true;
            let lines = take_lines();
            format!("RustPanic {} @after:{}", vcore::take_last_panic(), lines.join("|"))
        }
    }
}

fn job_g(job: &Value) -> Value {
    let n = job["n"].as_u64().expect("n") as usize;
    let imp: Vec<&str> = job["imp"]
        .as_array()
        .expect("imp")
        .iter()
        .map(|v| v.as_str().expect("imp str"))
        .collect();
    let kinds: Vec<String> = match job.get("kinds").and_then(Value::as_array) {
        Some(a) => a.iter().map(|v| v.as_str().expect("kinds str").to_string()).collect(),
        None => imp.iter().map(|s| "n".repeat(s.len())).collect(),
    };
    let hist: Vec<(usize, bool)> = job["hist"]
        .as_array()
        .expect("hist")
        .iter()
        .map(|v| {
            let s = v.as_str().expect("hist str");
            let i = (s.as_bytes()[0] - b'a') as usize;
            (i, !s.ends_with('!'))
        })
        .collect();
    let cfg = Cfg {
        n,
        imp,
        kinds,
        hist,
        pre: job.get("pre").and_then(Value::as_bool).unwrap_or(false),
        lle: job.get("api").and_then(Value::as_str) == Some("lle"),
        reuse: job.get("reuse").and_then(Value::as_u64).unwrap_or(1) as usize,
    };
    POOL.with(|p| p.borrow_mut().take());
    let cap = job.get("cap").and_then(Value::as_u64).unwrap_or(100_000) as usize;
    let mut poisoned = false;
    let mut out = Vec::new();
    for b in job["behs"].as_array().expect("behs") {
        let beh = b.as_str().expect("beh");
        match &job["sched"] {
            Value::String(s) if s == "all" => {
                let mut choices: Vec<usize> = Vec::new();
                let mut outs: Vec<(usize, Vec<usize>, String)> = Vec::new();
                let mut runs = 0usize;
                let mut maxw = 0usize;
                let mut capped = false;
                loop {
                    let mut sched = Sched { choices: choices.clone(), ..Sched::default() };
                    let res = run_caught(&cfg, beh, false, &mut sched, &mut poisoned);
                    runs += 1;
                    maxw = maxw.max(sched.widths.iter().copied().max().unwrap_or(0));
                    match outs.iter_mut().find(|(_, _, r)| *r == res) {
                        Some(o) => o.0 += 1,
                        None => outs.push((1, choices.clone(), res)),
                    }
                    // next schedule in depth-first order
                    let mut c: Vec<usize> = sched
                        .widths
                        .iter()
                        .enumerate()
                        .map(|(i, w)| choices.get(i).copied().unwrap_or(0).min(w - 1))
                        .collect();
                    let mut advanced = false;
                    while let Some(last) = c.pop() {
                        let i = c.len();
                        if last + 1 < sched.widths[i] {
                            c.push(last + 1);
                            advanced = true;
                            break;
                        }
                    }
                    if !advanced {
                        break;
                    }
                    if runs >= cap {
                        capped = true;
                        break;
                    }
                    choices = c;
                }
                out.push(json!({"runs": runs, "maxw": maxw, "capped": capped,
                    "outs": outs.iter().map(|(k, c, r)| json!([k, c, r])).collect::<Vec<_>>()}));
            }
            Value::Array(a) => {
                let mut sched = Sched {
                    choices: a.iter().map(|v| v.as_u64().expect("choice") as usize).collect(),
                    ..Sched::default()
                };
                let res = run_caught(&cfg, beh, false, &mut sched, &mut poisoned);
                out.push(json!(res));
            }
            _ => {
                let mut sched = Sched::default();
                let res = run_caught(&cfg, beh, true, &mut sched, &mut poisoned);
                out.push(json!(res));
            }
        }
    }
    POOL.with(|p| p.borrow_mut().take());
    let mut v = json!({"r": out});
    if job.get("src").and_then(Value::as_bool).unwrap_or(false) {
        let b0: Vec<char> = job["behs"][0].as_str().unwrap_or("pppp").chars().collect();
        v["src"] = json!(
            (0..cfg.n)
                .map(|i| module_source(NAMES[i], cfg.imp[i], &cfg.kinds[i], b0[i]))
                .collect::<Vec<_>>()
        );
    }
    if poisoned {
        v["poisoned"] = json!(true);
    }
    v
}

fn custom(job: &Value) -> Value {
    match job["kind"].as_str().unwrap_or("") {
        "g" => job_g(job),
        k => panic!("vc17: unknown job kind {k}"),
    }
}

fn main() {
    let args: Vec<String> = std::env::args().skip(1).collect();
    let code = match args.first().map(String::as_str) {
        Some("batch") => vcore::worker::batch_main(&args[1..], Some(custom)),
        Some("one") => {
            // vc17 one '<job json>'
            vcore::install_panic_hook();
            let job: Value = serde_json::from_str(&args[1]).expect("job");
            println!("{}", serde_json::to_string_pretty(&custom(&job)).unwrap());
            0
        }
        _ => {
            eprintln!("usage: vc17 batch <in> <out> [skip] | one '<job>'");
            2
        }
    };
    std::process::exit(code);
}
