//! `vc16` — runner of the C16 check (promise job order is independent of the host's schedule).
//!
//! The generic `vrun` jobs plus one custom job kind:
//!
//! `{"kind":"c16","stmts":[S0,S1,...],"cfg":CFG,"scheds":[SCHED,...]}` — the program is the list of
//! top-level statements; EVERY schedule runs it in a fresh context (usual prelude) and the result
//! lists the distinct observed traces once plus, per schedule, the index of its trace and the poll
//! counts: `{"traces":[T,...],"runs":[[trace_index, eval_polls, job_polls, max_eval_polls_of_a_chunk], ...]}`.
//!
//! `SCHED` = `{"b": null | budget, "cuts": [i,...], "drain": MODE, "mid": MODE|"none", "gc": bool}`:
//! * the statements are cut before every index in `cuts` (0 < i < n) into chunks, each chunk is one
//!   `Script`;
//! * a chunk is evaluated with `Script::evaluate` (`b` null) or with
//!   `Script::evaluate_async_with_budget(b)` whose future is polled BY HAND with a no-op waker
//!   (every `Poll::Pending` is one host turn);
//! * after a non-final chunk the job queue is drained with mode `mid` (default = `drain`; `"none"` =
//!   no drain at the boundary), after the final chunk with mode `drain`:
//!   `sync` = `Context::run_jobs`; `async` = ONE `SimpleJobExecutor::run_jobs_async` future polled by
//!   hand to completion; `restart` = a NEW `run_jobs_async` future for every host turn (polled once,
//!   then dropped) until a future is ready at its first poll; `mixed:K` = one future polled at most
//!   K times, dropped, then `Context::run_jobs`;
//! * `gc` = a forced collection in every host turn (between polls);
//! * at the very end `Context::run_jobs` is called once more; lines it produces are reported as
//!   `late` (a correct executor has nothing left to do).
//!
//! A trace `T` = `{"steps":[{"lines":[..],"completion":C,"jobs":null|error completion}, ...],"late":[..]}`.
#![allow(missing_docs)]
use boa_engine::{
    Context, JsResult, JsValue, Script, Source,
    job::{JobExecutor, SimpleJobExecutor},
};
use serde_json::{Value, json};
use std::{
    cell::RefCell,
    future::Future,
    pin::Pin,
    task::{Context as TaskCx, Poll, Waker},
};

const MAX_POLLS: u64 = 20_000_000;

#[derive(Clone, Copy, PartialEq, Debug)]
enum Drain {
    None,
    Sync,
    Async,
    Restart,
    Mixed(u64),
}
fn drain_of(s: &str) -> Drain {
    match s {
        "none" => Drain::None,
        "sync" => Drain::Sync,
        "async" => Drain::Async,
        "restart" => Drain::Restart,
        m => Drain::Mixed(
            m.strip_prefix("mixed:")
                .and_then(|k| k.parse().ok())
                .unwrap_or_else(|| panic!("bad drain mode {m}")),
        ),
    }
}

fn poll_once<F: Future>(f: Pin<&mut F>) -> Poll<F::Output> {
    let mut cx = TaskCx::from_waker(Waker::noop());
    f.poll(&mut cx)
}

/// Poll `f` up to `max` times; `turn` runs between two polls (a host turn).
fn poll_upto<F: Future>(mut f: Pin<&mut F>, max: u64, mut turn: impl FnMut()) -> (Option<F::Output>, u64) {
    let mut n = 0;
    while n < max {
        n += 1;
        if let Poll::Ready(v) = poll_once(f.as_mut()) {
            return (Some(v), n);
        }
        turn();
    }
    (None, n)
}

/// Evaluate one chunk; returns (completion, polls).
fn eval_chunk(ctx: &mut Context, src: &str, budget: Option<u32>, gc: bool) -> (String, u64) {
    let script = match Script::parse(Source::from_bytes(src.as_bytes()), None, ctx) {
        Ok(s) => s,
        Err(_) => return ("EarlySyntaxError".into(), 0),
    };
    let (r, polls): (JsResult<JsValue>, u64) = match budget {
        None => (script.evaluate(ctx), 0),
        Some(b) => {
            let fut = script.evaluate_async_with_budget(ctx, b);
            let mut fut = std::pin::pin!(fut);
            let (r, n) = poll_upto(fut.as_mut(), MAX_POLLS, || {
                if gc {
                    boa_gc::force_collect();
                }
            });
            match r {
                Some(r) => (r, n),
                None => return ("Hang polls".into(), n),
            }
        }
    };
    (vcore::completion_of(ctx, r), polls)
}

/// Drain the job queue; returns (error completion or null, polls).
fn drain(ctx: &mut Context, mode: Drain, gc: bool) -> (Value, u64) {
    let mut polls = 0u64;
    let mut result: JsResult<()> = Ok(());
    let turn = || {
        if gc {
            boa_gc::force_collect();
        }
    };
    match mode {
        Drain::None => {}
        Drain::Sync => result = ctx.run_jobs(),
        Drain::Async | Drain::Mixed(_) => {
            let exec = ctx
                .downcast_job_executor::<SimpleJobExecutor>()
                .expect("SimpleJobExecutor");
            let max = if let Drain::Mixed(k) = mode { k } else { MAX_POLLS };
            let done = {
                let cell = RefCell::new(&mut *ctx);
                let fut = exec.run_jobs_async(&cell);
                let mut fut = std::pin::pin!(fut);
                let (r, n) = poll_upto(fut.as_mut(), max, turn);
                polls = n;
                r
            };
            match done {
                Some(r) => result = r,
                None if matches!(mode, Drain::Mixed(_)) => result = ctx.run_jobs(),
                None => return (Value::String("Hang job polls".into()), polls),
            }
        }
        Drain::Restart => loop {
            let exec = ctx
                .downcast_job_executor::<SimpleJobExecutor>()
                .expect("SimpleJobExecutor");
            let cell = RefCell::new(&mut *ctx);
            let fut = exec.run_jobs_async(&cell);
            let mut fut = std::pin::pin!(fut);
            polls += 1;
            if let Poll::Ready(r) = poll_once(fut.as_mut()) {
                result = r;
                break;
            }
            turn();
            if polls >= MAX_POLLS {
                return (Value::String("Hang job polls".into()), polls);
            }
        },
    }
    match result {
        Ok(()) => (Value::Null, polls),
        Err(e) => (Value::String(vcore::completion_of_err(ctx, e)), polls),
    }
}

fn run_sched(stmts: &[String], cfg: &vcore::Cfg, sched: &Value) -> (Value, [u64; 3]) {
    let budget = sched.get("b").and_then(Value::as_u64).map(|b| u32::try_from(b).expect("budget"));
    let mut cuts: Vec<usize> = sched
        .get("cuts")
        .and_then(Value::as_array)
        .map(|a| a.iter().map(|c| c.as_u64().expect("cut") as usize).collect())
        .unwrap_or_default();
    cuts.sort_unstable();
    let last = drain_of(sched.get("drain").and_then(Value::as_str).unwrap_or("sync"));
    let mid = sched.get("mid").and_then(Value::as_str).map_or(last, drain_of);
    let gc = sched.get("gc").and_then(Value::as_bool).unwrap_or(false);
    let mut bounds = vec![0usize];
    for c in cuts {
        assert!(c > *bounds.last().unwrap() && c < stmts.len(), "bad cut {c}");
        bounds.push(c);
    }
    bounds.push(stmts.len());

    let mut ctx = vcore::make_context(cfg);
    let mut steps = Vec::new();
    let mut counts = [0u64; 3];
    let nchunks = bounds.len() - 1;
    for k in 0..nchunks {
        let src = stmts[bounds[k]..bounds[k + 1]].join("\n");
        vcore::take_lines();
        let (completion, polls) = eval_chunk(&mut ctx, &src, budget, gc);
        counts[0] += polls;
        counts[2] = counts[2].max(polls);
        let (jobs, jpolls) = drain(&mut ctx, if k + 1 == nchunks { last } else { mid }, gc);
        counts[1] += jpolls;
        steps.push(json!({"lines": vcore::take_lines(), "completion": completion, "jobs": jobs}));
    }
    // a drained queue stays drained
    let again = ctx.run_jobs();
    let mut late = vcore::take_lines();
    if let Err(e) = again {
        late.push(format!("<run_jobs again: {}>", vcore::completion_of_err(&mut ctx, e)));
    }
    let d = boa_engine::verif::vm_depths(&ctx);
    if d.frames != 1 || d.pending_exception || d.host_call_depth != 0 {
        late.push(format!("<vm not idle: frames={} pending={} host_depth={}>", d.frames, d.pending_exception, d.host_call_depth));
    }
    drop(ctx);
    (json!({"steps": steps, "late": late}), counts)
}

fn custom(job: &Value) -> Value {
    let kind = job["kind"].as_str().unwrap_or("");
    assert!(kind == "c16", "unknown job kind {kind}");
    let cfg = vcore::Cfg::from_json(job.get("cfg").unwrap_or(&Value::Null));
    let stmts: Vec<String> = job["stmts"]
        .as_array()
        .expect("stmts")
        .iter()
        .map(|s| s.as_str().expect("statement").to_string())
        .collect();
    let scheds = job["scheds"].as_array().expect("scheds");
    let mut traces: Vec<Value> = Vec::new();
    let mut keys: Vec<String> = Vec::new();
    let mut runs = Vec::new();
    let mut poisoned = false;
    for s in scheds {
        let r = std::panic::catch_unwind(std::panic::AssertUnwindSafe(|| run_sched(&stmts, &cfg, s)));
        let (t, counts) = match r {
            Ok(x) => x,
            Err(_) => {
                poisoned = true;
                vcore::set_mode("");
                (
                    json!({"steps": [{"lines": vcore::take_lines(), "completion": format!("RustPanic {}", vcore::take_last_panic()), "jobs": null}], "late": []}),
                    [0, 0, 0],
                )
            }
        };
        let key = t.to_string();
        let idx = match keys.iter().position(|k| *k == key) {
            Some(i) => i,
            None => {
                keys.push(key);
                traces.push(t);
                keys.len() - 1
            }
        };
        runs.push(json!([idx, counts[0], counts[1], counts[2]]));
        if poisoned {
            break;
        }
    }
    let mut v = json!({"traces": traces, "runs": runs});
    if poisoned {
        v["poisoned"] = json!(true);
    }
    v
}

fn main() {
    let args: Vec<String> = std::env::args().skip(1).collect();
    let code = match args.first().map(String::as_str) {
        Some("batch") => vcore::worker::batch_main(&args[1..], Some(custom)),
        Some("one") => {
            // vc16 one < job.json   (one job object on stdin; prints the result)
            vcore::install_panic_hook();
            let mut src = String::new();
            std::io::Read::read_to_string(&mut std::io::stdin(), &mut src).expect("stdin");
            let job: Value = serde_json::from_str(&src).expect("job json");
            let v = vcore::worker::run_job(&job, Some(custom));
            println!("{}", serde_json::to_string_pretty(&v).unwrap());
            0
        }
        _ => {
            eprintln!("usage: vc16 batch <in> <out> [skip] | one < job.json");
            2
        }
    };
    std::process::exit(code);
}
