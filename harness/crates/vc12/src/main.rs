//! C12: exhaustive round trips of values through `JsValue` (NaN-boxed by default, enum with `--features enum`).
//!
//! `vc12 ints <lo> <hi>`      every i32 in [lo, hi)  (hi as i64, exclusive)
//! `vc12 doubles <tier>`      the structured set of f64 bit patterns
//! `vc12 others`              booleans, null, undefined and one live string / symbol / bigint / object
//! Prints one JSON line: {"n":..,"failures":[..],"digest":..}. The digest folds every observation, so the two
//! builds must print the same digest for the same command.
#![allow(missing_docs)]
use boa_engine::{Context, JsBigInt, JsObject, JsString, JsSymbol, JsValue, JsVariant, js_string};
use serde_json::json;

struct Acc {
    n: u64,
    digest: u64,
    failures: Vec<String>,
}
impl Acc {
    fn fold(&mut self, x: u64) {
        self.digest = (self.digest ^ x).wrapping_mul(0x0000_0100_0000_01B3).rotate_left(17);
    }
    fn fail(&mut self, what: String) {
        if self.failures.len() < 50 {
            self.failures.push(what);
        }
        self.n_fail();
    }
    fn n_fail(&mut self) {}
}

/// number of `is_*` type predicates that hold (must be exactly one of the exclusive family)
fn type_flags(v: &JsValue) -> [bool; 8] {
    [
        v.is_undefined(),
        v.is_null(),
        v.is_boolean(),
        v.is_number(),
        v.is_string(),
        v.is_symbol(),
        v.is_bigint(),
        v.is_object(),
    ]
}

fn check_number(acc: &mut Acc, bits_or_int: String, v: &JsValue, expect: f64, ctx: &mut Context) {
    acc.n += 1;
    let flags = type_flags(v);
    if flags != [false, false, false, true, false, false, false, false] {
        acc.fail(format!("{bits_or_int}: type predicates {flags:?}"));
    }
    let got = match v.variant() {
        JsVariant::Integer32(i) => f64::from(i),
        JsVariant::Float64(f) => f,
        other => {
            acc.fail(format!("{bits_or_int}: variant {other:?}"));
            return;
        }
    };
    let same = if expect.is_nan() { got.is_nan() } else { got.to_bits() == expect.to_bits() };
    if !same {
        acc.fail(format!("{bits_or_int}: payload {got:?} ({:#x}) expected {expect:?}", got.to_bits()));
    }
    match v.as_number() {
        Some(n) if (n.is_nan() && expect.is_nan()) || n.to_bits() == expect.to_bits() => {}
        other => acc.fail(format!("{bits_or_int}: as_number {other:?}")),
    }
    let c = v.clone();
    if type_flags(&c) != flags {
        acc.fail(format!("{bits_or_int}: clone changes type"));
    }
    // strict equality: NaN != NaN, everything else equals itself; same_value: always
    let seq = v.strict_equals(&c);
    if seq == expect.is_nan() {
        acc.fail(format!("{bits_or_int}: strict_equals(self) = {seq}"));
    }
    if !JsValue::same_value(v, &c) {
        acc.fail(format!("{bits_or_int}: same_value(self) false"));
    }
    if !JsValue::same_value(v, &JsValue::new(expect)) {
        acc.fail(format!("{bits_or_int}: same_value(rebuilt) false"));
    }
    match v.to_number(ctx) {
        Ok(n) if (n.is_nan() && expect.is_nan()) || n.to_bits() == expect.to_bits() => {}
        other => acc.fail(format!("{bits_or_int}: to_number {other:?}")),
    }
    if v.is_object() || v.as_object().is_some() || v.as_string().is_some() || v.as_boolean().is_some() || v.as_symbol().is_some() || v.as_bigint().is_some() {
        acc.fail(format!("{bits_or_int}: reads back as another type"));
    }
    // observation folded into the digest: canonical payload + display text length
    let canon = if got.is_nan() { 0x7ff8_0000_0000_0000 } else { got.to_bits() };
    acc.fold(canon);
    acc.fold(v.display().to_string().len() as u64);
    acc.fold(u64::from(v.to_boolean()));
    acc.fold(match v.as_i32() {
        Some(i) => i as u32 as u64,
        None => 0xFFFF_FFFF_FFFF,
    });
}

fn doubles(tier: &str) -> Vec<u64> {
    let exps: &[u64] = &[0, 1, 2, 0x3FE, 0x3FF, 0x400, 0x41D, 0x41E, 0x433, 0x434, 0x7FE, 0x7FF];
    let mut rems: Vec<u64> = vec![0, 1, 2, 0xFFFF_FFFF, 0x1_0000_0000, 0x7FFF_FFFF_FFFF, 0xFFFF_FFFF_FFFF];
    for b in 0..48 {
        rems.push(1u64 << b);
        if tier == "thorough" {
            rems.push((1u64 << b) | 1);
            rems.push(0xFFFF_FFFF_FFFF ^ (1u64 << b));
        }
    }
    // pointer-shaped payloads: 16-byte aligned 47-bit numbers in the ranges Linux hands out for heap and mmap
    for base in [0x5555_5555_0000u64, 0x5600_0000_0000, 0x7f00_0000_0000, 0x7fff_ffff_0000, 0x0000_0040_0000, 0x7ffd_0000_0000] {
        for off in [0u64, 0x10, 0x20, 0x1000, 0xfff0, 0x12340] {
            rems.push((base + off) & 0xFFFF_FFFF_FFF0);
        }
    }
    let mut out = Vec::new();
    for sign in 0..2u64 {
        for &e in exps {
            for nib in 0..16u64 {
                for &r in &rems {
                    out.push((sign << 63) | (e << 52) | (nib << 48) | (r & 0xFFFF_FFFF_FFFF));
                }
            }
        }
    }
    // every exponent with a few mantissas (thorough: all 2048 exponents)
    let step = if tier == "thorough" { 1 } else { 16 };
    for e in (0..2048u64).step_by(step) {
        for m in [0u64, 1, 0x8_0000_0000_0000, 0xF_FFFF_FFFF_FFFF, 0x4_0000_0000_0001] {
            out.push((e << 52) | m);
            out.push((1 << 63) | (e << 52) | m);
        }
    }
    out.sort_unstable();
    out.dedup();
    out
}

fn main() {
    let args: Vec<String> = std::env::args().skip(1).collect();
    let mut ctx = Context::default();
    let mut acc = Acc { n: 0, digest: 0xcbf2_9ce4_8422_2325, failures: vec![] };
    match args.first().map(String::as_str) {
        Some("ints") => {
            let lo: i64 = args[1].parse().unwrap();
            let hi: i64 = args[2].parse().unwrap();
            let stride: usize = args.get(3).map_or(1, |s| s.parse().unwrap());
            for i in (lo..hi).step_by(stride) {
                let i = i as i32;
                let v = JsValue::new(i);
                if v.as_i32() != Some(i) {
                    acc.fail(format!("{i}: as_i32 {:?}", v.as_i32()));
                }
                if !matches!(v.variant(), JsVariant::Integer32(x) if x == i) {
                    acc.fail(format!("{i}: variant {:?}", v.variant()));
                }
                check_number(&mut acc, i.to_string(), &v, f64::from(i), &mut ctx);
                // the same integer as a double must compare equal and, if converted, keep the value
                let d = JsValue::new(f64::from(i));
                if !d.strict_equals(&v) {
                    acc.fail(format!("{i}: double form is not strictly equal"));
                }
            }
        }
        Some("doubles") => {
            for bits in doubles(&args[1]) {
                let f = f64::from_bits(bits);
                let v = JsValue::new(f);
                check_number(&mut acc, format!("{bits:#018x}"), &v, f, &mut ctx);
                let r = JsValue::rational(f);
                check_number(&mut acc, format!("rational {bits:#018x}"), &r, f, &mut ctx);
            }
        }
        Some("others") => {
            let s = js_string!("héllo");
            let sym = JsSymbol::new(Some(js_string!("d"))).unwrap();
            let big = JsBigInt::from(12345678901234567890u128);
            let obj = JsObject::with_null_proto();
            let vals: Vec<(&str, JsValue, usize)> = vec![
                ("undefined", JsValue::undefined(), 0),
                ("null", JsValue::null(), 1),
                ("true", JsValue::new(true), 2),
                ("false", JsValue::new(false), 2),
                ("string", JsValue::new(s.clone()), 4),
                ("symbol", JsValue::new(sym.clone()), 5),
                ("bigint", JsValue::new(big.clone()), 6),
                ("object", JsValue::new(obj.clone()), 7),
                ("empty string", JsValue::new(JsString::default()), 4),
            ];
            for (name, v, idx) in &vals {
                acc.n += 1;
                let flags = type_flags(v);
                for (k, f) in flags.iter().enumerate() {
                    if *f != (k == *idx) {
                        acc.fail(format!("{name}: predicate {k} is {f}"));
                    }
                }
                let c = v.clone();
                if !JsValue::same_value(v, &c) || !v.strict_equals(&c) {
                    acc.fail(format!("{name}: clone not identical"));
                }
                acc.fold(*idx as u64);
                acc.fold(u64::from(v.to_boolean()));
                acc.fold(v.type_of().len() as u64);
            }
            if vals[2].1.as_boolean() != Some(true) || vals[3].1.as_boolean() != Some(false) {
                acc.fail("boolean payload".into());
            }
            if vals[4].1.as_string() != Some(s) {
                acc.fail("string payload".into());
            }
            if vals[5].1.as_symbol() != Some(sym) {
                acc.fail("symbol payload".into());
            }
            if vals[6].1.as_bigint() != Some(big) {
                acc.fail("bigint payload".into());
            }
            if !vals[7].1.as_object().is_some_and(|o| JsObject::equals(&o, &obj)) {
                acc.fail("object payload".into());
            }
            // every pair of distinct values is distinguishable
            for (i, (na, a, _)) in vals.iter().enumerate() {
                for (j, (nb, b, _)) in vals.iter().enumerate() {
                    acc.n += 1;
                    if (i == j) != JsValue::same_value(a, b) {
                        acc.fail(format!("same_value({na},{nb})"));
                    }
                }
            }
            // heap values survive a collection while held in a JsValue only
            let held = JsValue::new(JsObject::with_null_proto());
            boa_gc::force_collect();
            if !held.is_object() {
                acc.fail("object lost after collection".into());
            }
        }
        _ => {
            eprintln!("usage: vc12 ints <lo> <hi> [stride] | doubles <tier> | others");
            std::process::exit(2);
        }
    }
    println!("{}", json!({"n": acc.n, "failures": acc.failures, "digest": format!("{:016x}", acc.digest), "size_of_jsvalue": std::mem::size_of::<JsValue>()}));
}
