//! Common harness code: running one program on the real engine under a configuration and
//! rendering its observable trace `(lines, completion)`.
#![allow(clippy::missing_panics_doc, clippy::must_use_candidate, missing_docs)]

use boa_engine::{
    Context, JsError, JsResult, JsValue, NativeFunction, Script, Source, js_string,
    optimizer::OptimizerOptions,
};
use serde_json::{Value, json};
use std::cell::RefCell;

pub mod worker;

pub const PRELUDE: &str = include_str!("../../../../oracle/prelude.js");

thread_local! {
    static OUT: RefCell<Vec<String>> = const { RefCell::new(Vec::new()) };
    static LAST_PANIC: RefCell<String> = const { RefCell::new(String::new()) };
}

/// Install a panic hook that records the message instead of printing it.
pub fn install_panic_hook() {
    std::panic::set_hook(Box::new(|info| {
        let loc = info
            .location()
            .map(|l| format!("{}:{}", l.file().rsplit("/core/").next().unwrap_or(""), l.line()))
            .unwrap_or_default();
        let msg = if let Some(s) = info.payload().downcast_ref::<&str>() {
            (*s).to_string()
        } else if let Some(s) = info.payload().downcast_ref::<String>() {
            s.clone()
        } else {
            "?".to_string()
        };
        LAST_PANIC.with(|p| *p.borrow_mut() = format!("{loc} {msg}"));
    }));
}
pub fn take_last_panic() -> String {
    LAST_PANIC.with(|p| std::mem::take(&mut *p.borrow_mut()))
}

fn emit(_: &JsValue, args: &[JsValue], ctx: &mut Context) -> JsResult<JsValue> {
    let s = args
        .first()
        .cloned()
        .unwrap_or_default()
        .to_string(ctx)?
        .to_std_string_escaped();
    OUT.with(|o| o.borrow_mut().push(s));
    Ok(JsValue::undefined())
}
thread_local! {
    static TICKS: std::cell::Cell<u64> = const { std::cell::Cell::new(0) };
    static FUEL: std::cell::Cell<u64> = const { std::cell::Cell::new(1_000_000) };
    static MAX_DEPTH: std::cell::Cell<u64> = const { std::cell::Cell::new(0) };
}
/// `__tick()`: counts host-visible steps; past the fuel bound it returns an *uncatchable* engine
/// panic error `VERIF_FUEL` (backstop for programs whose termination is the subject).
fn tick(_: &JsValue, _: &[JsValue], _: &mut Context) -> JsResult<JsValue> {
    let n = TICKS.with(|t| {
        t.set(t.get() + 1);
        t.get()
    });
    if n > FUEL.with(std::cell::Cell::get) {
        return Err(boa_engine::error::PanicError::new("VERIF_FUEL").into());
    }
    Ok(JsValue::from(n as f64))
}
/// `__depth()`: current number of VM frames; the maximum seen is reported in the extras.
fn depth(_: &JsValue, _: &[JsValue], ctx: &mut Context) -> JsResult<JsValue> {
    let d = boa_engine::verif::vm_depths(ctx).frames as u64;
    MAX_DEPTH.with(|m| m.set(m.get().max(d)));
    Ok(JsValue::from(d as f64))
}
/// `__storage(o)`: storage form of the indexed properties of `o`.
fn storage(_: &JsValue, args: &[JsValue], _: &mut Context) -> JsResult<JsValue> {
    Ok(match args.first().and_then(JsValue::as_object) {
        Some(o) => JsValue::from(js_string!(boa_engine::verif::indexed_storage_kind(&o))),
        None => JsValue::undefined(),
    })
}
/// `__gc()`: force a full collection now.
fn gc_now(_: &JsValue, _: &[JsValue], _: &mut Context) -> JsResult<JsValue> {
    boa_gc::force_collect();
    Ok(JsValue::undefined())
}
pub fn take_lines() -> Vec<String> {
    OUT.with(|o| std::mem::take(&mut *o.borrow_mut()))
}
pub fn push_line(s: String) {
    OUT.with(|o| o.borrow_mut().push(s));
}

/// Compile-time / run-time switches, as mode letters:
/// E force every binding into an environment, C no const cache, H no loop hoist,
/// F no fused compare-and-branch, I inline caches off.
pub fn set_mode(mode: &str) {
    let on = |c: char| mode.contains(c);
    boa_ast::scope::verif::set_force_escape(on('E'));
    boa_engine::verif::NO_CONST_CACHE.with(|c| c.set(on('C')));
    boa_engine::verif::NO_LOOP_HOIST.with(|c| c.set(on('H')));
    boa_engine::verif::NO_FUSED_BRANCH.with(|c| c.set(on('F')));
    boa_engine::verif::NO_INLINE_CACHE.with(|c| c.set(on('I')));
}

#[derive(Debug, Clone, Default)]
pub enum GcSched {
    #[default]
    Off,
    Every(u64),
    At(Vec<u64>),
}

#[derive(Debug, Clone)]
pub struct Cfg {
    pub mode: String,
    /// optimizer option bits (None = engine default)
    pub opt: Option<u32>,
    pub gc: GcSched,
    /// script | bytes | utf16 | main | async:<budget>
    pub entry: String,
    pub loop_limit: Option<u64>,
    pub recursion_limit: Option<usize>,
    pub stack_limit: Option<usize>,
    pub strict: bool,
    pub run_jobs: bool,
    pub prelude: bool,
    pub fuel: u64,
    /// collect at every k-th allocation already while the context and prelude are being created
    pub gc_setup: Option<u64>,
}
impl Default for Cfg {
    fn default() -> Self {
        Self {
            mode: String::new(),
            opt: None,
            gc: GcSched::Off,
            entry: "script".into(),
            loop_limit: Some(100_000),
            recursion_limit: None,
            stack_limit: None,
            strict: false,
            run_jobs: true,
            prelude: true,
            fuel: 1_000_000,
            gc_setup: None,
        }
    }
}
impl Cfg {
    pub fn from_json(v: &Value) -> Self {
        let mut c = Self::default();
        if v.is_null() {
            return c;
        }
        if let Some(s) = v.get("mode").and_then(Value::as_str) {
            c.mode = s.into();
        }
        if let Some(n) = v.get("opt").and_then(Value::as_u64) {
            c.opt = Some(n as u32);
        }
        if let Some(g) = v.get("gc") {
            if let Some(k) = g.get("every").and_then(Value::as_u64) {
                c.gc = GcSched::Every(k);
            } else if let Some(a) = g.get("at").and_then(Value::as_array) {
                c.gc = GcSched::At(a.iter().filter_map(Value::as_u64).collect());
            }
        }
        if let Some(s) = v.get("entry").and_then(Value::as_str) {
            c.entry = s.into();
        }
        if let Some(n) = v.get("loop") {
            c.loop_limit = n.as_u64();
        }
        if let Some(n) = v.get("rec") {
            c.recursion_limit = n.as_u64().map(|n| n as usize);
        }
        if let Some(n) = v.get("stack") {
            c.stack_limit = n.as_u64().map(|n| n as usize);
        }
        if let Some(b) = v.get("strict").and_then(Value::as_bool) {
            c.strict = b;
        }
        if let Some(b) = v.get("jobs").and_then(Value::as_bool) {
            c.run_jobs = b;
        }
        if let Some(b) = v.get("prelude").and_then(Value::as_bool) {
            c.prelude = b;
        }
        if let Some(n) = v.get("fuel").and_then(Value::as_u64) {
            c.fuel = n;
        }
        if let Some(n) = v.get("gc_setup").and_then(Value::as_u64) {
            c.gc_setup = Some(n);
        }
        c
    }
}

pub fn opt_from_bits(bits: u32) -> OptimizerOptions {
    OptimizerOptions::from_bits_truncate(bits as u8 as _)
}

/// Render a value through the prelude's `__show` (captured at prelude time).
pub fn show(ctx: &mut Context, v: &JsValue) -> String {
    let f = SHOW.with(|s| s.borrow().clone());
    let Some(f) = f else { return v.display().to_string() };
    let saved = save_mode();
    set_mode("");
    let r = match f
        .as_callable()
        .expect("__show callable")
        .call(&JsValue::undefined(), std::slice::from_ref(v), ctx)
    {
        Ok(s) => s
            .to_string(ctx)
            .map_or_else(|_| "?".into(), |s| s.to_std_string_escaped()),
        Err(e) => format!("<show failed: {e}>"),
    };
    restore_mode(saved);
    r
}
thread_local! { static SHOW: RefCell<Option<JsValue>> = const { RefCell::new(None) }; }

fn save_mode() -> [bool; 5] {
    [
        boa_ast::scope::verif::force_escape(),
        boa_engine::verif::NO_CONST_CACHE.with(std::cell::Cell::get),
        boa_engine::verif::NO_LOOP_HOIST.with(std::cell::Cell::get),
        boa_engine::verif::NO_FUSED_BRANCH.with(std::cell::Cell::get),
        boa_engine::verif::NO_INLINE_CACHE.with(std::cell::Cell::get),
    ]
}
fn restore_mode(m: [bool; 5]) {
    boa_ast::scope::verif::set_force_escape(m[0]);
    boa_engine::verif::NO_CONST_CACHE.with(|c| c.set(m[1]));
    boa_engine::verif::NO_LOOP_HOIST.with(|c| c.set(m[2]));
    boa_engine::verif::NO_FUSED_BRANCH.with(|c| c.set(m[3]));
    boa_engine::verif::NO_INLINE_CACHE.with(|c| c.set(m[4]));
}

pub fn completion_of_err(ctx: &mut Context, e: JsError) -> String {
    if let Some(en) = e.as_engine() {
        let s = en.to_string();
        if let Some(rest) = s.strip_prefix("RuntimeLimitError: ") {
            let kind = if rest.contains("iteration") {
                "loop"
            } else if rest.contains("recursive") {
                "recursion"
            } else if rest.contains("stack") {
                "stack"
            } else {
                rest
            };
            return format!("Limit {kind}");
        }
        return format!("EnginePanic {s}");
    }
    match e.into_opaque(ctx) {
        Ok(v) => format!("Throw {}", show(ctx, &v)),
        Err(e2) => format!("Throw <into_opaque failed: {e2}>"),
    }
}
pub fn completion_of(ctx: &mut Context, r: JsResult<JsValue>) -> String {
    match r {
        Ok(v) => format!("Value {}", show(ctx, &v)),
        Err(e) => completion_of_err(ctx, e),
    }
}

/// `[strong boxes, ephemeron boxes, weak maps, bytes]` of this thread's GC heap.
pub fn heap_json() -> Value {
    let s = boa_gc::verif::stats();
    json!([s.strongs, s.weaks, s.weak_maps, s.bytes])
}

pub fn depths_json(ctx: &Context) -> Value {
    let d = boa_engine::verif::vm_depths(ctx);
    json!([d.frames, d.stack_len, d.pending_exception, d.host_call_depth, d.env_depth, d.binding_stack_len])
}

/// Build a context the way every check does: limits, `__emit`, prelude.
pub fn make_context(cfg: &Cfg) -> Context {
    set_mode("");
    boa_gc::verif::set_schedule(match cfg.gc_setup {
        Some(k) => boa_gc::verif::Schedule::Every(k),
        None => boa_gc::verif::Schedule::Off,
    });
    let mut ctx = Context::default();
    apply_limits(&mut ctx, cfg);
    FUEL.with(|f| f.set(cfg.fuel));
    install_host(&mut ctx, cfg.prelude, true);
    boa_gc::verif::set_schedule(boa_gc::verif::Schedule::Off);
    take_lines();
    if let Some(bits) = cfg.opt {
        ctx.set_optimizer_options(opt_from_bits(bits));
    }
    if cfg.strict {
        ctx.strict(true);
    }
    ctx
}

/// Register the host functions (and evaluate the prelude) in the CURRENT realm of `ctx`.
pub fn install_host(ctx: &mut Context, prelude: bool, capture_show: bool) {
    ctx.register_global_builtin_callable(js_string!("__emit"), 1, NativeFunction::from_fn_ptr(emit))
        .expect("register __emit");
    ctx.register_global_builtin_callable(js_string!("__tick"), 0, NativeFunction::from_fn_ptr(tick))
        .expect("register __tick");
    ctx.register_global_builtin_callable(js_string!("__depth"), 0, NativeFunction::from_fn_ptr(depth))
        .expect("register __depth");
    ctx.register_global_builtin_callable(js_string!("__storage"), 1, NativeFunction::from_fn_ptr(storage))
        .expect("register __storage");
    ctx.register_global_builtin_callable(js_string!("__gc"), 0, NativeFunction::from_fn_ptr(gc_now))
        .expect("register __gc");
    if prelude {
        let realm = ctx.realm().clone();
        let script = Script::parse(Source::from_bytes(PRELUDE.as_bytes()), Some(realm), ctx).expect("prelude parse");
        script.evaluate(ctx).expect("prelude");
        if capture_show {
            let f = ctx
                .global_object()
                .get(js_string!("__show"), ctx)
                .expect("__show");
            SHOW.with(|s| *s.borrow_mut() = Some(f));
        }
    } else if capture_show {
        SHOW.with(|s| *s.borrow_mut() = None);
    }
}
pub fn apply_limits(ctx: &mut Context, cfg: &Cfg) {
    let l = ctx.runtime_limits_mut();
    l.set_loop_iteration_limit(cfg.loop_limit.unwrap_or(u64::MAX));
    if let Some(r) = cfg.recursion_limit {
        l.set_recursion_limit(r);
    }
    if let Some(s) = cfg.stack_limit {
        l.set_stack_size_limit(s);
    }
}

fn set_gc(s: &GcSched) {
    use boa_gc::verif::Schedule;
    boa_gc::verif::reset_alloc_count();
    boa_gc::verif::set_schedule(match s {
        GcSched::Off => Schedule::Off,
        GcSched::Every(k) => Schedule::Every(*k),
        GcSched::At(v) => Schedule::At(v.clone()),
    });
}

/// Drive a future by hand with a no-op waker; returns the number of polls.
pub fn poll_to_end<F: Future>(fut: F, max_polls: u64) -> Option<(F::Output, u64)> {
    use std::task::{Context as TCx, Poll, Waker};
    let mut fut = std::pin::pin!(fut);
    let waker = Waker::noop();
    let mut cx = TCx::from_waker(waker);
    let mut n = 0;
    loop {
        n += 1;
        if let Poll::Ready(v) = fut.as_mut().poll(&mut cx) {
            return Some((v, n));
        }
        if n >= max_polls {
            return None;
        }
    }
}

/// Evaluate one source text in an existing context under `cfg` (mode, gc, entry). Returns
/// `(lines, completion, extra)`.
pub fn eval_in(ctx: &mut Context, src: &str, cfg: &Cfg) -> (Vec<String>, String, Value) {
    take_lines();
    TICKS.with(|t| t.set(0));
    MAX_DEPTH.with(|t| t.set(0));
    set_mode(&cfg.mode);
    set_gc(&cfg.gc);
    let d0 = depths_json(ctx);
    let mut polls = 0u64;
    let completion = (|| {
        let parse = |ctx: &mut Context| match cfg.entry.as_str() {
            "utf16" => {
                let units: Vec<u16> = src.encode_utf16().collect();
                Script::parse(Source::from_utf16(&units), None, ctx)
            }
            _ => Script::parse(Source::from_bytes(src.as_bytes()), None, ctx),
        };
        let script = match parse(ctx) {
            Ok(s) => s,
            Err(_) => return "EarlySyntaxError".to_string(),
        };
        let r = if let Some(b) = cfg.entry.strip_prefix("async:") {
            let budget: u32 = b.parse().expect("budget");
            match poll_to_end(script.evaluate_async_with_budget(ctx, budget), 50_000_000) {
                Some((r, n)) => {
                    polls = n;
                    r
                }
                None => return "Hang polls".to_string(),
            }
        } else {
            script.evaluate(ctx)
        };
        if cfg.entry == "main" {
            // the program defined `function __main(){...}`; call it from the host
            if let Err(e) = r {
                return completion_of_err(ctx, e);
            }
            let f = match ctx.global_object().get(js_string!("__main"), ctx) {
                Ok(f) => f,
                Err(e) => return completion_of_err(ctx, e),
            };
            let Some(f) = f.as_callable() else {
                return "Throw <no __main>".to_string();
            };
            let r = f.call(&JsValue::undefined(), &[], ctx);
            return completion_of(ctx, r);
        }
        completion_of(ctx, r)
    })();
    let mut jobs = Value::Null;
    if cfg.run_jobs {
        set_mode(&cfg.mode);
        if let Err(e) = ctx.run_jobs() {
            jobs = Value::String(completion_of_err(ctx, e));
        }
    }
    let allocs = boa_gc::verif::alloc_count();
    boa_gc::verif::set_schedule(boa_gc::verif::Schedule::Off);
    set_mode("");
    let d1 = depths_json(ctx);
    let lines = take_lines();
    (
        lines,
        completion,
        json!({"d0": d0, "d1": d1, "allocs": allocs, "jobs": jobs, "polls": polls,
               "ticks": TICKS.with(std::cell::Cell::get), "max_depth": MAX_DEPTH.with(std::cell::Cell::get)}),
    )
}

/// Fresh context + prelude + one program. Panics are caught and reported as a completion.
pub fn run_case(src: &str, cfg: &Cfg) -> Value {
    let r = std::panic::catch_unwind(std::panic::AssertUnwindSafe(|| {
        let heap0 = heap_json();
        let mut ctx = make_context(cfg);
        let (lines, completion, mut extra) = eval_in(&mut ctx, src, cfg);
        SHOW.with(|s| *s.borrow_mut() = None);
        drop(ctx);
        // leak clause of C10: everything the context allocated is reclaimed by ONE collection after the drop
        boa_gc::force_collect();
        let heap1 = heap_json();
        boa_gc::force_collect();
        let heap2 = heap_json();
        extra["heap"] = json!([heap0, heap1, heap2]);
        json!({"lines": lines, "completion": completion, "x": extra})
    }));
    match r {
        Ok(v) => v,
        Err(_) => {
            set_mode("");
            boa_gc::verif::set_schedule(boa_gc::verif::Schedule::Off);
            let lines = take_lines();
            json!({"lines": lines, "completion": format!("RustPanic {}", take_last_panic()), "poisoned": true})
        }
    }
}
