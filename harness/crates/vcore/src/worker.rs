//! Batch worker: `vrun batch <in.jsonl> <out.jsonl> <skip>`.
//!
//! Every input line is one job; exactly one output line is appended per finished job (flushed).
//! * A Rust panic inside the engine is caught, reported as the job's completion, and the process
//!   then exits with code 17 so the driver continues the batch in a fresh process (no state of a
//!   panicked engine is reused).
//! * A job that runs longer than the wall cap makes the watchdog write a `Hang` result and exit
//!   with code 18.
//! * Death by signal (stack overflow, abort, OOM) leaves the output one line short; the driver
//!   attributes `Abort` to that job and continues after it.
use crate::{Cfg, eval_in, make_context, run_case, take_last_panic};
use serde_json::{Value, json};
use std::io::{BufRead, Write};
use std::sync::atomic::{AtomicU64, Ordering};
use std::sync::{Arc, Mutex};

static JOB_STARTED_MS: AtomicU64 = AtomicU64::new(0);
static CURRENT_JOB: AtomicU64 = AtomicU64::new(u64::MAX);

fn now_ms() -> u64 {
    static START: std::sync::OnceLock<std::time::Instant> = std::sync::OnceLock::new();
    START.get_or_init(std::time::Instant::now).elapsed().as_millis() as u64 + 1
}

pub type CustomJob = fn(&Value) -> Value;

/// Run a history of sources on ONE context. `job.hist` = list of either strings or
/// `{"src":..., "cfg":...}` objects (per-entry cfg overrides mode/gc/entry only).
pub fn run_history(job: &Value) -> Value {
    let base = Cfg::from_json(job.get("cfg").unwrap_or(&Value::Null));
    let hist = job["hist"].as_array().expect("hist").clone();
    let mut outs = Vec::new();
    let r = std::panic::catch_unwind(std::panic::AssertUnwindSafe(|| {
        let mut ctx = make_context(&base);
        for h in &hist {
            let (src, cfg) = match h {
                Value::String(s) => (s.clone(), base.clone()),
                o => {
                    let mut c = base.clone();
                    if let Some(over) = o.get("cfg") {
                        let oc = Cfg::from_json(over);
                        if over.get("mode").is_some() {
                            c.mode = oc.mode;
                        }
                        if over.get("gc").is_some() {
                            c.gc = oc.gc;
                        }
                        if over.get("entry").is_some() {
                            c.entry = oc.entry;
                        }
                        if over.get("jobs").is_some() {
                            c.run_jobs = oc.run_jobs;
                        }
                    }
                    (o["src"].as_str().expect("src").to_string(), c)
                }
            };
            let (lines, completion, extra) = eval_in(&mut ctx, &src, &cfg);
            outs.push(json!({"lines": lines, "completion": completion, "x": extra}));
        }
        drop(ctx);
    }));
    match r {
        Ok(()) => json!({"steps": outs}),
        Err(_) => {
            crate::set_mode("");
            outs.push(json!({"lines": crate::take_lines(), "completion": format!("RustPanic {}", take_last_panic())}));
            json!({"steps": outs, "poisoned": true})
        }
    }
}

pub fn run_job(job: &Value, custom: Option<CustomJob>) -> Value {
    if let Some(k) = job.get("kind").and_then(Value::as_str) {
        if k != "case" && k != "hist" && k != "multi" {
            let f = custom.expect("custom job handler");
            let r = std::panic::catch_unwind(|| f(job));
            return match r {
                Ok(v) => v,
                Err(_) => json!({"completion": format!("RustPanic {}", take_last_panic()), "poisoned": true}),
            };
        }
    }
    if job.get("hist").is_some() {
        return run_history(job);
    }
    let src = job["src"].as_str().expect("src");
    if let Some(multi) = job.get("multi").and_then(Value::as_array) {
        let mut poisoned = false;
        let outs: Vec<Value> = multi
            .iter()
            .map(|c| {
                let v = run_case(src, &Cfg::from_json(c));
                poisoned |= v.get("poisoned").is_some();
                v
            })
            .collect();
        let mut v = json!({"multi": outs});
        if poisoned {
            v["poisoned"] = json!(true);
        }
        return v;
    }
    run_case(src, &Cfg::from_json(job.get("cfg").unwrap_or(&Value::Null)))
}

pub fn batch_main(args: &[String], custom: Option<CustomJob>) -> i32 {
    let inp = &args[0];
    let outp = &args[1];
    let skip: usize = args.get(2).map_or(0, |s| s.parse().expect("skip"));
    let cap_ms: u64 = std::env::var("VERIF_CASE_CAP_MS")
        .ok()
        .and_then(|s| s.parse().ok())
        .unwrap_or(20_000);
    crate::install_panic_hook();
    let out = Arc::new(Mutex::new(
        std::fs::OpenOptions::new()
            .create(true)
            .append(true)
            .open(outp)
            .expect("open out"),
    ));
    {
        let out = out.clone();
        std::thread::spawn(move || {
            loop {
                std::thread::sleep(std::time::Duration::from_millis(250));
                let st = JOB_STARTED_MS.load(Ordering::SeqCst);
                if st != 0 && now_ms().saturating_sub(st) > cap_ms {
                    let i = CURRENT_JOB.load(Ordering::SeqCst);
                    let mut o = out.lock().unwrap_or_else(std::sync::PoisonError::into_inner);
                    let _ = writeln!(o, "{}", json!({"i": i, "completion": "Hang", "lines": []}));
                    let _ = o.flush();
                    std::process::exit(18);
                }
            }
        });
    }
    let f = std::io::BufReader::new(std::fs::File::open(inp).expect("open in"));
    for (n, line) in f.lines().enumerate() {
        if n < skip {
            continue;
        }
        let line = line.expect("read");
        if line.is_empty() {
            continue;
        }
        let job: Value = serde_json::from_str(&line).expect("job json");
        let i = job.get("i").and_then(Value::as_u64).unwrap_or(n as u64);
        CURRENT_JOB.store(i, Ordering::SeqCst);
        JOB_STARTED_MS.store(now_ms(), Ordering::SeqCst);
        let mut res = run_job(&job, custom);
        JOB_STARTED_MS.store(0, Ordering::SeqCst);
        res["i"] = json!(i);
        let poisoned = res.get("poisoned").is_some();
        {
            let mut o = out.lock().unwrap_or_else(std::sync::PoisonError::into_inner);
            writeln!(o, "{res}").expect("write");
            o.flush().expect("flush");
        }
        if poisoned {
            return 17;
        }
    }
    0
}
