//! C03: every compiled code block is well-formed on all of its paths.
//!
//! `vc03 learn <programs.jsonl>`  authoring aid: prints, per opcode, the value-stack / binding-stack / iterator-stack deltas the
//!                                real VM was observed to apply (used once to write the effect table in `effects.rs`)
//! `vc03 check <programs.jsonl>`  for every program: run it on the real engine with the step observer, dump every code block
//!                                that was compiled (executed blocks and all their nested function constants), check the
//!                                structural rules R1-R6 by exhaustive exploration of the abstract state graph of each block,
//!                                and check that every step the VM took is a member of the abstract state set of its pc.
#![allow(missing_docs)]
mod analyze;
mod effects;

use boa_engine::{Context, Source, verif::*};
use rustc_hash::{FxHashMap, FxHashSet};
use serde_json::{Value, json};
use std::{cell::RefCell, rc::Rc};

#[derive(Default)]
pub struct Run {
    pub dumps: FxHashMap<u64, CodeBlockDump>,
    pub steps: Vec<StepInfo>,
    pub order: Vec<u64>,
}

fn collect(cb: &boa_engine::vm::CodeBlock, run: &mut Run) {
    let d = dump_codeblock(cb);
    if run.dumps.contains_key(&d.id) {
        return;
    }
    let id = d.id;
    run.order.push(id);
    run.dumps.insert(id, d);
    for child in codeblock_children(cb) {
        collect(&child, run);
    }
}

/// Run one program with the observers on; returns the dumps of all code blocks seen and the (deduplicated) steps.
pub fn observe(src: &str, keep_all_steps: bool) -> (Run, String) {
    let run: Rc<RefCell<Run>> = Rc::default();
    let seen: Rc<RefCell<FxHashSet<(u64, u32, u32, u32, i64, u32)>>> = Rc::default();
    let r2 = run.clone();
    let completion = {
        let cfg = vcore::Cfg { loop_limit: Some(20_000), ..vcore::Cfg::default() };
        let mut ctx: Context = vcore::make_context(&cfg);
        set_step_observer(Some(Box::new(move |s, cb| {
            let mut run = r2.borrow_mut();
            if !run.dumps.contains_key(&s.codeblock_id) {
                collect(cb, &mut run);
            }
            let key = (s.codeblock_id, s.pc, s.env_depth - s.env_fp, s.binding_stack_len, s.stack_above_registers, s.iterators);
            if keep_all_steps || seen.borrow_mut().insert(key) {
                run.steps.push(*s);
            }
        })));
        let r = std::panic::catch_unwind(std::panic::AssertUnwindSafe(|| {
            let r = ctx.eval(Source::from_bytes(src.as_bytes()));
            let c = vcore::completion_of(&mut ctx, r);
            let _ = ctx.run_jobs();
            c
        }));
        set_step_observer(None);
        r.unwrap_or_else(|_| format!("RustPanic {}", vcore::take_last_panic()))
    };
    let run = Rc::try_unwrap(run).map_err(|_| ()).expect("observer dropped").into_inner();
    (run, completion)
}

fn programs(path: &str) -> Vec<String> {
    std::fs::read_to_string(path)
        .expect("read")
        .lines()
        .filter(|l| !l.is_empty())
        .map(|l| serde_json::from_str::<String>(l).expect("json string"))
        .collect()
}

fn main() {
    vcore::install_panic_hook();
    let args: Vec<String> = std::env::args().skip(1).collect();
    match args.first().map(String::as_str) {
        Some("learn") => {
            // (opcode, argument-ish operand) -> set of (d_arg, d_bind, d_iter)
            let mut table: std::collections::BTreeMap<String, std::collections::BTreeSet<(i64, i64, i64)>> = Default::default();
            for src in programs(&args[1]) {
                let (run, _) = observe(&src, true);
                // per frame instance: stack of last step per frame depth
                let mut last: Vec<Option<StepInfo>> = Vec::new();
                for s in &run.steps {
                    let d = s.frames as usize;
                    if last.len() <= d {
                        last.resize(d + 1, None);
                    }
                    last.truncate(d + 1);
                    if let Some(p) = last[d] {
                        if p.codeblock_id == s.codeblock_id {
                            let cb = &run.dumps[&p.codeblock_id];
                            if let Some(ins) = cb.instructions.iter().find(|i| i.pc == p.pc) {
                                let succ = effects::successors(ins);
                                if succ.contains(&s.pc) {
                                    let key = effects::learn_key(ins);
                                    table.entry(key).or_default().insert((
                                        s.stack_above_registers - p.stack_above_registers,
                                        i64::from(s.binding_stack_len) - i64::from(p.binding_stack_len),
                                        i64::from(s.iterators) - i64::from(p.iterators),
                                    ));
                                }
                            }
                        }
                    }
                    last[d] = Some(*s);
                }
            }
            for (k, v) in &table {
                println!("{k}\t{v:?}");
            }
        }
        Some("check") => {
            let mut out = analyze::Totals::default();
            for src in programs(&args[1]) {
                let (run, completion) = observe(&src, false);
                analyze::check_program(&src, &run, &completion, &mut out);
            }
            println!("{}", out.to_json());
        }
        Some("dump") => {
            // authoring aid: decoded instructions and handler table of every code block of one source file
            let src = std::fs::read_to_string(&args[1]).expect("source file");
            let (run, completion) = observe(&src, false);
            println!("completion: {completion}");
            let mut ids: Vec<_> = run.dumps.keys().copied().collect();
            ids.sort_unstable();
            for id in ids {
                let d = &run.dumps[&id];
                println!("== block {} `{}` registers {} flags {:#x}", d.id, d.name, d.register_count, d.flags);
                for h in &d.handlers {
                    println!("   handler [{}, {}) env {}", h.start, h.end, h.environment_count);
                }
                for i in &d.instructions {
                    println!("   {:5} {} {:?}", i.pc, i.opcode, i.operands);
                }
            }
        }
        _ => {
            eprintln!("usage: vc03 learn|check <programs.jsonl> | dump <file.js>");
            std::process::exit(2);
        }
    }
    let _ = json!(null);
    let _: Option<Value> = None;
}
