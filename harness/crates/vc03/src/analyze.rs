//! Rules R1-R6 and the exhaustive exploration of the abstract state graph of one code block, plus the
//! conformance replay that binds the model (effects.rs) to the running VM.
use crate::{Run, effects::{self, field, field_u}};
use boa_engine::verif::{CodeBlockDump, ConstDump, InstrDump, LocatorScope, Operand};
use rustc_hash::{FxHashMap, FxHashSet};
use serde_json::json;
use std::collections::BTreeMap;

#[derive(Default)]
pub struct Totals {
    pub programs: u64,
    pub blocks: u64,
    pub instructions: u64,
    pub states: u64,
    pub transitions: u64,
    pub steps_checked: u64,
    pub max_states_per_pc: usize,
    pub by_rule: BTreeMap<String, u64>,
    pub failures: Vec<serde_json::Value>,
    pub opcodes_seen: FxHashSet<&'static str>,
}
impl Totals {
    pub fn to_json(&self) -> String {
        let mut ops: Vec<&&str> = self.opcodes_seen.iter().collect();
        ops.sort();
        json!({"programs": self.programs, "blocks": self.blocks, "instructions": self.instructions, "states": self.states, "transitions": self.transitions,
               "steps_checked": self.steps_checked, "max_states_per_pc": self.max_states_per_pc, "by_rule": self.by_rule, "failures": self.failures,
               "distinct_opcodes": ops.len()})
        .to_string()
    }
    fn fail(&mut self, rule: &str, src: &str, block: &str, detail: String) {
        let n = self.by_rule.entry(rule.to_string()).or_insert(0);
        *n += 1;
        if *n <= 5000 {
            self.failures.push(json!({"rule": rule, "src": src, "block": block, "detail": detail}));
        }
    }
}

/// One element of the abstract environment stack.
#[derive(Clone, Copy, PartialEq, Eq, Hash, Debug)]
pub enum Env {
    Scope(u32),
    Object,
    /// pushed by the function prologue of the callee (binding identifier scope, function scope): uid not recorded
    Entry(u8),
}

#[derive(Clone, PartialEq, Eq, Hash, Debug)]
struct State {
    pc: u32,
    env: Vec<Env>,
    bind: i32,
    arg: i32,
}

// `CheckReturn` raises its TypeError through `Context::handle_throw`, which pops the frame before it looks for a handler (the error belongs to
// [[Construct]] of the caller, not to the body): no handler of the block itself can receive it.
const NOTHROW: [&str; 25] = [
    "Jump", "JumpIfTrue", "JumpIfFalse", "JumpIfNotUndefined", "JumpIfNullOrUndefined", "JumpTable", "Move", "PushFromRegister", "Pop", "PopIntoRegister",
    "StoreZero", "StoreOne", "StoreTrue", "StoreFalse", "StoreUndefined", "StoreNull", "StoreInt8", "StoreInt16", "StoreInt32", "PushScope", "PopEnvironment",
    "SetAccumulator", "SetRegisterFromAccumulator", "Return", "CheckReturn",
];
const CALL_LIKE: [&str; 9] = ["Call", "CallSpread", "CallEval", "CallEvalSpread", "New", "NewSpread", "SuperCall", "SuperCallSpread", "SuperCallDerived"];

/// (arg delta, bind delta) of one instruction (model of the VM, learned from and validated against the VM by the conformance replay).
fn effect(ins: &InstrDump) -> (i32, i32) {
    let n = field_u(ins, "argument_count").unwrap_or(0) as i32;
    match ins.opcode {
        "PushFromRegister" => (1, 0),
        "Pop" | "PopIntoRegister" => (-1, 0),
        "Call" | "CallEval" | "New" | "SuperCall" => (-(n + 1), 0),
        "CallSpread" | "CallEvalSpread" | "NewSpread" | "SuperCallSpread" => (-2, 0),
        "SuperCallDerived" => (1, 0),
        "Await" | "GeneratorYield" | "AsyncGeneratorYield" => (2, 0),
        "Generator" => (1, 0),
        "AsyncGenerator" => (2, 0),
        "GetLocator" | "GetNameAndLocator" => (0, 1),
        "SetNameByLocator" => (0, -1),
        _ => (0, 0),
    }
}

fn handler_for(cb: &CodeBlockDump, key: u32) -> Option<usize> {
    cb.handlers.iter().enumerate().rev().find(|(_, h)| key < h.end && key >= h.start).map(|(i, _)| i)
}

pub struct BlockResult {
    /// pc -> set of (env len, bind, arg)
    pub per_pc: FxHashMap<u32, FxHashSet<(usize, i32, i32)>>,
    /// abstract env (uids) at every GetFunction site, by function constant index
    pub child_env: FxHashMap<u32, Vec<Env>>,
}

pub fn analyze_block(cb: &CodeBlockDump, src: &str, dynamic_entry: Option<usize>, out: &mut Totals) -> BlockResult {
    let name = format!("{}#{}", cb.name, cb.id);
    let mut res = BlockResult { per_pc: FxHashMap::default(), child_env: FxHashMap::default() };
    out.blocks += 1;
    out.instructions += cb.instructions.len() as u64;
    let by_pc: FxHashMap<u32, &InstrDump> = cb.instructions.iter().map(|i| (i.pc, i)).collect();

    // R1: the instruction stream decodes end to end without gaps or trailing bytes; no reserved opcodes
    let mut expect = 0u32;
    for i in &cb.instructions {
        out.opcodes_seen.insert(i.opcode);
        if i.pc != expect {
            out.fail("R1-decode", src, &name, format!("instruction at {} but previous ended at {}", i.pc, expect));
        }
        if i.opcode.starts_with("Reserved") {
            out.fail("R1-decode", src, &name, format!("reserved opcode at {}", i.pc));
        }
        expect = i.next_pc;
    }
    if expect != cb.bytecode_len {
        out.fail("R1-decode", src, &name, format!("decoding ends at {expect}, bytecode length is {}", cb.bytecode_len));
    }
    if let Some(e) = &cb.decode_error {
        out.fail("R1-decode", src, &name, e.clone());
    }

    // R2: operands inside their tables and of the right kind
    let nconst = cb.constants.len() as i64;
    let is_str = |i: i64| matches!(cb.constants.get(i as usize), Some(ConstDump::String(_)));
    let is_fn = |i: i64| matches!(cb.constants.get(i as usize), Some(ConstDump::Function(_)));
    let is_scope = |i: i64| matches!(cb.constants.get(i as usize), Some(ConstDump::Scope { .. }));
    for i in &cb.instructions {
        for (fname, op) in &i.operands {
            match op {
                Operand::Reg(r) => {
                    if *r >= cb.register_count {
                        out.fail("R2-register", src, &name, format!("{} at {}: register {fname}={r} >= register_count {}", i.opcode, i.pc, cb.register_count));
                    }
                }
                Operand::Regs(rs) => {
                    for r in rs {
                        if *r >= cb.register_count {
                            out.fail("R2-register", src, &name, format!("{} at {}: register in {fname} {r} >= register_count {}", i.opcode, i.pc, cb.register_count));
                        }
                    }
                }
                Operand::Index(v) => {
                    let v = i64::from(*v);
                    let bad = match (*fname, i.opcode) {
                        ("binding_index", _) => v >= cb.bindings.len() as i64,
                        ("ic_index", _) => v >= cb.ic_names.len() as i64,
                        ("scope_index", _) => !is_scope(v),
                        ("name_index" | "pattern_index" | "flags_index" | "message", _) => !is_str(v),
                        ("index", "GetFunction") => !is_fn(v),
                        ("index", "StoreLiteral") => v >= nconst || is_fn(v) || is_scope(v),
                        ("index", "InPrivate" | "ThrowMutateImmutable") => !is_str(v),
                        ("index", "ThisForObjectEnvironmentName") => v >= cb.bindings.len() as i64,
                        _ => false,
                    };
                    if bad {
                        out.fail("R2-operand", src, &name, format!("{} at {}: {fname}={v} is outside its table or of the wrong kind", i.opcode, i.pc));
                    }
                }
                Operand::U32s(vs) if *fname == "name_indices" => {
                    for v in vs {
                        if !is_str(i64::from(*v)) {
                            out.fail("R2-operand", src, &name, format!("{} at {}: name index {v} is not a string constant", i.opcode, i.pc));
                        }
                    }
                }
                _ => {}
            }
        }
    }

    // R3: jump / handler targets are instruction starts of this body; handler ranges are well nested
    for i in &cb.instructions {
        for t in effects::successors(i) {
            if !by_pc.contains_key(&t) && !(t == cb.bytecode_len && effects::TERMINATORS.contains(&i.opcode)) {
                if t == i.next_pc && t == cb.bytecode_len {
                    out.fail("R3-target", src, &name, format!("{} at {} falls off the end of the body", i.opcode, i.pc));
                } else {
                    out.fail("R3-target", src, &name, format!("{} at {}: target {t} is not the start of an instruction", i.opcode, i.pc));
                }
            }
        }
    }
    for (k, h) in cb.handlers.iter().enumerate() {
        if !by_pc.contains_key(&h.start) && h.start != cb.bytecode_len || (!by_pc.contains_key(&h.end) && h.end != cb.bytecode_len) || h.start > h.end {
            out.fail("R3-handler", src, &name, format!("handler {k} [{}, {}) is not aligned to instructions", h.start, h.end));
        }
        for (k2, h2) in cb.handlers.iter().enumerate().skip(k + 1) {
            let disjoint = h2.start >= h.end || h.start >= h2.end;
            let nested = (h2.start >= h.start && h2.end <= h.end) || (h.start >= h2.start && h.end <= h2.end);
            if !disjoint && !nested {
                out.fail("R3-handler", src, &name, format!("handlers {k} [{}, {}) and {k2} [{}, {}) overlap without nesting", h.start, h.end, h2.start, h2.end));
            }
        }
    }
    // R6: an exception of a callee and an exception of the instruction itself land in the same handler
    for i in &cb.instructions {
        if CALL_LIKE.contains(&i.opcode) && handler_for(cb, i.next_pc - 1) != handler_for(cb, i.next_pc) {
            out.fail("R6-call-handler", src, &name, format!("{} at {}: handler for key {} and for the return address {} differ", i.opcode, i.pc, i.next_pc - 1, i.next_pc));
        }
    }

    // R4: exhaustive exploration of the abstract state graph
    let mut entry = Vec::new();
    if cb.has_binding_identifier {
        entry.push(Env::Entry(0));
    }
    if cb.has_function_scope {
        entry.push(Env::Entry(1));
    }
    // code created at run time by eval runs on environments pushed by the eval machinery itself; how many is a property
    // of the call, not of the code block, so the base is taken from the first step the VM took in it
    if let Some(n) = dynamic_entry {
        entry = (0..n).map(|_| Env::Entry(2)).collect();
    }
    let init = State { pc: 0, env: entry, bind: 0, arg: 0 };
    let mut seen: FxHashSet<State> = FxHashSet::default();
    let mut work = vec![init.clone()];
    seen.insert(init);
    let mut env_at: FxHashMap<u32, Vec<Env>> = FxHashMap::default();
    let mut reported: FxHashSet<(u32, &'static str)> = FxHashSet::default();
    while let Some(st) = work.pop() {
        out.states += 1;
        let Some(ins) = by_pc.get(&st.pc) else { continue };
        res.per_pc.entry(st.pc).or_default().insert((st.env.len(), st.bind, st.arg));
        // merge consistency: one environment stack / binding depth / argument depth per pc
        match env_at.get(&st.pc) {
            None => {
                env_at.insert(st.pc, st.env.clone());
            }
            Some(e) if *e != st.env => {
                if reported.insert((st.pc, "env")) {
                    out.fail("R4-env-merge", src, &name, format!("{} at {}: environment stack differs between paths: {:?} vs {:?}", ins.opcode, st.pc, e, st.env));
                }
            }
            _ => {}
        }
        let set = &res.per_pc[&st.pc];
        if set.len() > 1 && reported.insert((st.pc, "depth")) {
            out.fail("R4-depth-merge", src, &name, format!("{} at {}: (env, binding-reference, argument) depths differ between paths: {:?}", ins.opcode, st.pc, set));
        }
        out.max_states_per_pc = out.max_states_per_pc.max(set.len());
        if set.len() > 64 {
            out.fail("R4-unbounded", src, &name, format!("more than 64 abstract states at {}", st.pc));
            break;
        }
        if ins.opcode == "GetFunction" {
            if let Some(k) = field_u(ins, "index") {
                res.child_env.entry(k as u32).or_insert_with(|| st.env.clone());
            }
        }
        let mut push = |s: State, out: &mut Totals, work: &mut Vec<State>, seen: &mut FxHashSet<State>| {
            out.transitions += 1;
            if s.bind < 0 || s.arg < 0 {
                out.fail("R4-negative", src, &name, format!("depth below zero entering {}: binding-reference {} argument {}", s.pc, s.bind, s.arg));
                return;
            }
            if seen.insert(s.clone()) {
                work.push(s);
            }
        };
        // exception edges
        if !NOTHROW.contains(&ins.opcode) {
            let mut keys = vec![ins.next_pc - 1];
            if CALL_LIKE.contains(&ins.opcode) {
                keys.push(ins.next_pc);
            }
            for key in keys {
                if let Some(h) = handler_for(cb, key) {
                    let h = &cb.handlers[h];
                    if h.environment_count as usize > st.env.len() {
                        if reported.insert((st.pc, "handler-env")) {
                            out.fail("R4-handler-env", src, &name, format!("{} at {}: handler expects {} environments but only {} are open", ins.opcode, st.pc, h.environment_count, st.env.len()));
                        }
                    } else {
                        push(State { pc: h.end, env: st.env[..h.environment_count as usize].to_vec(), bind: 0, arg: 0 }, out, &mut work, &mut seen);
                    }
                }
            }
        }
        // the instruction's own effect
        let (da, db) = effect(ins);
        let mut env = st.env.clone();
        match ins.opcode {
            "PushScope" => {
                let uid = field_u(ins, "scope_index")
                    .and_then(|k| match cb.constants.get(k as usize) {
                        Some(ConstDump::Scope { unique_id, .. }) => Some(*unique_id),
                        _ => None,
                    })
                    .unwrap_or(u32::MAX);
                env.push(Env::Scope(uid));
            }
            "PushObjectEnvironment" => env.push(Env::Object),
            "PopEnvironment" => {
                if env.pop().is_none() {
                    out.fail("R4-negative", src, &name, format!("PopEnvironment at {} with no open environment", st.pc));
                    continue;
                }
            }
            _ => {}
        }
        let (bind, arg) = (st.bind + db, st.arg + da);
        for t in effects::successors(ins) {
            if by_pc.contains_key(&t) {
                push(State { pc: t, env: env.clone(), bind, arg }, out, &mut work, &mut seen);
            }
        }
    }

    // R5 (local part): a binding operand with a Stack(i) locator refers to an environment that is open at that pc
    // (positions below the captured chain are checked when the chain is known, see check_program)
    res
}

pub fn check_program(src: &str, run: &Run, completion: &str, out: &mut Totals) {
    out.programs += 1;
    if completion.starts_with("RustPanic") || completion.starts_with("EnginePanic") {
        out.fail("engine-failure", src, "", completion.to_string());
    }
    let mut results: FxHashMap<u64, BlockResult> = FxHashMap::default();
    for id in &run.order {
        let cb = &run.dumps[id];
        let dynamic_entry = if cb.name == "<eval>" {
            run.steps.iter().find(|s| s.codeblock_id == *id && s.pc == 0).map(|s| (s.env_depth - s.env_fp) as usize)
        } else {
            None
        };
        let r = analyze_block(cb, src, dynamic_entry, out);
        results.insert(*id, r);
    }
    // R5: captured environment chains, top-down through function constants: Stack(i) locators must name an open environment
    // whose scope is the one the locator was resolved against.
    let mut captured: FxHashMap<u64, Vec<Env>> = FxHashMap::default();
    let mut is_child: FxHashSet<u64> = FxHashSet::default();
    for id in &run.order {
        let cb = &run.dumps[id];
        for c in &cb.constants {
            if let ConstDump::Function(cid) = c {
                is_child.insert(*cid);
            }
        }
    }
    let mut queue: Vec<u64> = run.order.iter().copied().filter(|id| !is_child.contains(id)).collect();
    for id in &queue {
        // roots: scripts (no captured environments) and dynamically created code (eval, Function): chain unknown -> relative check only
        captured.insert(*id, Vec::new());
    }
    let mut qi = 0;
    while qi < queue.len() {
        let id = queue[qi];
        qi += 1;
        let cb = &run.dumps[&id];
        let base = captured[&id].clone();
        for (k, c) in cb.constants.iter().enumerate() {
            if let ConstDump::Function(cid) = c {
                if captured.contains_key(cid) || !run.dumps.contains_key(cid) {
                    continue;
                }
                let mut chain = base.clone();
                match results[&id].child_env.get(&(k as u32)) {
                    Some(e) => chain.extend(e.iter().copied()),
                    None => chain.push(Env::Entry(9)), // never instantiated by GetFunction on an explored path (class elements): unknown
                }
                captured.insert(*cid, chain);
                queue.push(*cid);
            }
        }
    }
    for id in &run.order {
        let cb = &run.dumps[id];
        let Some(base) = captured.get(id) else { continue };
        let root_unknown = !is_child.contains(id) && cb.name != "<main>";
        let name = format!("{}#{}", cb.name, cb.id);
        // abstract env per pc (first state; merges are reported by R4)
        for ins in &cb.instructions {
            let Some(bi) = field_u(ins, "binding_index") else { continue };
            let Some(b) = cb.bindings.get(bi as usize) else { continue };
            let LocatorScope::Stack(i) = b.scope else { continue };
            let Some(lens) = results[id].per_pc.get(&ins.pc) else { continue }; // unreachable instruction
            let local = lens.iter().map(|t| t.0).max().unwrap_or(0);
            if base.iter().any(|e| matches!(e, Env::Entry(9))) || root_unknown {
                continue;
            }
            let total = base.len() + local;
            if i as usize >= total + 1 {
                // NOTE: index 0 is the global declarative environment of the frame's chain in this numbering
                out.fail("R5-locator", src, &name, format!("{} at {}: binding `{}` names environment {} but only {} are open", ins.opcode, ins.pc, b.name, i, total));
            }
        }
    }
    // conformance: every step the VM took is a member of the abstract state set of its pc
    for s in &run.steps {
        let Some(r) = results.get(&s.codeblock_id) else { continue };
        out.steps_checked += 1;
        let obs = ((s.env_depth - s.env_fp) as usize, s.binding_stack_len as i32, s.stack_above_registers as i32);
        let ok = r.per_pc.get(&s.pc).is_some_and(|set| set.contains(&obs));
        if !ok {
            let cb = &run.dumps[&s.codeblock_id];
            let op = cb.instructions.iter().find(|i| i.pc == s.pc).map_or("?", |i| i.opcode);
            out.fail("conformance", src, &format!("{}#{}", cb.name, cb.id),
                     format!("the VM was at {} ({op}) with (env, binding-reference, argument) = {:?}; the model allows {:?}", s.pc, obs, r.per_pc.get(&s.pc)));
        }
    }
    let _ = field;
}
