//! The model of the VM that the abstract exploration uses: successors and stack effects per opcode.
use boa_engine::verif::{InstrDump, Operand};

pub fn field<'a>(ins: &'a InstrDump, name: &str) -> Option<&'a Operand> {
    ins.operands.iter().find(|(n, _)| *n == name).map(|(_, o)| o)
}
pub fn field_u(ins: &InstrDump, name: &str) -> Option<i64> {
    match field(ins, name)? {
        Operand::Reg(v) | Operand::Index(v) | Operand::Addr(v) => Some(i64::from(*v)),
        Operand::Int(v) => Some(*v),
        _ => None,
    }
}

/// Opcodes that end the straight-line flow.
pub const TERMINATORS: [&str; 6] = ["Return", "Throw", "ThrowNewTypeError", "ThrowNewReferenceError", "ThrowNewSyntaxError", "ThrowMutateImmutable"];

/// Static successors (pcs) of an instruction, exception edges excluded.
pub fn successors(ins: &InstrDump) -> Vec<u32> {
    let mut out = Vec::new();
    let op = ins.opcode;
    for (_, o) in &ins.operands {
        match o {
            Operand::Addr(a) => out.push(*a),
            Operand::Addrs(v) => out.extend(v.iter().copied()),
            _ => {}
        }
    }
    if op == "Jump" {
        return out;
    }
    if !TERMINATORS.contains(&op) && op != "ReThrow" {
        out.push(ins.next_pc);
    }
    out
}

pub fn learn_key(ins: &InstrDump) -> String {
    let mut k = ins.opcode.to_string();
    for name in ["argument_count"] {
        if let Some(v) = field_u(ins, name) {
            k.push_str(&format!(" {name}={v}"));
        }
    }
    if let Some(Operand::Regs(v)) = field(ins, "values") {
        k.push_str(&format!(" values={}", v.len()));
    }
    k
}
