//! Bookkeeping: per-operation counters and distinct outcomes, failure buckets with a minimal witness.
use boa_string::JsString;
use rustc_hash::{FxHashSet, FxHasher};
use serde_json::{Value, json};
use std::collections::{BTreeMap, BTreeSet};
use std::fmt::{Arguments, Debug};
use std::hash::{Hash, Hasher};

pub struct Seq {
    pub u: Vec<u16>,
    pub extra: bool,
    pub idx: usize,
    pub std: Option<String>,
    pub latin1: Option<Vec<u8>>,
}

impl Seq {
    pub fn new(u: Vec<u16>, extra: bool, idx: usize) -> Self {
        let std = crate::model::to_std_string(&u);
        let latin1 = if u.iter().all(|&c| c <= 0xFF) { Some(u.iter().map(|&c| c as u8).collect()) } else { None };
        Seq { u, extra, idx, std, latin1 }
    }
    pub fn content(&self) -> &'static str {
        if self.u.is_empty() {
            "empty"
        } else if self.u.iter().all(|&c| c < 0x80) {
            "ascii"
        } else if self.latin1.is_some() {
            "latin1-high"
        } else {
            "wide"
        }
    }
    pub fn features(&self) -> String {
        let mut s = self.content().to_string();
        if self.u.iter().any(|&c| crate::model::is_ws_raw(c)) {
            s.push_str("+ws");
        }
        if self.u.contains(&0) {
            s.push_str("+nul");
        }
        let cps = crate::model::code_points(&self.u);
        if cps.iter().any(|c| matches!(c, crate::model::Cp::Lone(_))) {
            s.push_str("+lone");
        }
        if cps.iter().any(|c| matches!(c, crate::model::Cp::Uni(v) if *v > 0xFFFF)) {
            s.push_str("+pair");
        }
        s
    }
}

pub struct Cons {
    pub name: String,
    pub ci: usize,
    pub s: JsString,
    /// "latin1" | "utf16" (the JsStr variant)
    pub rep: &'static str,
    /// "seq" | "slice" | "static"
    pub kind: &'static str,
}

#[derive(Clone, Copy)]
pub struct Ctx<'a> {
    pub u: &'a Seq,
    pub c: &'a Cons,
    pub w: Option<&'a Seq>,
    /// category of the other operand: "-", "latin1", "utf16" (a JsString/JsStr of that variant), "[u16]", "str"
    pub ocat: &'static str,
    pub oname: &'a str,
    pub oi: usize,
}

pub fn relation_class(u: &Seq, w: Option<&Seq>) -> String {
    let Some(w) = w else { return format!("single/{}", u.features()) };
    if u.u == w.u {
        return format!("same/{}", u.content());
    }
    if let (Some(l), Some(s)) = (&u.latin1, &w.std) {
        if l.as_slice() == s.as_bytes() {
            return format!("recv-latin1-bytes-equal-utf8-of-other/{}", u.content());
        }
    }
    if w.u.starts_with(&u.u) {
        "recv-proper-prefix-of-other".into()
    } else if u.u.starts_with(&w.u) {
        "other-proper-prefix-of-recv".into()
    } else if u.u.len() == w.u.len() {
        "same-length-different".into()
    } else {
        "different".into()
    }
}

macro_rules! ops {
    ($($id:ident = $name:literal),* $(,)?) => {
        #[allow(non_camel_case_types, clippy::upper_case_acronyms)]
        #[derive(Clone, Copy, PartialEq, Eq, Debug)]
        #[repr(usize)]
        pub enum Op { $($id),* }
        pub const OP_NAMES: &[&str] = &[$($name),*];
    };
}

ops! {
    Len = "len", IsEmpty = "is_empty", StrLen = "JsStr.len", StrIsEmpty = "JsStr.is_empty",
    Variant = "variant", AsLatin1 = "JsStr.as_latin1",
    CodeUnitAt = "code_unit_at", StrGetIdx = "JsStr.get(usize)",
    CodePointAt = "code_point_at", StrCodePointAt = "JsStr.code_point_at",
    CodePoints = "code_points", StrCodePoints = "JsStr.code_points", CodePointsLossy = "JsStr.code_points_lossy",
    Iter = "iter", IterLen = "iter.len", IntoIter = "into_iter", StrIter = "JsStr.iter",
    Windows = "windows", WindowsLen = "windows.len",
    ToVec = "to_vec", StrToVec = "JsStr.to_vec",
    Contains = "contains", StrContains = "JsStr.contains",
    Trim = "trim", TrimStart = "trim_start", TrimEnd = "trim_end",
    GetRange = "get(a..b)", GetRangeIncl = "get(a..=b)", GetRangeFrom = "get(a..)", GetRangeTo = "get(..b)",
    GetRangeToIncl = "get(..=b)", GetRangeFull = "get(..)",
    StrGetRange = "JsStr.get(a..b)", StrGetRangeIncl = "JsStr.get(a..=b)", StrGetRangeFrom = "JsStr.get(a..)",
    StrGetRangeTo = "JsStr.get(..b)", StrGetRangeFull = "JsStr.get(..)",
    Slice = "slice", SubEq = "get(a..b)==from(model)", SubHash = "hash(get(a..b))",
    ToStd = "to_std_string", StrToStd = "JsStr.to_std_string", ToStdEscaped = "to_std_string_escaped",
    ToStdLossy = "to_std_string_lossy", StrToStdLossy = "JsStr.to_std_string_lossy",
    DisplayEscaped = "display_escaped", DisplayLossy = "display_lossy", StrDisplayLossy = "JsStr.display_lossy", DebugFmt = "Debug",
    WithSurrogates = "to_std_string_with_surrogates", MapSegId = "map_valid_segments(id)", MapSegUs = "map_valid_segments(+_)",
    ToNumber = "to_number", StrToNumber = "JsStr.to_number",
    HashDefault = "hash<DefaultHasher>", StrHashDefault = "JsStr.hash<DefaultHasher>", HashFx = "hash<FxHasher>", StrHashFx = "JsStr.hash<FxHasher>",
    CloneEq = "clone", StaticLookup = "StaticJsStrings::get_string", StaticLookupStr = "StaticJsStrings::get_js_str",
    IndexOf = "index_of", StrIndexOf = "JsStr.index_of", StartsWith = "starts_with", EndsWith = "ends_with",
    StrStartsWith = "JsStr.starts_with", StrEndsWith = "JsStr.ends_with",
    Latin1BuilderBuild = "Latin1JsStringBuilder::build", CommonBuildFromLatin1 = "CommonJsStringBuilder::build_from_latin1",
    EqSS = "JsString==JsString", NeSS = "JsString!=JsString", CmpSS = "JsString.cmp", PCmpSS = "JsString.partial_cmp",
    EqTT = "JsStr==JsStr", CmpTT = "JsStr.cmp", PCmpTT = "JsStr.partial_cmp", EqST = "JsString==JsStr", EqTS = "JsStr==JsString",
    HashEqDefault = "hash-agreement<DefaultHasher>", HashEqFx = "hash-agreement<FxHasher>",
    XStartsWith = "starts_with(JsString)", XEndsWith = "ends_with(JsString)", XIndexOf = "index_of(JsString,0)",
    FxMapGet = "FxHashMap<JsString>.get", SipSetHas = "HashSet<JsString>.contains", BTreeGet = "BTreeMap<JsString>.get",
    GlobalMapGet = "FxHashMap<JsString>(all sequences).get",
    EqSU = "JsString==[u16]", EqUS = "[u16]==JsString", EqUT = "[u16]==JsStr", EqSA = "JsString==[u16;N]", EqAS = "[u16;N]==JsString",
    EqSStr = "JsString==str", EqStrS = "str==JsString", EqSRefStr = "JsString==&str", EqTStr = "JsStr==str", EqTRefStr = "JsStr==&str",
    Pairwise = "pairwise-signature",
}

#[derive(Default)]
pub struct OpStat {
    pub apps: u64,
    pub outcomes: FxHashSet<u64>,
}

pub type WKey = (usize, bool, usize, usize, usize, usize, usize, String);

pub struct Bucket {
    pub count: u64,
    pub kinds: BTreeSet<&'static str>,
    pub key: WKey,
    pub got: String,
    pub want: String,
    pub witness: Value,
}

pub struct Stats {
    pub ops: Vec<OpStat>,
    pub validated: u64,
    pub states: u64,
    pub by_kind: BTreeMap<String, u64>,
    pub by_ctor: BTreeMap<String, u64>,
    pub buckets: BTreeMap<(String, String, String, String), Bucket>,
    /// replay filter: only failures of this op / ctor are recorded
    pub filter_op: Option<String>,
    pub filter_ctor: Option<String>,
    pub sig_on: bool,
    pub sig: Vec<(Op, u64)>,
}

pub fn fx<T: Hash>(t: &T) -> u64 {
    let mut h = FxHasher::default();
    t.hash(&mut h);
    h.finish()
}

impl Stats {
    pub fn new() -> Self {
        Stats {
            ops: (0..OP_NAMES.len()).map(|_| OpStat::default()).collect(),
            validated: 0,
            states: 0,
            by_kind: BTreeMap::new(),
            by_ctor: BTreeMap::new(),
            buckets: BTreeMap::new(),
            filter_op: None,
            filter_ctor: None,
            sig_on: false,
            sig: vec![],
        }
    }

    /// One application of `op` on the real crate (`got`) compared with the model (`want`).
    #[inline]
    pub fn ck<T: PartialEq + Debug + Hash>(&mut self, op: Op, got: T, want: T, cx: &Ctx<'_>, args: Arguments<'_>) {
        let f = fx(&got);
        let o = &mut self.ops[op as usize];
        o.apps += 1;
        o.outcomes.insert(f);
        self.validated += 1;
        if self.sig_on {
            self.sig.push((op, f));
        }
        if got != want {
            self.fail(op, format!("{got:?}"), format!("{want:?}"), cx, args);
        }
    }

    /// An application whose result has no model value; it only enters the pairwise signature.
    #[inline]
    pub fn sig_only<T: Hash>(&mut self, op: Op, got: &T) {
        let f = fx(got);
        let o = &mut self.ops[op as usize];
        o.apps += 1;
        o.outcomes.insert(f);
        if self.sig_on {
            self.sig.push((op, f));
        }
    }

    #[cold]
    pub fn fail(&mut self, op: Op, got: String, want: String, cx: &Ctx<'_>, args: Arguments<'_>) {
        let opn = OP_NAMES[op as usize];
        if self.filter_op.as_deref().is_some_and(|f| f != opn) || self.filter_ctor.as_deref().is_some_and(|f| f != cx.c.name) {
            return;
        }
        let class = relation_class(cx.u, cx.w);
        let args = args.to_string();
        let (wl, wi) = cx.w.map_or((0, 0), |w| (w.u.len(), w.idx));
        let key: WKey = (cx.u.u.len().max(wl), cx.u.extra, cx.u.idx, wi, cx.c.ci, cx.oi, 0, args.clone());
        let bk = (opn.to_string(), cx.c.rep.to_string(), cx.ocat.to_string(), class);
        let mk_witness = || {
            json!({"u": cx.u.u, "ctor": cx.c.name, "kind": cx.c.kind, "w": cx.w.map(|w| w.u.clone()), "other": cx.oname, "args": args})
        };
        match self.buckets.get_mut(&bk) {
            None => {
                let mut kinds = BTreeSet::new();
                kinds.insert(cx.c.kind);
                let witness = mk_witness();
                self.buckets.insert(bk, Bucket { count: 1, kinds, key, got, want, witness });
            }
            Some(b) => {
                b.count += 1;
                b.kinds.insert(cx.c.kind);
                if key < b.key {
                    b.witness = mk_witness();
                    b.key = key;
                    b.got = got;
                    b.want = want;
                }
            }
        }
    }

    pub fn merge(&mut self, o: Stats) {
        for (a, b) in self.ops.iter_mut().zip(o.ops) {
            a.apps += b.apps;
            a.outcomes.extend(b.outcomes);
        }
        self.validated += o.validated;
        self.states += o.states;
        for (k, v) in o.by_kind {
            *self.by_kind.entry(k).or_default() += v;
        }
        for (k, v) in o.by_ctor {
            *self.by_ctor.entry(k).or_default() += v;
        }
        for (k, b) in o.buckets {
            match self.buckets.get_mut(&k) {
                None => {
                    self.buckets.insert(k, b);
                }
                Some(a) => {
                    a.count += b.count;
                    a.kinds.extend(b.kinds);
                    if b.key < a.key {
                        a.key = b.key;
                        a.got = b.got;
                        a.want = b.want;
                        a.witness = b.witness;
                    }
                }
            }
        }
    }

    pub fn to_json(&self) -> Value {
        let mut ops = serde_json::Map::new();
        let mut transitions = 0u64;
        for (i, o) in self.ops.iter().enumerate() {
            if o.apps > 0 {
                ops.insert(OP_NAMES[i].to_string(), json!({"applications": o.apps, "distinct_outcomes": o.outcomes.len()}));
                transitions += o.apps;
            }
        }
        let buckets: Vec<Value> = self
            .buckets
            .iter()
            .map(|((op, rep, ocat, class), b)| {
                json!({"op": op, "rep": rep, "other": ocat, "class": class, "count": b.count,
                       "kinds": b.kinds.iter().collect::<Vec<_>>(), "got": b.got, "want": b.want, "witness": b.witness})
            })
            .collect();
        json!({"states": self.states, "transitions": transitions, "validated": self.validated, "ops": ops,
               "constructions_by_kind": self.by_kind, "constructions_by_ctor": self.by_ctor, "buckets": buckets})
    }
}
