//! Sequence enumeration and every construction route the crate offers for a given code-unit sequence.
use crate::stats::{Cons, Seq};
use boa_string::{
    CommonJsStringBuilder, JsStr, JsStrVariant, JsString, Latin1JsStringBuilder, StaticJsStrings, StaticString, Utf16JsStringBuilder,
};

pub const ALPHA_QUICK: &[u16] = &[0x41, 0x20, 0x00, 0x7F, 0xE9, 0xFF, 0x03C0, 0xD83D, 0xDE00];
pub const ALPHA_THOROUGH: &[u16] = &[0x41, 0x20, 0x00, 0x7F, 0xE9, 0xFF, 0x03C0, 0xD83D, 0xDE00, 0x2028, 0xFEFF];

/// Extra sequences outside the alphabet space: real static-table strings, numeric strings for `to_number`,
/// and Latin-1 strings whose bytes are the UTF-8 encoding of another string.
pub fn extras() -> Vec<Vec<u16>> {
    let strs: &[&str] = &[
        "length", "a", "NaN", "Map", "prototype", "Symbol.iterator", "constructor", "0", "1", "12", " 12 ", "-0", "+1", "1e3", "1.5", ".5", "5.",
        "0x1F", "0b11", "0o17", "Infinity", "-Infinity", "12px", "1e", "\u{FEFF}7\u{2028}", "\u{e9}", "\u{3c0}", "ab\u{3c0}", "ab",
        "\u{c3}\u{a9}", "\u{cf}\u{80}", "A\u{c3}\u{a9}", "A\u{e9}",
    ];
    strs.iter().map(|s| s.encode_utf16().collect()).collect()
}

/// All sequences of length <= maxlen over alpha, ordered by (length, lexicographic in alphabet order), then the extras.
pub fn enumerate(alpha: &[u16], maxlen: usize, with_extras: bool) -> Vec<Seq> {
    let mut out: Vec<Vec<u16>> = vec![vec![]];
    let mut frontier: Vec<Vec<u16>> = vec![vec![]];
    for _ in 0..maxlen {
        let mut next = vec![];
        for s in &frontier {
            for &a in alpha {
                let mut t = s.clone();
                t.push(a);
                next.push(t);
            }
        }
        out.extend(next.iter().cloned());
        frontier = next;
    }
    let n = out.len();
    let mut seqs: Vec<Seq> = out.into_iter().enumerate().map(|(i, u)| Seq::new(u, false, i)).collect();
    if with_extras {
        for (i, u) in extras().into_iter().enumerate() {
            if !seqs.iter().any(|s| s.u == u) {
                seqs.push(Seq::new(u, true, n + i));
            }
        }
    }
    seqs
}

/// Index of an alphabet sequence in `enumerate` order.
pub fn seq_index(alpha: &[u16], u: &[u16]) -> Option<usize> {
    let b = alpha.len();
    let mut off = 0usize;
    let mut pow = 1usize;
    for _ in 0..u.len() {
        off += pow;
        pow *= b;
    }
    let mut v = 0usize;
    for c in u {
        let d = alpha.iter().position(|a| a == c)?;
        v = v * b + d;
    }
    Some(off + v)
}

fn kind_of(s: &JsString) -> &'static str {
    let d = format!("{:?}", s.debug_info());
    let k = d.split("kind: ").nth(1).unwrap_or("");
    if k.starts_with("Slice") {
        "slice"
    } else if k.starts_with("Static") {
        "static"
    } else if k.starts_with("Latin1Sequence") || k.starts_with("Utf16Sequence") {
        "seq"
    } else {
        panic!("unknown kind in debug_info: {d}")
    }
}

fn leak_static_utf16(u: &[u16]) -> JsString {
    let data: &'static [u16] = Vec::leak(u.to_vec());
    let st: &'static StaticString = Box::leak(Box::new(StaticString::new(JsStr::utf16(data))));
    JsString::from_static(st)
}
fn leak_static_latin1(b: &[u8]) -> JsString {
    let data: &'static [u8] = Vec::leak(b.to_vec());
    let st: &'static StaticString = Box::leak(Box::new(StaticString::new(JsStr::latin1(data))));
    JsString::from_static(st)
}

fn unit_str(c: &u16, buf8: &mut [u8; 1]) -> Option<()> {
    if *c <= 0xFF {
        buf8[0] = *c as u8;
        Some(())
    } else {
        None
    }
}

/// Every construction of `q.u`. `full == false` gives the representative set (one per representation) used as the
/// other operand of cross-sequence operations.
pub fn ctors(q: &Seq, full: bool) -> Vec<Cons> {
    let u = &q.u[..];
    let n = u.len();
    let l1 = q.latin1.as_deref();
    let mut v: Vec<(String, JsString)> = vec![];
    let mut add = |name: &str, s: JsString| v.push((name.to_string(), s));

    // --- representative set: one per (variant x kind) that exists for this sequence
    add("From<&[u16]>", JsString::from(u));
    {
        let mut b = Utf16JsStringBuilder::new();
        for &c in u {
            b.push(c);
        }
        add("Utf16JsStringBuilder.push", b.build());
    }
    {
        let mut padded = vec![0x58u16];
        padded.extend_from_slice(u);
        padded.push(0x3C0);
        let big = JsString::from(&padded[..]);
        add("slice(utf16 X+u+pi)", big.slice(1, 1 + n));
    }
    add("from_static(leaked utf16)", leak_static_utf16(u));
    if let Some(b) = l1 {
        add("From<JsStr::latin1>", JsString::from(JsStr::latin1(b)));
        let mut padded = vec![0x58u8];
        padded.extend_from_slice(b);
        padded.push(0x59);
        let big = JsString::from(JsStr::latin1(&padded));
        add("slice(latin1 X+u+Y)", big.slice(1, 1 + n));
        add("from_static(leaked latin1)", leak_static_latin1(b));
        let mut lb = Latin1JsStringBuilder::new();
        lb.extend_from_slice(b);
        // SAFETY: all bytes are Latin-1 code points by construction.
        add("Latin1JsStringBuilder.build_as_latin1", unsafe { lb.build_as_latin1() });
    }
    if full {
        add("From<JsStr::utf16>", JsString::from(JsStr::utf16(u)));
        macro_rules! arr {
            ($($n:literal),*) => { match n { $($n => { let a: &[u16; $n] = u.try_into().unwrap(); add("From<&[u16;N]>", JsString::from(a)); })* _ => {} } };
        }
        arr!(0, 1, 2, 3, 4);
        if let Some(s) = &q.std {
            add("From<&str>", JsString::from(s.as_str()));
            add("From<String>", JsString::from(s.clone()));
            add("FromStr", s.parse::<JsString>().unwrap());
            add("From<Cow<str>>", JsString::from(std::borrow::Cow::Borrowed(s.as_str())));
        }
        if let Some(s) = StaticJsStrings::get_string(&JsStr::utf16(u)) {
            add("StaticJsStrings::get_string(utf16)", s);
        }
        if let Some(b) = l1 {
            if let Some(s) = StaticJsStrings::get_string(&JsStr::latin1(b)) {
                add("StaticJsStrings::get_string(latin1)", s);
            }
            if b.is_ascii() {
                let mut lb = Latin1JsStringBuilder::new();
                for &c in b {
                    lb.push(c);
                }
                add("Latin1JsStringBuilder.build", lb.build().expect("ascii builder must build"));
            }
            let lb = Latin1JsStringBuilder::from(b);
            // SAFETY: Latin-1 by construction.
            add("Latin1JsStringBuilder::from(&[u8])", unsafe { lb.build_as_latin1() });
            let lb: Latin1JsStringBuilder = b.iter().copied().collect();
            // SAFETY: Latin-1 by construction.
            add("Latin1JsStringBuilder::from_iter", unsafe { lb.clone().build_as_latin1() });
        }
        {
            let mut b = Utf16JsStringBuilder::with_capacity(n + 3);
            b.extend_from_slice(u);
            add("Utf16JsStringBuilder.extend_from_slice", b.build());
            let b = Utf16JsStringBuilder::from(u);
            add("Utf16JsStringBuilder::from(&[u16])", b.build());
            let mut b: Utf16JsStringBuilder = u.iter().copied().collect();
            b.reserve(5);
            let b2 = b.clone() + &[][..];
            add("Utf16JsStringBuilder::from_iter+reserve+clone", b2.build());
        }
        // CommonJsStringBuilder, unit by unit in the narrowest segment type
        {
            let mut cb = CommonJsStringBuilder::new();
            let cps = crate::model::code_points(u);
            let mut pos = 0;
            for cp in &cps {
                match cp {
                    crate::model::Cp::Uni(x) if *x <= 0xFF => {
                        cb.push(*x as u8);
                        pos += 1;
                    }
                    crate::model::Cp::Uni(x) => {
                        cb.push(char::from_u32(*x).unwrap());
                        pos += if *x > 0xFFFF { 2 } else { 1 };
                    }
                    crate::model::Cp::Lone(_) => {
                        cb.push(JsStr::utf16(&u[pos..=pos]));
                        pos += 1;
                    }
                }
            }
            add("CommonJsStringBuilder(units).build", cb.clone().build());
            add("CommonJsStringBuilder(units).build_from_utf16", cb.clone().build_from_utf16());
            if let Some(s) = cb.build_from_latin1() {
                add("CommonJsStringBuilder(units).build_from_latin1", s);
            }
        }
        {
            let mut cb = CommonJsStringBuilder::with_capacity(2);
            cb.push(JsStr::utf16(u));
            add("CommonJsStringBuilder(JsStr::utf16).build", cb.build());
            let mut cb = CommonJsStringBuilder::new();
            cb.push(JsString::from(u));
            cb.push(JsStr::latin1(&[]));
            add("CommonJsStringBuilder(JsString,empty).build", cb.build());
            let mut cb = CommonJsStringBuilder::new();
            cb.push(&u[..n / 2]);
            if let Some(s) = crate::model::to_std_string(&u[n / 2..]) {
                cb.push(s.as_str());
            } else {
                cb.push(JsStr::utf16(&u[n / 2..]));
            }
            add("CommonJsStringBuilder(&[u16],&str).build", cb.build());
            if let Some(b) = l1 {
                // chars <= 0xFF go down the CodePoint path
                let mut cb = CommonJsStringBuilder::new();
                for &c in b {
                    cb.push(char::from(c));
                }
                add("CommonJsStringBuilder(chars<=FF).build", cb.build());
            }
        }
        // slices
        {
            let mut padded = vec![0x3C0u16, 0x58];
            padded.extend_from_slice(u);
            padded.extend_from_slice(&[0x59, 0x5A]);
            let big = JsString::from(&padded[..]);
            let mid = big.slice(1, 3 + n);
            add("slice(slice(utf16))", mid.slice(1, 1 + n));
            if let Some(s) = big.get(2..2 + n) {
                add("get(a..b) of utf16", s);
            }
        }
        if let Some(b) = l1 {
            let mut padded = vec![0x57u8, 0x58];
            padded.extend_from_slice(b);
            padded.extend_from_slice(&[0x59, 0x5A]);
            let big = JsString::from(JsStr::latin1(&padded));
            let mid = big.slice(1, 3 + n);
            add("slice(slice(latin1))", mid.slice(1, 1 + n));
            if let Some(s) = big.get(2..=1 + n) {
                if n > 0 {
                    add("get(a..=b) of latin1", s);
                }
            }
            let mut sp = vec![0x20u8, 0x0A];
            sp.extend_from_slice(b);
            sp.push(0x09);
            if n > 0 && !crate::model::is_ws_raw(u[0]) && !crate::model::is_ws_raw(u[n - 1]) {
                add("trim(latin1 ws+u+ws)", JsString::from(JsStr::latin1(&sp)).trim());
            }
        }
        if n > 0 && !crate::model::is_ws_raw(u[0]) && !crate::model::is_ws_raw(u[n - 1]) {
            let mut sp = vec![0xFEFFu16, 0x20];
            sp.extend_from_slice(u);
            sp.push(0x2029);
            add("trim(utf16 ws+u+ws)", JsString::from(&sp[..]).trim());
        }
        // concatenations
        for k in 0..=n {
            v.push((format!("concat(utf16 u[..{k}],u[{k}..])"), JsString::concat(JsStr::utf16(&u[..k]), JsStr::utf16(&u[k..]))));
            let a8: Option<Vec<u8>> = u[..k].iter().map(|&c| u8::try_from(c).ok()).collect();
            let b8: Option<Vec<u8>> = u[k..].iter().map(|&c| u8::try_from(c).ok()).collect();
            match (&a8, &b8) {
                (Some(a), Some(b)) => {
                    v.push((format!("concat(latin1 u[..{k}],latin1 u[{k}..])"), JsString::concat(JsStr::latin1(a), JsStr::latin1(b))));
                    v.push((format!("concat(latin1 u[..{k}],utf16 u[{k}..])"), JsString::concat(JsStr::latin1(a), JsStr::utf16(&u[k..]))));
                }
                (Some(a), None) => {
                    v.push((format!("concat(latin1 u[..{k}],utf16 u[{k}..])"), JsString::concat(JsStr::latin1(a), JsStr::utf16(&u[k..]))));
                }
                (None, Some(b)) => {
                    v.push((format!("concat(utf16 u[..{k}],latin1 u[{k}..])"), JsString::concat(JsStr::utf16(&u[..k]), JsStr::latin1(b))));
                }
                (None, None) => {}
            }
        }
        {
            // concat_array of single units, each in its narrowest JsStr form
            let bytes: Vec<[u8; 1]> = u.iter().map(|c| { let mut b = [0u8; 1]; let _ = unit_str(c, &mut b); b }).collect();
            let parts: Vec<JsStr<'_>> = u
                .iter()
                .enumerate()
                .map(|(i, c)| if *c <= 0xFF { JsStr::latin1(&bytes[i]) } else { JsStr::utf16(&u[i..=i]) })
                .collect();
            v.push(("concat_array(units)".into(), JsString::concat_array(&parts)));
            v.push(("concat_array([])+whole".into(), JsString::concat_array(&[JsStr::latin1(&[]), JsStr::utf16(u), JsStr::utf16(&[])])));
            let strings: Vec<JsString> = parts.iter().map(|p| JsString::from(*p)).collect();
            v.push(("From<&[JsString]>".into(), JsString::from(&strings[..])));
        }
        let first = v[0].1.clone();
        v.push(("clone".into(), first));
    }
    v.into_iter()
        .enumerate()
        .map(|(ci, (name, s))| {
            let rep = match s.variant() {
                JsStrVariant::Latin1(_) => "latin1",
                JsStrVariant::Utf16(_) => "utf16",
            };
            let kind = kind_of(&s);
            Cons { name, ci, s, rep, kind }
        })
        .collect()
}
