//! The operations: each applied to the real crate and compared with the model.
use crate::model::{self as m, Cp};
use crate::stats::{Cons, Ctx, Op, Seq, Stats};
use boa_string::{CodePoint, JsStr, JsStrVariant, JsString, StaticJsStrings};
use rustc_hash::{FxHashMap, FxHasher};
use std::collections::hash_map::DefaultHasher;
use std::collections::{BTreeMap, HashSet};
use std::hash::{BuildHasherDefault, Hash, Hasher};

pub struct Needle {
    pub u: Vec<u16>,
    pub l1: Option<Vec<u8>>,
}

pub const CONTAINS_BYTES: &[u8] = &[0x41, 0x20, 0x00, 0x7F, 0xE9, 0xFF, 0x42, 0xC0, 0x3D, 0x28];

fn cp(c: CodePoint) -> Cp {
    match c {
        CodePoint::Unicode(c) => Cp::Uni(u32::from(c)),
        CodePoint::UnpairedSurrogate(x) => Cp::Lone(x),
    }
}
pub fn h_default<T: Hash + ?Sized>(t: &T) -> u64 {
    let mut h = DefaultHasher::new();
    t.hash(&mut h);
    h.finish()
}
pub fn h_fx<T: Hash + ?Sized>(t: &T) -> u64 {
    let mut h = FxHasher::default();
    t.hash(&mut h);
    h.finish()
}
fn model_h_default(u: &[u16]) -> u64 {
    let mut h = DefaultHasher::new();
    m::hash_units(u, &mut h);
    h.finish()
}
fn variant_units(s: JsStr<'_>) -> Vec<u16> {
    match s.variant() {
        JsStrVariant::Latin1(b) => b.iter().map(|&c| u16::from(c)).collect(),
        JsStrVariant::Utf16(w) => w.to_vec(),
    }
}
fn vec_of(s: Option<JsString>) -> Option<Vec<u16>> {
    s.map(|s| s.to_vec())
}
fn vec_of_str(s: Option<JsStr<'_>>) -> Option<Vec<u16>> {
    s.map(|s| s.to_vec())
}

/// Everything that involves one string (plus small needles / indices).
pub fn single_ops(st: &mut Stats, q: &Seq, c: &Cons, needles: &[Needle]) {
    let u = &q.u[..];
    let n = u.len();
    let s = &c.s;
    let js = s.as_str();
    let cx = &Ctx { u: q, c, w: None, ocat: "-", oname: "-", oi: 0 };
    macro_rules! ck {
        ($op:ident, $got:expr, $want:expr) => { st.ck(Op::$op, $got, $want, cx, format_args!("")) };
        ($op:ident, $got:expr, $want:expr, $($a:tt)+) => { st.ck(Op::$op, $got, $want, cx, format_args!($($a)+)) };
    }
    ck!(Len, s.len(), n);
    ck!(IsEmpty, s.is_empty(), n == 0);
    ck!(StrLen, js.len(), n);
    ck!(StrIsEmpty, js.is_empty(), n == 0);
    ck!(Variant, variant_units(js), u.to_vec());
    ck!(AsLatin1, js.as_latin1().map(|b| b.iter().map(|&x| u16::from(x)).collect::<Vec<u16>>()), if c.rep == "latin1" { Some(u.to_vec()) } else { None });
    for i in 0..=n + 1 {
        ck!(CodeUnitAt, s.code_unit_at(i), u.get(i).copied(), "i={i}");
        ck!(StrGetIdx, js.get(i), u.get(i).copied(), "i={i}");
    }
    for i in 0..n {
        let want = m::code_point_at(u, i).0;
        ck!(CodePointAt, cp(s.code_point_at(i)), want, "i={i}");
        ck!(StrCodePointAt, cp(js.code_point_at(i)), want, "i={i}");
    }
    let mcps = m::code_points(u);
    ck!(CodePoints, s.code_points().map(cp).collect::<Vec<_>>(), mcps.clone());
    ck!(StrCodePoints, js.code_points().map(cp).collect::<Vec<_>>(), mcps.clone());
    ck!(CodePointsLossy, js.code_points_lossy().collect::<String>(), m::lossy(u));
    ck!(Iter, s.iter().collect::<Vec<u16>>(), u.to_vec());
    ck!(IterLen, s.iter().len(), n);
    ck!(IntoIter, s.into_iter().collect::<Vec<u16>>(), u.to_vec());
    ck!(StrIter, js.iter().collect::<Vec<u16>>(), u.to_vec());
    for k in 1..=n + 1 {
        let want: Vec<Vec<u16>> = u.windows(k).map(<[u16]>::to_vec).collect();
        ck!(Windows, s.windows(k).map(|w| w.to_vec()).collect::<Vec<_>>(), want.clone(), "size={k}");
        ck!(WindowsLen, s.windows(k).len(), want.len(), "size={k}");
    }
    ck!(ToVec, s.to_vec(), u.to_vec());
    ck!(StrToVec, js.to_vec(), u.to_vec());
    for &b in CONTAINS_BYTES {
        let want = u.contains(&u16::from(b));
        ck!(Contains, s.contains(b), want, "byte={b:#x}");
        ck!(StrContains, js.contains(b), want, "byte={b:#x}");
    }
    ck!(Trim, s.trim().to_vec(), m::trim(u).to_vec());
    ck!(TrimStart, s.trim_start().to_vec(), m::trim_start(u).to_vec());
    ck!(TrimEnd, s.trim_end().to_vec(), m::trim_end(u).to_vec());
    // ranges: the model is the same range applied to the plain slice
    for a in 0..=n + 1 {
        for b in 0..=n + 1 {
            let want = u.get(a..b).map(<[u16]>::to_vec);
            let got = s.get(a..b);
            if let (Some(g), Some(w)) = (&got, &want) {
                // the substring is itself a string: equality and hash against a fresh string of the model's units
                let fresh = JsString::from(&w[..]);
                ck!(SubEq, *g == fresh && fresh == *g, true, "a={a} b={b}");
                ck!(SubHash, h_default(g), model_h_default(w), "a={a} b={b}");
            }
            ck!(GetRange, vec_of(got), want.clone(), "a={a} b={b}");
            ck!(StrGetRange, vec_of_str(js.get(a..b)), want, "a={a} b={b}");
            let want = u.get(a..=b).map(<[u16]>::to_vec);
            ck!(GetRangeIncl, vec_of(s.get(a..=b)), want.clone(), "a={a} b={b}");
            ck!(StrGetRangeIncl, vec_of_str(js.get(a..=b)), want, "a={a} b={b}");
        }
        let want = u.get(a..).map(<[u16]>::to_vec);
        ck!(GetRangeFrom, vec_of(s.get(a..)), want.clone(), "a={a}");
        ck!(StrGetRangeFrom, vec_of_str(js.get(a..)), want, "a={a}");
        let want = u.get(..a).map(<[u16]>::to_vec);
        ck!(GetRangeTo, vec_of(s.get(..a)), want.clone(), "b={a}");
        ck!(StrGetRangeTo, vec_of_str(js.get(..a)), want, "b={a}");
        let want = u.get(..=a).map(<[u16]>::to_vec);
        ck!(GetRangeToIncl, vec_of(s.get(..=a)), want, "b={a}");
    }
    ck!(GetRangeFull, vec_of(s.get(..)), Some(u.to_vec()));
    ck!(StrGetRangeFull, vec_of_str(js.get(..)), Some(u.to_vec()));
    for a in 0..=n + 2 {
        for b in 0..=n + 2 {
            let e = b.min(n);
            let want: Vec<u16> = if a >= e { vec![] } else { u[a..e].to_vec() };
            ck!(Slice, s.slice(a, b).to_vec(), want, "p1={a} p2={b}");
        }
    }
    let mstd = m::to_std_string(u);
    ck!(ToStd, s.to_std_string().ok(), mstd.clone());
    ck!(StrToStd, js.to_std_string().ok(), mstd);
    let mesc = m::escaped(u);
    let mlossy = m::lossy(u);
    ck!(ToStdEscaped, s.to_std_string_escaped(), mesc.clone());
    ck!(ToStdLossy, s.to_std_string_lossy(), mlossy.clone());
    ck!(StrToStdLossy, js.to_std_string_lossy(), mlossy.clone());
    ck!(DisplayEscaped, format!("{}", s.display_escaped()), mesc.clone());
    ck!(DisplayLossy, format!("{}", s.display_lossy()), mlossy.clone());
    ck!(StrDisplayLossy, format!("{}", js.display_lossy()), mlossy);
    ck!(DebugFmt, format!("{s:?}"), format!("JsString({mesc:?})"));
    ck!(WithSurrogates, s.to_std_string_with_surrogates().collect::<Vec<_>>(), m::with_surrogates(u));
    ck!(MapSegId, s.map_valid_segments(|x| x).to_vec(), u.to_vec());
    ck!(MapSegUs, s.map_valid_segments(|x| x + "_").to_vec(), m::map_segments_underscore(u));
    ck!(ToNumber, s.to_number().to_bits(), m::to_number(u).to_bits());
    ck!(StrToNumber, js.to_number().to_bits(), m::to_number(u).to_bits());
    ck!(HashDefault, h_default(s), model_h_default(u));
    ck!(StrHashDefault, h_default(&js), model_h_default(u));
    st.sig_only(Op::HashFx, &h_fx(s));
    st.sig_only(Op::StrHashFx, &h_fx(&js));
    let cl = s.clone();
    ck!(CloneEq, cl == *s && cl.to_vec() == u, true);
    // static-table lookups: membership is a property of the sequence, so it only enters the pairwise signature;
    // a hit must spell the sequence.
    let hit = StaticJsStrings::get_string(&js);
    st.sig_only(Op::StaticLookup, &hit.is_some());
    if let Some(h) = hit {
        ck!(StaticLookup, h.to_vec(), u.to_vec());
    }
    let hit = StaticJsStrings::get_js_str(&js);
    st.sig_only(Op::StaticLookupStr, &hit.is_some());
    if let Some(h) = hit {
        ck!(StaticLookupStr, h.to_vec(), u.to_vec());
    }
    for nd in needles {
        let forms: [Option<JsStr<'_>>; 2] = [Some(JsStr::utf16(&nd.u)), nd.l1.as_deref().map(JsStr::latin1)];
        for (fi, f) in forms.iter().enumerate() {
            let Some(f) = f else { continue };
            let fname = if fi == 0 { "utf16" } else { "latin1" };
            let cxn = &Ctx { ocat: fname, ..*cx };
            for from in 0..=n + 1 {
                let want = m::index_of(u, &nd.u, from);
                st.ck(Op::IndexOf, s.index_of(*f, from), want, cxn, format_args!("needle={:x?} from={from}", nd.u));
                st.ck(Op::StrIndexOf, js.index_of(*f, from), want, cxn, format_args!("needle={:x?} from={from}", nd.u));
            }
            st.ck(Op::StartsWith, s.starts_with(*f), m::starts_with(u, &nd.u), cxn, format_args!("needle={:x?}", nd.u));
            st.ck(Op::EndsWith, s.ends_with(*f), m::ends_with(u, &nd.u), cxn, format_args!("needle={:x?}", nd.u));
            st.ck(Op::StrStartsWith, js.starts_with(*f), m::starts_with(u, &nd.u), cxn, format_args!("needle={:x?}", nd.u));
            st.ck(Op::StrEndsWith, js.ends_with(*f), m::ends_with(u, &nd.u), cxn, format_args!("needle={:x?}", nd.u));
        }
    }
}

/// Operations between two strings (`c1` spells `q`, `c2` spells `w`).
#[inline]
pub fn binary_ops(st: &mut Stats, q: &Seq, c1: &Cons, w: &Seq, c2: &Cons) {
    let cx = &Ctx { u: q, c: c1, w: Some(w), ocat: c2.rep, oname: &c2.name, oi: c2.ci };
    let eq = m::eq(&q.u, &w.u);
    let ord = m::cmp(&q.u, &w.u);
    let (a, b) = (&c1.s, &c2.s);
    let (ja, jb) = (a.as_str(), b.as_str());
    let na = format_args!("");
    st.ck(Op::EqSS, a == b, eq, cx, na);
    st.ck(Op::NeSS, a != b, !eq, cx, na);
    st.ck(Op::CmpSS, a.cmp(b), ord, cx, na);
    st.ck(Op::PCmpSS, a.partial_cmp(b), Some(ord), cx, na);
    st.ck(Op::EqTT, ja == jb, eq, cx, na);
    st.ck(Op::CmpTT, ja.cmp(&jb), ord, cx, na);
    st.ck(Op::PCmpTT, ja.partial_cmp(&jb), Some(ord), cx, na);
    st.ck(Op::EqST, *a == jb, eq, cx, na);
    st.ck(Op::EqTS, ja == *b, eq, cx, na);
    st.ck(Op::XStartsWith, a.starts_with(jb), m::starts_with(&q.u, &w.u), cx, na);
    st.ck(Op::XEndsWith, a.ends_with(jb), m::ends_with(&q.u, &w.u), cx, na);
    st.ck(Op::XIndexOf, a.index_of(jb, 0), m::index_of(&q.u, &w.u, 0), cx, na);
    if q.u == w.u {
        st.ck(Op::HashEqDefault, h_default(a) == h_default(b), true, cx, na);
        st.ck(Op::HashEqFx, h_fx(a) == h_fx(b), true, cx, na);
    }
}

/// Same-sequence container operations: `c1` is the stored key, `c2` the probe.
pub fn container_ops(st: &mut Stats, q: &Seq, cs: &[Cons]) {
    for c1 in cs {
        let mut fm: FxHashMap<JsString, usize> = FxHashMap::default();
        fm.insert(c1.s.clone(), 7);
        let mut hs: HashSet<JsString, BuildHasherDefault<DefaultHasher>> = HashSet::default();
        hs.insert(c1.s.clone());
        let mut bt: BTreeMap<JsString, usize> = BTreeMap::new();
        bt.insert(c1.s.clone(), 7);
        for c2 in cs {
            let cx = &Ctx { u: q, c: c2, w: Some(q), ocat: c1.rep, oname: &c1.name, oi: c1.ci };
            st.ck(Op::FxMapGet, fm.get(&c2.s).copied(), Some(7), cx, format_args!(""));
            st.ck(Op::SipSetHas, hs.contains(&c2.s), true, cx, format_args!(""));
            st.ck(Op::BTreeGet, bt.get(&c2.s).copied(), Some(7), cx, format_args!(""));
        }
    }
}

/// Comparisons with raw `[u16]` / `str` operands spelling `w`.
#[inline]
pub fn raw_ops(st: &mut Stats, q: &Seq, c1: &Cons, w: &Seq) {
    let eq = m::eq(&q.u, &w.u);
    let a = &c1.s;
    let ja = a.as_str();
    let wu = &w.u[..];
    let na = format_args!("");
    {
        let cx = &Ctx { u: q, c: c1, w: Some(w), ocat: "[u16]", oname: "[u16]", oi: 0 };
        st.ck(Op::EqSU, *a == *wu, eq, cx, na);
        st.ck(Op::EqUS, *wu == *a, eq, cx, na);
        st.ck(Op::EqUT, *wu == ja, eq, cx, na);
        macro_rules! arr {
            ($($n:literal),*) => { match wu.len() { $($n => {
                let arr: &[u16; $n] = wu.try_into().unwrap();
                st.ck(Op::EqSA, *a == *arr, eq, cx, na);
                st.ck(Op::EqAS, *arr == *a, eq, cx, na);
            })* _ => {} } };
        }
        arr!(0, 1, 2, 3, 4);
    }
    if let Some(ws) = &w.std {
        let ws: &str = ws.as_str();
        let cx = &Ctx { u: q, c: c1, w: Some(w), ocat: "str", oname: "str", oi: 0 };
        st.ck(Op::EqSStr, *a == *ws, eq, cx, na);
        st.ck(Op::EqStrS, *ws == *a, eq, cx, na);
        st.ck(Op::EqSRefStr, *a == ws, eq, cx, na);
        st.ck(Op::EqTStr, ja == *ws, eq, cx, na);
        st.ck(Op::EqTRefStr, ja == ws, eq, cx, na);
    }
}
