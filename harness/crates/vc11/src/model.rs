//! The reference model: every operation written on a plain `[u16]`, boringly.
//! `PERTURB` deliberately breaks one model operation (sensitivity self-test only; never set by the check proper).
use std::cmp::Ordering;
use std::sync::atomic::{AtomicU8, Ordering as AO};

pub static PERTURB: AtomicU8 = AtomicU8::new(0);
pub const P_NONE: u8 = 0;
pub const P_HASH_LAST: u8 = 1; // model hash ignores the last unit
pub const P_CMP_BYTES: u8 = 2; // model cmp compares little-endian bytes
pub const P_TRIM_SPACE: u8 = 3; // model does not regard 0x20 as whitespace
pub const P_INDEX_FROM: u8 = 4; // model index_of ignores `from`
pub const P_CP_PAIR: u8 = 5; // model never pairs surrogates
pub const P_EQ_PREFIX: u8 = 6; // model equality is "one is a prefix of the other"

pub fn perturb_by_name(n: &str) -> Option<u8> {
    Some(match n {
        "none" => P_NONE,
        "hash_last" => P_HASH_LAST,
        "cmp_bytes" => P_CMP_BYTES,
        "trim_space" => P_TRIM_SPACE,
        "index_from" => P_INDEX_FROM,
        "cp_pair" => P_CP_PAIR,
        "eq_prefix" => P_EQ_PREFIX,
        _ => return None,
    })
}
#[inline]
fn p() -> u8 {
    PERTURB.load(AO::Relaxed)
}

#[derive(Debug, Clone, Copy, PartialEq, Eq, Hash)]
pub enum Cp {
    Uni(u32),
    Lone(u16),
}

/// ECMAScript WhiteSpace + LineTerminator, as code units.
pub fn is_ws(c: u16) -> bool {
    if c == 0x20 && p() == P_TRIM_SPACE {
        return false;
    }
    is_ws_raw(c)
}

/// The unperturbed predicate (used where the harness itself, not the oracle, needs it).
pub fn is_ws_raw(c: u16) -> bool {
    matches!(
        c,
        0x09 | 0x0A | 0x0B | 0x0C | 0x0D | 0x20 | 0xA0 | 0x1680 | 0x2000..=0x200A | 0x2028 | 0x2029 | 0x202F | 0x205F | 0x3000 | 0xFEFF
    )
}

pub fn eq(u: &[u16], w: &[u16]) -> bool {
    if p() == P_EQ_PREFIX {
        let n = u.len().min(w.len());
        return u[..n] == w[..n];
    }
    if u.len() != w.len() {
        return false;
    }
    for i in 0..u.len() {
        if u[i] != w[i] {
            return false;
        }
    }
    true
}

pub fn cmp(u: &[u16], w: &[u16]) -> Ordering {
    if p() == P_CMP_BYTES {
        let a: Vec<u8> = u.iter().flat_map(|c| c.to_le_bytes()).collect();
        let b: Vec<u8> = w.iter().flat_map(|c| c.to_le_bytes()).collect();
        return a.cmp(&b);
    }
    let n = u.len().min(w.len());
    for i in 0..n {
        if u[i] < w[i] {
            return Ordering::Less;
        }
        if u[i] > w[i] {
            return Ordering::Greater;
        }
    }
    u.len().cmp(&w.len())
}

pub fn starts_with(u: &[u16], w: &[u16]) -> bool {
    u.len() >= w.len() && u[..w.len()] == *w
}
pub fn ends_with(u: &[u16], w: &[u16]) -> bool {
    u.len() >= w.len() && u[u.len() - w.len()..] == *w
}

/// StringIndexOf(string, searchValue, fromIndex)
pub fn index_of(u: &[u16], needle: &[u16], from: usize) -> Option<usize> {
    let from = if p() == P_INDEX_FROM { 0 } else { from };
    let (len, sl) = (u.len(), needle.len());
    if sl == 0 {
        return if from <= len { Some(from) } else { None };
    }
    if sl > len {
        return None;
    }
    let mut i = from;
    while i <= len - sl {
        if u[i..i + sl] == *needle {
            return Some(i);
        }
        i += 1;
    }
    None
}

pub fn trim_start(u: &[u16]) -> &[u16] {
    let mut a = 0;
    while a < u.len() && is_ws(u[a]) {
        a += 1;
    }
    &u[a..]
}
pub fn trim_end(u: &[u16]) -> &[u16] {
    let mut b = u.len();
    while b > 0 && is_ws(u[b - 1]) {
        b -= 1;
    }
    &u[..b]
}
pub fn trim(u: &[u16]) -> &[u16] {
    trim_end(trim_start(u))
}

fn is_high(c: u16) -> bool {
    (0xD800..0xDC00).contains(&c)
}
fn is_low(c: u16) -> bool {
    (0xDC00..0xE000).contains(&c)
}

/// CodePointAt(string, position): (code point, units consumed)
pub fn code_point_at(u: &[u16], i: usize) -> (Cp, usize) {
    let c = u[i];
    if !is_high(c) && !is_low(c) {
        return (Cp::Uni(u32::from(c)), 1);
    }
    if is_low(c) || i + 1 == u.len() || p() == P_CP_PAIR {
        return (Cp::Lone(c), 1);
    }
    let d = u[i + 1];
    if !is_low(d) {
        return (Cp::Lone(c), 1);
    }
    (Cp::Uni(0x10000 + ((u32::from(c) - 0xD800) << 10) + (u32::from(d) - 0xDC00)), 2)
}

pub fn code_points(u: &[u16]) -> Vec<Cp> {
    let mut out = vec![];
    let mut i = 0;
    while i < u.len() {
        let (cp, k) = code_point_at(u, i);
        out.push(cp);
        i += k;
    }
    out
}

fn ch(v: u32) -> char {
    char::from_u32(v).expect("model produced a non-scalar")
}

pub fn to_std_string(u: &[u16]) -> Option<String> {
    let mut s = String::new();
    for cp in code_points(u) {
        match cp {
            Cp::Uni(v) => s.push(ch(v)),
            Cp::Lone(_) => return None,
        }
    }
    Some(s)
}
pub fn escaped(u: &[u16]) -> String {
    let mut s = String::new();
    for cp in code_points(u) {
        match cp {
            Cp::Uni(v) => s.push(ch(v)),
            Cp::Lone(x) => s.push_str(&format!("\\u{x:04X}")),
        }
    }
    s
}
pub fn lossy(u: &[u16]) -> String {
    let mut s = String::new();
    for cp in code_points(u) {
        match cp {
            Cp::Uni(v) => s.push(ch(v)),
            Cp::Lone(_) => s.push('\u{FFFD}'),
        }
    }
    s
}
pub fn with_surrogates(u: &[u16]) -> Vec<Result<String, u16>> {
    let mut out: Vec<Result<String, u16>> = vec![];
    let mut cur: Option<String> = None;
    for cp in code_points(u) {
        match cp {
            Cp::Uni(v) => cur.get_or_insert_with(String::new).push(ch(v)),
            Cp::Lone(x) => {
                if let Some(s) = cur.take() {
                    out.push(Ok(s));
                }
                out.push(Err(x));
            }
        }
    }
    if let Some(s) = cur.take() {
        out.push(Ok(s));
    }
    out
}
/// map_valid_segments with f = append '_' to every valid segment
pub fn map_segments_underscore(u: &[u16]) -> Vec<u16> {
    let mut out = vec![];
    for part in with_surrogates(u) {
        match part {
            Ok(s) => {
                out.extend(s.encode_utf16());
                out.push(0x5F);
            }
            Err(x) => out.push(x),
        }
    }
    out
}

/// StringToNumber
pub fn to_number(u: &[u16]) -> f64 {
    let t = trim(u);
    if t.is_empty() {
        return 0.0;
    }
    let mut s = String::new();
    for &c in t {
        if c >= 0x80 {
            return f64::NAN;
        }
        s.push(c as u8 as char);
    }
    let b = s.as_bytes();
    if b.len() >= 2 && b[0] == b'0' {
        let radix = match b[1] {
            b'x' | b'X' => 16,
            b'o' | b'O' => 8,
            b'b' | b'B' => 2,
            _ => 0,
        };
        if radix != 0 {
            let digits = &b[2..];
            if digits.is_empty() {
                return f64::NAN;
            }
            let mut v = 0.0f64;
            for &d in digits {
                match (d as char).to_digit(radix) {
                    Some(x) => v = v * f64::from(radix) + f64::from(x),
                    None => return f64::NAN,
                }
            }
            return v;
        }
    }
    let (neg, rest) = match b[0] {
        b'-' => (true, &s[1..]),
        b'+' => (false, &s[1..]),
        _ => (false, &s[..]),
    };
    let sign = if neg { -1.0 } else { 1.0 };
    if rest == "Infinity" {
        return sign * f64::INFINITY;
    }
    // StrUnsignedDecimalLiteral
    let r = rest.as_bytes();
    let mut i = 0;
    let mut int_digits = 0;
    while i < r.len() && r[i].is_ascii_digit() {
        i += 1;
        int_digits += 1;
    }
    let mut frac_digits = 0;
    if i < r.len() && r[i] == b'.' {
        i += 1;
        while i < r.len() && r[i].is_ascii_digit() {
            i += 1;
            frac_digits += 1;
        }
    }
    if int_digits + frac_digits == 0 {
        return f64::NAN;
    }
    if i < r.len() && (r[i] == b'e' || r[i] == b'E') {
        i += 1;
        if i < r.len() && (r[i] == b'+' || r[i] == b'-') {
            i += 1;
        }
        let mut e = 0;
        while i < r.len() && r[i].is_ascii_digit() {
            i += 1;
            e += 1;
        }
        if e == 0 {
            return f64::NAN;
        }
    }
    if i != r.len() {
        return f64::NAN;
    }
    sign * rest.parse::<f64>().expect("validated decimal literal")
}

/// The hash protocol on a plain slice: std `Hash for [u16]` (length prefix, then the units), except under perturbation.
pub fn hash_units<H: std::hash::Hasher>(u: &[u16], h: &mut H) {
    use std::hash::Hash;
    if p() == P_HASH_LAST && !u.is_empty() {
        u[..u.len() - 1].hash(h);
        // keep the true length out as well: the perturbed model simply forgets the last unit
        return;
    }
    u.hash(h);
}
