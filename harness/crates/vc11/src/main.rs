//! `vc11` — C11: string behaviour depends only on the code-unit sequence.
//!
//! `vc11 explore <quick|thorough|selftest> [--perturb NAME] [--threads N]` prints one JSON line (counters, distinct
//! outcomes per operation, failure buckets with a minimal witness each).
//! `vc11 replay '<json {"u":[..],"w":[..]|null,"op":..,"ctor":..}>'` re-executes the operations on that one case.
#![allow(missing_docs)]
mod ctors;
mod model;
mod ops;
mod stats;

use ctors::{ALPHA_QUICK, ALPHA_THOROUGH, ctors, enumerate, seq_index};
use ops::{Needle, binary_ops, container_ops, raw_ops, single_ops};
use rustc_hash::FxHashMap;
use serde_json::{Value, json};
use stats::{Cons, Ctx, OP_NAMES, Op, Seq, Stats};
use std::sync::Arc;
use std::sync::atomic::Ordering as AO;

struct Plan {
    alpha: &'static [u16],
    seqs: Vec<Seq>,
    /// positions (in `seqs`) of the cross-sequence operand set common to every receiver
    cross: Vec<usize>,
    /// add the one-substitution neighbours of the receiver to the cross set
    neighbours: bool,
    /// cross-sequence operations use every construction of the receiver (else one per representation)
    cross_all_ctors: bool,
    needles: Vec<Needle>,
}

fn needles(alpha: &[u16]) -> Vec<Needle> {
    enumerate(alpha, 2, false)
        .into_iter()
        .map(|s| Needle { l1: s.latin1.clone(), u: s.u })
        .collect()
}

fn plan(tier: &str) -> Plan {
    match tier {
        "quick" | "selftest" => {
            let seqs = enumerate(ALPHA_QUICK, if tier == "quick" { 3 } else { 2 }, true);
            let cross = (0..seqs.len()).collect();
            Plan { alpha: ALPHA_QUICK, seqs, cross, neighbours: false, cross_all_ctors: true, needles: needles(ALPHA_QUICK) }
        }
        "thorough" => {
            let seqs = enumerate(ALPHA_THOROUGH, 4, true);
            let cross = (0..seqs.len()).filter(|&i| seqs[i].extra || seqs[i].u.len() <= 3).collect();
            Plan { alpha: ALPHA_THOROUGH, seqs, cross, neighbours: true, cross_all_ctors: false, needles: needles(ALPHA_THOROUGH) }
        }
        _ => panic!("unknown tier {tier}"),
    }
}

fn n_representative(cs: &[Cons]) -> usize {
    // `ctors(.., true)` starts with the representative set: 4 constructions, 8 when the sequence is Latin-1
    cs.iter().position(|c| c.name == "From<JsStr::utf16>").expect("full ctor list")
}

fn worker(pl: &Plan, t: usize, nthreads: usize, filter: Option<(String, String)>) -> Stats {
    let mut st = Stats::new();
    if let Some((op, ctor)) = filter {
        st.filter_op = Some(op);
        st.filter_ctor = Some(ctor);
    }
    let seqs = &pl.seqs;
    // other-operand constructions (one per representation) of every sequence that can occur as `w`
    let need_all = pl.neighbours;
    let mut in_cross = vec![false; seqs.len()];
    for &i in &pl.cross {
        in_cross[i] = true;
    }
    let mut reps: Vec<Option<Vec<Cons>>> = (0..seqs.len()).map(|_| None).collect();
    for (i, q) in seqs.iter().enumerate() {
        if need_all || in_cross[i] {
            reps[i] = Some(ctors(q, false));
        }
    }
    // one map keyed by one construction of every sequence (the construction rotates with the position)
    let mut global: FxHashMap<boa_string::JsString, usize> = FxHashMap::default();
    for (i, r) in reps.iter().enumerate() {
        if let Some(r) = r {
            global.insert(r[i % r.len()].s.clone(), i);
        }
    }
    for (ui, q) in seqs.iter().enumerate() {
        if ui % nthreads != t {
            continue;
        }
        let cs = ctors(q, true);
        st.states += cs.len() as u64;
        for c in &cs {
            *st.by_kind.entry(format!("{}/{}", c.rep, c.kind)).or_default() += 1;
            let generic = c.name.split("u[").next().unwrap_or(&c.name).to_string();
            *st.by_ctor.entry(generic).or_default() += 1;
        }
        // builder refusals (no string is produced, so these are per sequence)
        if let Some(b) = &q.latin1 {
            let cx = &Ctx { u: q, c: &cs[0], w: None, ocat: "-", oname: "-", oi: 0 };
            let mut lb = boa_string::Latin1JsStringBuilder::new();
            lb.extend_from_slice(b);
            st.ck(Op::Latin1BuilderBuild, lb.build().map(|s| s.to_vec()), if b.is_ascii() { Some(q.u.clone()) } else { None }, cx, format_args!(""));
            let mut cb = boa_string::CommonJsStringBuilder::new();
            for &x in b {
                cb.push(x);
            }
            st.ck(Op::CommonBuildFromLatin1, cb.build_from_latin1().map(|s| s.to_vec()), if b.is_ascii() { Some(q.u.clone()) } else { None }, cx, format_args!(""));
        }
        // single-string operations, with the pairwise signature
        let mut first_sig: Vec<(Op, u64)> = vec![];
        for (k, c) in cs.iter().enumerate() {
            st.sig_on = true;
            st.sig.clear();
            single_ops(&mut st, q, c, &pl.needles);
            st.sig_on = false;
            // signatures of Latin-1-only observations differ legitimately between variants: as_latin1
            let sig: Vec<(Op, u64)> = st.sig.iter().copied().filter(|(op, _)| *op != Op::AsLatin1).collect();
            if k == 0 {
                first_sig = sig;
            } else {
                st.validated += sig.len() as u64;
                st.ops[Op::Pairwise as usize].apps += 1;
                let same = sig == first_sig;
                st.ops[Op::Pairwise as usize].outcomes.insert(u64::from(same));
                if !same {
                    let pos = sig.iter().zip(&first_sig).position(|(a, b)| a != b);
                    let opn = pos.map_or("<length>", |p| OP_NAMES[sig[p].0 as usize]);
                    let cx = &Ctx { u: q, c, w: Some(q), ocat: cs[0].rep, oname: &cs[0].name, oi: 0 };
                    st.fail(Op::Pairwise, format!("differs at {opn}"), "identical results".into(), cx, format_args!("first differing op: {opn}"));
                }
            }
        }
        // same-sequence: every ordered pair of constructions
        for c1 in &cs {
            for c2 in &cs {
                binary_ops(&mut st, q, c1, q, c2);
            }
        }
        container_ops(&mut st, q, &cs);
        for c in &cs {
            let cx = &Ctx { u: q, c, w: Some(q), ocat: "-", oname: "global map", oi: 0 };
            if reps[ui].is_some() {
                st.ck(Op::GlobalMapGet, global.get(&c.s).copied(), Some(ui), cx, format_args!(""));
            }
        }
        // cross-sequence
        let c1set: &[Cons] = if pl.cross_all_ctors { &cs } else { &cs[..n_representative(&cs)] };
        let mut ws: Vec<usize> = pl.cross.clone();
        if pl.neighbours && !q.extra {
            for p in 0..q.u.len() {
                for &a in pl.alpha {
                    if a != q.u[p] {
                        let mut v = q.u.clone();
                        v[p] = a;
                        let wi = seq_index(pl.alpha, &v).expect("neighbour in space");
                        if v.len() > 3 {
                            ws.push(wi);
                        }
                    }
                }
            }
            if q.u.len() > 3 {
                ws.push(ui);
            }
        }
        for &wi in &ws {
            let w = &seqs[wi];
            debug_assert!(wi < seqs.len());
            let r = reps[wi].as_ref().expect("reps built for cross operand");
            for c1 in c1set {
                for c2 in r {
                    binary_ops(&mut st, q, c1, w, c2);
                }
            }
            // raw `[u16]` / `str` operands are cheap: always against every construction of the receiver
            for c1 in &cs {
                raw_ops(&mut st, q, c1, w);
            }
        }
    }
    st
}

fn explore(tier: &str, threads: usize) -> Value {
    let t0 = std::time::Instant::now();
    let pl = Arc::new(plan(tier));
    // sanity of the index arithmetic used for neighbours
    for (i, q) in pl.seqs.iter().enumerate() {
        if !q.extra {
            assert_eq!(seq_index(pl.alpha, &q.u), Some(i));
        }
    }
    let mut hs = vec![];
    for t in 0..threads {
        let pl = Arc::clone(&pl);
        hs.push(std::thread::Builder::new().stack_size(32 << 20).spawn(move || worker(&pl, t, threads, None)).unwrap());
    }
    let mut st = Stats::new();
    for h in hs {
        st.merge(h.join().expect("worker panicked"));
    }
    let mut out = st.to_json();
    let o = out.as_object_mut().unwrap();
    o.insert("tier".into(), json!(tier));
    o.insert("sequences".into(), json!(pl.seqs.len()));
    o.insert("sequences_extra".into(), json!(pl.seqs.iter().filter(|s| s.extra).count()));
    o.insert("sequences_valid_utf16".into(), json!(pl.seqs.iter().filter(|s| s.std.is_some()).count()));
    o.insert("cross_operands".into(), json!(pl.cross.len()));
    o.insert("needles".into(), json!(pl.needles.len()));
    o.insert("alphabet".into(), json!(pl.alpha));
    o.insert("wall_s".into(), json!(t0.elapsed().as_secs_f64()));
    // a few concrete cases
    let mut samples = vec![];
    for &i in &[1usize, 5, 9 * 9 + 9 + 1 + 7 * 9 + 8, pl.seqs.len() - 1] {
        if let Some(q) = pl.seqs.get(i) {
            let cs = ctors(q, true);
            let c = &cs[i % cs.len()];
            samples.push(json!({"u": q.u, "ctor": c.name, "rep": c.rep, "kind": c.kind, "n_constructions": cs.len(),
                                "to_std_string_escaped": c.s.to_std_string_escaped(), "hash": ops::h_default(&c.s)}));
        }
    }
    o.insert("samples".into(), json!(samples));
    out
}

fn replay(arg: &str) -> i32 {
    let v: Value = serde_json::from_str(arg).expect("replay json");
    let units = |x: &Value| -> Vec<u16> { x.as_array().map(|a| a.iter().map(|n| n.as_u64().unwrap() as u16).collect()).unwrap_or_default() };
    let u = units(&v["u"]);
    let mut seqs = vec![Seq::new(u.clone(), false, 0)];
    if v["w"].is_array() {
        let w = units(&v["w"]);
        if w != u {
            seqs.push(Seq::new(w, false, 1));
        }
    }
    let n = seqs.len();
    let pl = Plan { alpha: ALPHA_THOROUGH, seqs, cross: (0..n).collect(), neighbours: false, cross_all_ctors: true, needles: needles(ALPHA_THOROUGH) };
    let op = v["op"].as_str().unwrap_or("").to_string();
    let ctor = v["ctor"].as_str().unwrap_or("").to_string();
    // only the first sequence is the receiver
    // receiver restriction: partition 0 of n handles position 0 only
    let st = worker(&pl, 0, n.max(1), Some((op.clone(), ctor.clone())));
    let j = st.to_json();
    let buckets = j["buckets"].as_array().unwrap();
    println!("case: op={op} ctor={ctor} u={:x?} w={}", u, v["w"]);
    if buckets.is_empty() {
        println!("observed: every application of `{op}` on this case agrees with the Vec<u16> model");
        return 0;
    }
    for b in buckets {
        println!(
            "expected (Vec<u16> model): {}   observed (boa_string): {}   [{} failing applications; class {} / receiver {} / other {}]  witness {}",
            b["want"], b["got"], b["count"], b["class"], b["rep"], b["other"], b["witness"]
        );
    }
    1
}

fn main() {
    let args: Vec<String> = std::env::args().skip(1).collect();
    let mut threads: usize = std::env::var("VERIF_NPROC").ok().and_then(|s| s.parse().ok()).unwrap_or(16);
    let mut i = 2;
    while i < args.len() {
        match args[i].as_str() {
            "--perturb" => {
                let p = model::perturb_by_name(&args[i + 1]).expect("unknown perturbation");
                model::PERTURB.store(p, AO::Relaxed);
                i += 2;
            }
            "--threads" => {
                threads = args[i + 1].parse().expect("threads");
                i += 2;
            }
            other => panic!("unknown argument {other}"),
        }
    }
    match args.first().map(String::as_str) {
        Some("explore") => {
            let out = explore(&args[1], threads.max(1));
            println!("{}", serde_json::to_string(&out).unwrap());
        }
        Some("replay") => std::process::exit(replay(&args[1])),
        _ => {
            eprintln!("usage: vc11 explore <quick|thorough|selftest> [--perturb NAME] [--threads N] | replay <json>");
            std::process::exit(2);
        }
    }
}
