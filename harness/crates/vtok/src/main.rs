//! C02 / C19: bounded-exhaustive enumeration of source texts (token strings, byte strings, program files and their
//! token-level mutants) through parse -> print -> re-parse -> print, plus evaluation of every accepted text.
//!
//! `vtok tokens <K> <first-lo> <first-hi> [eval]`  all strings of 1..K tokens whose first token index is in [lo,hi)
//! `vtok exprtokens <K> <first-lo> <first-hi> [eval]` the same over the expression alphabet, `a` and `b` bound
//! `vtok bytes <L> <first-lo> <first-hi> [eval]`   all strings of 1..L elements of the byte alphabet, same sharding
//! `vtok bytes2 <lo> <hi>`                         all 2-byte strings whose first byte is in [lo,hi) (and 1-byte strings)
//! `vtok file <programs.jsonl> [mutate]`           every program (one JSON string per line) and, with `mutate`, every
//!                                                 single token-level mutation (delete / duplicate / swap / replace)
//! Prints one JSON line with counts and (capped) failures.
#![allow(missing_docs)]
use boa_ast::scope::Scope;
use boa_interner::{Interner, ToInternedString};
use boa_parser::{Parser, Source};
use serde_json::{Value, json};
use std::collections::BTreeMap;

pub const TOKENS: [&str; 66] = [
    "a", "0", "1.5", "4294967295", "1n", "'s'", "`t`", "`${", "}`", "/r/", "(", ")", "{", "}", "[", "]", ";", ",", ".", "...", "=>", "?", "?.", "??", "=", "+=", ":",
    "function", "class", "async", "await", "yield", "let", "var", "const", "if", "else", "for", "in", "of", "while", "do", "switch", "case",
    "break", "continue", "return", "throw", "try", "catch", "finally", "new", "delete", "typeof", "this", "super", "import", "export",
    "static", "get", "#p", "*", "-", "++", "!", "\n",
];
/// second alphabet: operators, unary / keyword operators, division vs regular expression, member access on a number, line breaks.
/// Strings over it are where the printer has to get spacing and parenthesisation right without any help from explicit parentheses.
/// The identifiers `a` and `b` are bound (see `EXPR_ENV`) so that the evaluation of a text and of its printed form tells groupings apart.
pub const TOKENS_EXPR: [&str; 40] = [
    "a", "b", "1", "'s'", "`t`", "/r/g", "(", ")", "[", "]", "{", "}", ",", ";", ".", "?.", "?", ":", "=", "=>", "+", "-", "++", "--", "!",
    "typeof", "delete", "new", "in", "instanceof", "**", "*", "/", "<", "==", "&&", "||", "??", "function", "\n",
];
/// evaluated (as a script of its own) before a text of the expression alphabet and before its printed form
const EXPR_ENV: &str = "var a = function () { print('call a'); return a }; a.valueOf = function () { print('va'); return 2 }; a.a = a; a.b = 3; a.r = 5; a.g = 7; a.s = 11; a.t = 13; a[1] = 17; \
var b = {valueOf: function () { print('vb'); return 3 }, a: 19, b: 23, r: 29, g: 31, 1: 37}; b.self = b; var r = 41, g = 43, s = 47, t = 53;";
/// one element per lexer branch (multi-byte elements are the encodings of U+2028 and of a Latin-1 letter, and invalid UTF-8 bytes)
pub const BYTES: [&[u8]; 27] = [
    b"a", b"0", b".", b"e", b"\"", b"'", b"`", b"\\", b"/", b"*", b"=", b"+", b"-", b"(", b")", b"{", b"}", b"[", b"]", b";", b"\n", b" ",
    b"\xE2\x80\xA8", b"\xC3\xA9", b"\x80", b"\xFF", b"\x00",
];
/// names the grammar itself can introduce without them occurring in the text
const GRAMMAR_NAMES: [&str; 12] = ["", "default", "*default*", "arguments", "eval", "constructor", "prototype", "name", "anonymous", "use strict", "raw", "main"];

#[derive(Default)]
struct Stats {
    total: u64,
    accepted: u64,
    rejected: u64,
    evaluated: u64,
    outcomes: BTreeMap<String, u64>,
    failures: Vec<Value>,
    failure_count: u64,
}
impl Stats {
    fn fail(&mut self, kind: &str, src: &[u8], detail: String) {
        self.failure_count += 1;
        if self.failures.len() < 300 {
            self.failures.push(json!({"kind": kind, "src": String::from_utf8_lossy(src), "bytes": src, "detail": detail}));
        }
    }
}

fn line_col_ok(src: &[u8], line: u32, col: u32) -> bool {
    // positions are 1-based; the end-of-text position may be one past the last line/column
    let text = String::from_utf8_lossy(src);
    let lines: Vec<&str> = text.split(['\n', '\u{2028}', '\u{2029}', '\r']).collect();
    if line == 0 || col == 0 {
        return false;
    }
    if line as usize > lines.len() + 1 {
        return false;
    }
    let len = lines.get(line as usize - 1).map_or(0, |l| l.chars().count());
    (col as usize) <= len + 2
}

fn error_position(e: &boa_parser::Error) -> Option<(u32, u32)> {
    use boa_parser::Error as E;
    match e {
        E::Expected { span, .. } | E::Unexpected { span, .. } => Some((span.start().line_number(), span.start().column_number())),
        E::General { position, .. } => Some((position.line_number(), position.column_number())),
        E::Lex { err } => match err {
            boa_parser::lexer::Error::Syntax(_, p) => Some((p.line_number(), p.column_number())),
            _ => None,
        },
        _ => None,
    }
}

/// parse -> print -> parse -> print; returns Ok(None) if rejected, Ok(Some(printed)) if accepted and consistent
fn round_trip(src: &[u8], st: &mut Stats, check_interned: bool) -> Option<String> {
    let r = std::panic::catch_unwind(|| -> Result<Option<String>, (String, String)> {
        let mut interner = Interner::default();
        let a = match Parser::new(Source::from_bytes(src)).parse_script(&Scope::new_global(), &mut interner) {
            Ok(a) => a,
            Err(e) => {
                if let Some((l, c)) = error_position(&e) {
                    if !line_col_ok(src, l, c) {
                        return Err(("error-position".into(), format!("error at line {l} column {c} is outside the text: {e}")));
                    }
                }
                return Ok(None);
            }
        };
        if check_interned {
            let text: Vec<u16> = String::from_utf8_lossy(src).encode_utf16().collect();
            for s in interner.verif_dynamic_strings() {
                let found = s.is_empty() || text.windows(s.len()).any(|w| w == &s[..]);
                if !found {
                    let name = String::from_utf16_lossy(&s);
                    if !GRAMMAR_NAMES.contains(&name.as_str()) {
                        return Err(("interned-foreign-string".into(), format!("the parser interned {name:?}, which does not occur in the text")));
                    }
                }
            }
        }
        let p = a.to_interned_string(&interner);
        let before = interner.len();
        let b = Parser::new(Source::from_bytes(p.as_bytes()))
            .parse_script(&Scope::new_global(), &mut interner)
            .map_err(|e| ("print-does-not-reparse".to_string(), format!("printed form {p:?} is rejected: {e}")))?;
        let p2 = b.to_interned_string(&interner);
        if interner.len() != before {
            return Err(("interner-grew".into(), format!("re-parsing the printed form {p:?} interned new strings")));
        }
        if p2 != p {
            return Err(("print-not-idempotent".into(), format!("{p:?} prints again as {p2:?}")));
        }
        let c = Parser::new(Source::from_bytes(p2.as_bytes()))
            .parse_script(&Scope::new_global(), &mut interner)
            .map_err(|e| ("print-does-not-reparse".to_string(), format!("second printed form {p2:?} is rejected: {e}")))?;
        if c.to_interned_string(&interner) != p2 {
            return Err(("print-not-idempotent".into(), format!("third print differs for {p2:?}")));
        }
        Ok(Some(p))
    });
    st.total += 1;
    match r {
        Err(_) => {
            st.fail("parser-panic", src, vcore::take_last_panic());
            None
        }
        Ok(Err((k, d))) => {
            st.accepted += 1;
            st.fail(&k, src, d);
            None
        }
        Ok(Ok(None)) => {
            st.rejected += 1;
            None
        }
        Ok(Ok(Some(p))) => {
            st.accepted += 1;
            Some(p)
        }
    }
}

fn outcome_class(c: &str) -> String {
    c.split(' ').next().unwrap_or("").to_string() + if c.starts_with("Throw Error:") { c.split(':').nth(1).unwrap_or("") } else { "" }
}

/// evaluate the text and its printed form; both must end in an allowed outcome and give the same trace
thread_local! { static USE_EXPR_ENV: std::cell::Cell<bool> = const { std::cell::Cell::new(false) }; }
fn run_neutral(text: &str, cfg: &vcore::Cfg) -> Value {
    const NEUTRAL: &str = "Function.prototype.toString = function () { return \"function\" };";
    let r = std::panic::catch_unwind(std::panic::AssertUnwindSafe(|| {
        let mut ctx = vcore::make_context(cfg);
        ctx.eval(boa_engine::Source::from_bytes(NEUTRAL.as_bytes())).expect("neutraliser");
        if USE_EXPR_ENV.with(std::cell::Cell::get) {
            ctx.eval(boa_engine::Source::from_bytes(EXPR_ENV.as_bytes())).expect("expression environment");
        }
        let (lines, completion, _) = vcore::eval_in(&mut ctx, text, cfg);
        json!({"lines": lines, "completion": completion})
    }));
    match r {
        Ok(v) => v,
        Err(_) => {
            vcore::set_mode("");
            let lines = vcore::take_lines();
            json!({"lines": lines, "completion": format!("RustPanic {}", vcore::take_last_panic())})
        }
    }
}

fn eval_both(src: &[u8], printed: &str, st: &mut Stats) {
    let Ok(text) = std::str::from_utf8(src) else { return };
    let cfg = vcore::Cfg { loop_limit: Some(2000), recursion_limit: Some(64), ..vcore::Cfg::default() };
    // the source text of a function is the one thing that legitimately differs between a text and its printed form
    // (`${ a => a }` evaluates to the function's own source): Function.prototype.toString is made constant for both runs
    // (installed by a script of its own, evaluated before the text: prefixing the text would change how it parses)
    let a = run_neutral(text, &cfg);
    let b = run_neutral(printed, &cfg);
    st.evaluated += 1;
    let ca = a["completion"].as_str().unwrap_or("").to_string();
    *st.outcomes.entry(outcome_class(&ca)).or_insert(0) += 1;
    for (r, which) in [(&a, "text"), (&b, "printed form")] {
        let c = r["completion"].as_str().unwrap_or("");
        if c.starts_with("RustPanic") || c.starts_with("EnginePanic") {
            st.fail("engine-failure", src, format!("{which}: {c}"));
        }
    }
    if a["lines"] != b["lines"] || a["completion"] != b["completion"] {
        st.fail("printed-form-evaluates-differently", src, format!("{:?} -> [{} {}] but printed {printed:?} -> [{} {}]", text, a["lines"], a["completion"], b["lines"], b["completion"]));
    }
}

fn enumerate(alphabet: &[&[u8]], sep: &[u8], k: usize, lo: usize, hi: usize, eval: bool, check_interned: bool, st: &mut Stats) {
    let n = alphabet.len();
    for len in 1..=k {
        for first in lo..hi.min(n) {
            let mut idx = vec![0usize; len];
            idx[0] = first;
            'outer: loop {
                let mut src = Vec::with_capacity(len * 6);
                for (j, &i) in idx.iter().enumerate() {
                    if j > 0 {
                        src.extend_from_slice(sep);
                    }
                    src.extend_from_slice(alphabet[i]);
                }
                if let Some(p) = round_trip(&src, st, check_interned) {
                    if eval {
                        eval_both(&src, &p, st);
                    }
                }
                let mut p = len;
                loop {
                    if p == 1 {
                        break 'outer;
                    }
                    p -= 1;
                    idx[p] += 1;
                    if idx[p] < n {
                        break;
                    }
                    idx[p] = 0;
                }
            }
        }
    }
}

fn main() {
    vcore::install_panic_hook();
    let args: Vec<String> = std::env::args().skip(1).collect();
    let mut st = Stats::default();
    match args.first().map(String::as_str) {
        Some("tokens") => {
            let toks: Vec<&[u8]> = TOKENS.iter().map(|t| t.as_bytes()).collect();
            enumerate(&toks, b" ", args[1].parse().unwrap(), args[2].parse().unwrap(), args[3].parse().unwrap(), args.get(4).is_some(), true, &mut st);
        }
        Some("exprtokens") => {
            USE_EXPR_ENV.with(|c| c.set(true));
            let toks: Vec<&[u8]> = TOKENS_EXPR.iter().map(|t| t.as_bytes()).collect();
            enumerate(&toks, b" ", args[1].parse().unwrap(), args[2].parse().unwrap(), args[3].parse().unwrap(), args.get(4).is_some(), true, &mut st);
        }
        Some("bytes") => {
            enumerate(&BYTES, b"", args[1].parse().unwrap(), args[2].parse().unwrap(), args[3].parse().unwrap(), args.get(4).is_some(), false, &mut st);
        }
        Some("bytes2") => {
            let lo: usize = args[1].parse().unwrap();
            let hi: usize = args[2].parse().unwrap();
            for a in lo..hi {
                if let Some(p) = round_trip(&[a as u8], &mut st, false) {
                    eval_both(&[a as u8], &p, &mut st);
                }
                for b in 0..256usize {
                    let src = [a as u8, b as u8];
                    if let Some(p) = round_trip(&src, &mut st, false) {
                        eval_both(&src, &p, &mut st);
                    }
                }
            }
        }
        Some("file") => {
            let mutate = args.get(2).is_some();
            let text = std::fs::read_to_string(&args[1]).expect("read");
            for line in text.lines().filter(|l| !l.is_empty()) {
                let prog: String = serde_json::from_str(line).expect("json string");
                if let Some(p) = round_trip(prog.as_bytes(), &mut st, false) {
                    if !mutate {
                        eval_both(prog.as_bytes(), &p, &mut st);
                    }
                }
                if mutate {
                    let toks: Vec<&str> = prog.split(' ').collect();
                    for i in 0..toks.len() {
                        let mut variants: Vec<Vec<&str>> = Vec::new();
                        let mut d = toks.clone();
                        d.remove(i);
                        variants.push(d);
                        let mut d = toks.clone();
                        d.insert(i, toks[i]);
                        variants.push(d);
                        if i + 1 < toks.len() {
                            let mut d = toks.clone();
                            d.swap(i, i + 1);
                            variants.push(d);
                        }
                        for t in TOKENS {
                            let mut d = toks.clone();
                            d[i] = t;
                            variants.push(d);
                        }
                        for v in variants {
                            let m = v.join(" ");
                            round_trip(m.as_bytes(), &mut st, false);
                        }
                    }
                }
            }
        }
        _ => {
            eprintln!("usage: vtok tokens|exprtokens|bytes <K> <lo> <hi> [eval] | bytes2 <lo> <hi> | file <jsonl> [mutate]");
            std::process::exit(2);
        }
    }
    println!(
        "{}",
        json!({"total": st.total, "accepted": st.accepted, "rejected": st.rejected, "evaluated": st.evaluated, "outcomes": st.outcomes,
               "failure_count": st.failure_count, "failures": st.failures})
    );
}
