//! `vc15` — runner of the C15 check (typed arrays / buffers / DataViews against a byte model).
//!
//! The generic `vrun` jobs plus one custom job kind:
//!
//! `{"kind":"c15","hist":[S0,S1,...],"cfg":CFG}` — ONE fresh context with the usual prelude and one
//! extra host function `__detach(arrayBuffer)` (boa at this revision has no
//! `ArrayBuffer.prototype.transfer`, so the embedder API `JsArrayBuffer::detach` is the only way to
//! reach the detached state); the sources are evaluated in order, result `{"steps":[...]}` exactly
//! like the generic `hist` job.  `__detach` returns the number of bytes released, and throws a
//! `TypeError` for something that is not a (non-shared, still attached) `ArrayBuffer`.
#![allow(missing_docs)]
use boa_engine::{
    Context, JsNativeError, JsResult, JsValue, NativeFunction, js_string, object::builtins::JsArrayBuffer,
};
use serde_json::{Value, json};

fn detach(_: &JsValue, args: &[JsValue], _: &mut Context) -> JsResult<JsValue> {
    let obj = args
        .first()
        .and_then(JsValue::as_object)
        .ok_or_else(|| JsNativeError::typ().with_message("__detach: not an object"))?;
    let buf = JsArrayBuffer::from_object(obj.clone())?;
    let data = buf.detach(&JsValue::undefined())?;
    Ok(JsValue::from(data.len() as f64))
}

fn custom(job: &Value) -> Value {
    let kind = job["kind"].as_str().unwrap_or("");
    assert!(kind == "c15", "unknown job kind {kind}");
    let cfg = vcore::Cfg::from_json(job.get("cfg").unwrap_or(&Value::Null));
    let hist = job["hist"].as_array().expect("hist").clone();
    let mut outs = Vec::new();
    let r = std::panic::catch_unwind(std::panic::AssertUnwindSafe(|| {
        let mut ctx = vcore::make_context(&cfg);
        ctx.register_global_builtin_callable(js_string!("__detach"), 1, NativeFunction::from_fn_ptr(detach))
            .expect("register __detach");
        for h in &hist {
            let src = h.as_str().expect("source string");
            let (lines, completion, _extra) = vcore::eval_in(&mut ctx, src, &cfg);
            outs.push(json!({"lines": lines, "completion": completion}));
        }
        drop(ctx);
    }));
    match r {
        Ok(()) => json!({"steps": outs}),
        Err(_) => {
            vcore::set_mode("");
            outs.push(json!({"lines": vcore::take_lines(), "completion": format!("RustPanic {}", vcore::take_last_panic())}));
            json!({"steps": outs, "poisoned": true})
        }
    }
}

fn main() {
    let args: Vec<String> = std::env::args().skip(1).collect();
    let code = match args.first().map(String::as_str) {
        Some("batch") => vcore::worker::batch_main(&args[1..], Some(custom)),
        _ => {
            eprintln!("usage: vc15 batch <in> <out> [skip]");
            2
        }
    };
    std::process::exit(code);
}
