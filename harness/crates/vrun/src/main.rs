//! `vrun` — the generic binary: batch worker for program / history / multi-configuration jobs, plus the
//! `realms` job kind (several realms inside ONE context, values passed between them by the host).
#![allow(missing_docs)]
use boa_engine::{Context, JsValue, Script, Source, js_string, realm::Realm};
use serde_json::{Value, json};

/// `{"kind":"realms","steps":[{"realm":k,"src":S} | {"pass":{"from":a,"name":"x","to":b,"as":"y"}}],"cfg":{..}}`
/// Realm 0 is the context's default realm; further realms are created on first use (host functions and prelude
/// are installed in each). Each `src` step is parsed and evaluated in its realm; result per step like a case.
fn realms_job(job: &Value) -> Value {
    let cfg = vcore::Cfg::from_json(job.get("cfg").unwrap_or(&Value::Null));
    let mut ctx = vcore::make_context(&cfg);
    let mut realms: Vec<Realm> = vec![ctx.realm().clone()];
    let mut outs = Vec::new();
    for step in job["steps"].as_array().expect("steps") {
        if let Some(p) = step.get("pass") {
            let from = p["from"].as_u64().expect("from") as usize;
            let to = p["to"].as_u64().expect("to") as usize;
            ensure(&mut ctx, &mut realms, from.max(to), &cfg);
            let old = ctx.enter_realm(realms[from].clone());
            let v = ctx
                .global_object()
                .get(js_string!(p["name"].as_str().expect("name")), &mut ctx)
                .unwrap_or_default();
            ctx.enter_realm(realms[to].clone());
            ctx.global_object()
                .set(js_string!(p["as"].as_str().expect("as")), v, false, &mut ctx)
                .expect("set");
            ctx.enter_realm(old);
            outs.push(json!({"lines": [], "completion": "Passed"}));
            continue;
        }
        let k = step["realm"].as_u64().expect("realm") as usize;
        ensure(&mut ctx, &mut realms, k, &cfg);
        let src = step["src"].as_str().expect("src");
        vcore::take_lines();
        let old = ctx.enter_realm(realms[k].clone());
        let completion = match Script::parse(Source::from_bytes(src.as_bytes()), Some(realms[k].clone()), &mut ctx) {
            Err(_) => "EarlySyntaxError".to_string(),
            Ok(s) => {
                let r = s.evaluate(&mut ctx);
                match r {
                    Ok(v) => format!("Value {}", render(&mut ctx, &v)),
                    Err(e) => vcore::completion_of_err(&mut ctx, e),
                }
            }
        };
        let _ = ctx.run_jobs();
        ctx.enter_realm(old);
        outs.push(json!({"lines": vcore::take_lines(), "completion": completion, "x": {"d1": vcore::depths_json(&ctx)}}));
    }
    json!({"steps": outs})
}

/// Render with the `__show` of the realm that is current (each realm has its own prelude).
fn render(ctx: &mut Context, v: &JsValue) -> String {
    let f = ctx.global_object().get(js_string!("__show"), ctx).unwrap_or_default();
    match f.as_callable() {
        Some(f) => f
            .call(&JsValue::undefined(), std::slice::from_ref(v), ctx)
            .ok()
            .and_then(|s| s.to_string(ctx).ok())
            .map_or_else(|| "?".into(), |s| s.to_std_string_escaped()),
        None => v.display().to_string(),
    }
}

fn ensure(ctx: &mut Context, realms: &mut Vec<Realm>, k: usize, cfg: &vcore::Cfg) {
    while realms.len() <= k {
        let r = ctx.create_realm().expect("create_realm");
        let old = ctx.enter_realm(r.clone());
        vcore::install_host(ctx, cfg.prelude, false);
        ctx.enter_realm(old);
        realms.push(r);
    }
}

fn custom(job: &Value) -> Value {
    match job["kind"].as_str().unwrap_or("") {
        "realms" => realms_job(job),
        k => panic!("unknown job kind {k}"),
    }
}

fn main() {
    let args: Vec<String> = std::env::args().skip(1).collect();
    let code = match args.first().map(String::as_str) {
        Some("batch") => vcore::worker::batch_main(&args[1..], Some(custom)),
        Some("one") => {
            // vrun one '<cfg json>' < program
            vcore::install_panic_hook();
            let cfg: Value = args.get(1).map_or(Value::Null, |s| serde_json::from_str(s).expect("cfg"));
            let mut src = String::new();
            std::io::Read::read_to_string(&mut std::io::stdin(), &mut src).expect("stdin");
            let v = vcore::run_case(&src, &vcore::Cfg::from_json(&cfg));
            println!("{}", serde_json::to_string_pretty(&v).unwrap());
            0
        }
        _ => {
            eprintln!("usage: vrun batch <in> <out> [skip] | one [cfg]");
            2
        }
    };
    std::process::exit(code);
}
