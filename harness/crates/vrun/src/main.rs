//! `vrun` — the one binary all checks use.
#![allow(missing_docs)]
use serde_json::Value;

fn custom(job: &Value) -> Value {
    let kind = job["kind"].as_str().unwrap_or("");
    panic!("unknown job kind {kind}");
}

fn main() {
    let args: Vec<String> = std::env::args().skip(1).collect();
    let code = match args.first().map(String::as_str) {
        Some("batch") => vcore::worker::batch_main(&args[1..], Some(custom)),
        Some("one") => {
            // vrun one '<cfg json>' < program
            vcore::install_panic_hook();
            let cfg: Value = args.get(1).map_or(Value::Null, |s| serde_json::from_str(s).expect("cfg"));
            let mut src = String::new();
            std::io::Read::read_to_string(&mut std::io::stdin(), &mut src).expect("stdin");
            let v = vcore::run_case(&src, &vcore::Cfg::from_json(&cfg));
            println!("{}", serde_json::to_string_pretty(&v).unwrap());
            0
        }
        _ => {
            eprintln!("usage: vrun batch <in> <out> [skip] | one [cfg]");
            2
        }
    };
    std::process::exit(code);
}
