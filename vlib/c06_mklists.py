"""C06 authoring-time tool (never run by a check): minimise divergent histories, classify them by root cause and write the
known-list files.

usage:  python3 -m vlib.c06_mklists <tier> <divergences.json> [...]
  divergences.json = [[history, on_trace, off_trace], ...] as dumped by the check when VERIF_C06_DUMP=<file> is set.
Writes findings/C06-<class>.list (tier quick) or findings/C06-<class>.thorough.list (tier thorough; entries that are already
in the quick list are left out) and prints the class table.  The classification is by the 1-minimal failing core of a
history (ops are deleted one at a time while caches-on/off still differ), looked up in RULES.
"""
import json, os, sys, collections
from . import core
from . import c06_gen as G
from .checks import c06


def diverges(hists):
    """For each history: (diverges?, on, off) run alone in a fresh context."""
    jobs = [c06.single_job(h) for h in hists]
    res = core.run_jobs(jobs, chunk=max(1, len(jobs) // 32))
    out = []
    for r in res:
        on, off = c06.single_traces(r)
        out.append((on != off, on, off))
    return out


def minimise(hists):
    """1-minimal cores (deleting any single op makes the divergence disappear or the history end in a non-site)."""
    cur = {tuple(h): tuple(h) for h in hists}          # original -> current core
    cache = {}
    while True:
        cand = []
        for h, c in cur.items():
            for i in range(len(c)):
                d = c[:i] + c[i + 1:]
                if d and G.OPS[d[-1]][0] == "site" and d not in cache:
                    cand.append(d)
        cand = sorted(set(cand))
        if cand:
            for d, (dv, on, off) in zip(cand, diverges(cand)):
                cache[d] = dv
        changed = False
        for h, c in list(cur.items()):
            for i in range(len(c)):
                d = c[:i] + c[i + 1:]
                if d and cache.get(d):
                    cur[h] = d
                    changed = True
                    break
        if not changed:
            return cur


SELFMUT = {"gd_o", "gd_p", "gm_p", "sm_p"}
PROTO_DELETE = {"del_p.a", "del_p.b", "del_OP.a"}
PROTO_DEFINE = {"g_p", "s_p", "gs_p", "f_p", "ro_p", "ne_p"}           # Object.defineProperty(p, "a", ...)
UNIQUE = {"get_G", "set_G", "gr", "gw", "o=U(p)", "big_o", "o=\"xy\"", "G.a=", "ro_G", "g_G", "s_G", "del_G.a"}
OWN_DEFINE = {"G.a=", "gw", "set_G", "g_G", "s_G", "ro_G", "o.a=", "set_o", "setS_o", "g_o", "s_o", "ro_o", "ne_o", "sset_o"}
ATTR_CHANGE = {"ro_G", "g_G", "s_G", "ro_o", "ne_o", "g_o", "s_o"}


def classify(core_h, on):
    """Root-cause class of a 1-minimal failing core (see findings/C06.known for the description of each class)."""
    s = set(core_h)
    panic = str(on[1]).startswith("RustPanic")
    first = next((i for i, x in enumerate(core_h) if G.OPS[x][0] == "site"), len(core_h) - 1)
    pre, mid = set(core_h[:first]), set(core_h[first + 1:-1])
    if s & SELFMUT:
        return "accessor-mutates-layout-during-miss"
    if core_h[-1] in ("slen1_o", "slenN_o") and not (mid & (PROTO_DELETE | PROTO_DEFINE)):
        return "array-length-store-bypasses-ArraySetLength"
    if core_h[-1] in ("sset_o", "sset_p") and "sset_p" in s and "sset_o" in s:
        return "super-set-ignores-receiver"
    if mid & PROTO_DELETE:
        return "panic-after-prototype-delete" if panic else "stale-prototype-slot-after-delete"
    if mid & PROTO_DEFINE:
        return "panic-after-prototype-reconfigure" if panic else "stale-prototype-slot-after-reconfigure"
    if s & UNIQUE:
        if (pre | {core_h[first]}) & OWN_DEFINE and mid & ATTR_CHANGE:
            return "unique-shape-attribute-change-keeps-shape"
        if mid & OWN_DEFINE:
            return "unique-shape-insert-keeps-shape"
    return "unclassified"


def main(argv):
    tier = argv[0]
    div = []
    for f in argv[1:]:
        div += json.load(open(f))
    seen = set()
    uniq = []
    for h, on, off in div:
        k = (tuple(h), json.dumps(on))
        if k not in seen:
            seen.add(k)
            uniq.append((tuple(h), on, off))
    cores = minimise([h for h, _, _ in uniq])
    groups = collections.defaultdict(list)
    core_count = collections.Counter()
    for h, on, off in uniq:
        c = cores[h]
        cls = classify(c, on)
        groups[cls].append((h, on, off, c))
        core_count[(cls, c)] += 1
    fdir = os.path.join(core.ROOT, "findings")
    for cls, items in sorted(groups.items()):
        quick_path = os.path.join(fdir, "C06-%s.list" % cls)
        path = quick_path if tier == "quick" else os.path.join(fdir, "C06-%s.thorough.list" % cls)
        have = set()
        if tier != "quick" and os.path.exists(quick_path):
            have = set(tuple(l.split()[:2]) for l in open(quick_path))
        lines = []
        for h, on, off, c in sorted(items, key=lambda x: (len(x[0]), x[0])):
            ck, ok = core.sha12({"hist": list(h)}), core.sha12(on)
            if (ck, ok) in have:
                continue
            lines.append("%s %s [%s] core=[%s]" % (ck, ok, "; ".join(h), "; ".join(c)))
        if tier != "dry":
            with open(path, "w") as f:
                f.write("\n".join(lines) + ("\n" if lines else ""))
        print("%6d %s -> %s (%d lines)" % (len(items), cls, os.path.relpath(path, core.ROOT), len(lines)))
    print()
    for (cls, c), n in sorted(core_count.items(), key=lambda kv: (kv[0][0], len(kv[0][1]), kv[0][1])):
        print("%-50s %5d  [%s]" % (cls, n, "; ".join(c)))


if __name__ == "__main__":
    main(sys.argv[1:])
