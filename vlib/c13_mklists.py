"""C13 authoring helper (never used by a check run): violation dumps -> known lists.

  VERIF_C13_DUMP=/verif/out/c13/q.txt VERIF_C13_CAP=2 ./check C13 quick      (with the lists / C13.known lines of the class removed)
  VERIF_C13_DUMP=/verif/out/c13/t.txt VERIF_C13_CAP=2 ./check C13 thorough
  python3 vlib/c13_mklists.py out/c13/q.txt --thorough out/c13/t.txt

writes findings/C13-<class>.list (what the quick tier meets) and findings/C13-<class>.thorough.list (the additional entries of the
thorough tier, read by vlib/checks/c13.py through the `known-list-thorough:` lines of findings/C13.known)."""
import sys, collections, os
CLS = {"toPrecision": "toPrecision", "toFixed": "toFixed", "toExponential": "toExponential", "text:parseInt": "parseInt", "parseInt": "parseInt",
       "text:Number": "StringToNumber-nondecimal", "text:unaryPlus": "StringToNumber-nondecimal", "text:JSON.parse": "JSON.parse-range",
       "text:eval": "integer-literal"}
def load(paths):
    out = collections.OrderedDict()
    for path in paths:
        for l in open(path):
            cls, ck, ok, what = l.rstrip("\n").split("\t")
            short = " ".join(what.split(" ")[:3])[:90]
            out.setdefault(CLS[cls], collections.OrderedDict()).setdefault((ck, ok), short)
    return out
i = sys.argv.index("--thorough")
q = load(sys.argv[1:i]); t = load(sys.argv[i + 1:])
for f in sorted(set(q) | set(t)):
    dq = q.get(f, {}); dt = collections.OrderedDict((k, v) for k, v in t.get(f, {}).items() if k not in dq)
    for d, name in ((dq, "/verif/findings/C13-%s.list" % f), (dt, "/verif/findings/C13-%s.thorough.list" % f)):
        if not d:
            if os.path.exists(name): os.unlink(name)
            continue
        with open(name, "w") as fh:
            for (ck, ok), short in d.items():
                fh.write("%s %s %s\n" % (ck, ok, short) if len(d) < 40000 else "%s %s\n" % (ck, ok))
    print(f, len(dq), len(dt))
