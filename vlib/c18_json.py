"""C18 helper: an independent ECMA-404 / RFC 8259 recogniser + evaluator with the ECMAScript JSON.parse value mapping,
a transliteration of JSON.stringify (SerializeJSONProperty / QuoteJSONString / SerializeJSONObject / SerializeJSONArray)
and of InternalizeJSONProperty (reviver walk, with the `context.source` records of the JSON.parse-source-text proposal)
over a small model of JavaScript values, plus the deterministic enumerators of the C18 input families.

Texts are Python `str` objects in which every character is ONE UTF-16 code unit (lone surrogates are ordinary characters
U+D800..U+DFFF; nothing outside the BMP is ever stored as a single character).

Nothing in here touches the engine.  PERTURB (env C18_PERTURB or the module variable) deliberately breaks the model for
the sensitivity demonstration; it must be empty in normal use.
"""
import os, struct

PERTURB = os.environ.get("C18_PERTURB", "")

# ------------------------------------------------------------------------------------------------
# model of JavaScript values
# ------------------------------------------------------------------------------------------------
# null -> None, booleans -> bool, numbers -> float (always float), strings -> str (code units)


class _Undef:
    def __repr__(self):
        return "undefined"


UNDEF = _Undef()


class JSSymbol:
    def __init__(self, desc=""):
        self.desc = desc


class JSBigInt:
    def __init__(self, v):
        self.v = v


class JSThrow(Exception):
    def __init__(self, name):
        Exception.__init__(self, name)
        self.name = name


class Prop:
    __slots__ = ("key", "value", "getter", "enumerable")

    def __init__(self, key, value=UNDEF, getter=None, enumerable=True):
        self.key, self.value, self.getter, self.enumerable = key, value, getter, enumerable


def is_index(k):
    """canonical array index string ("0" .. "4294967294")"""
    if not isinstance(k, str) or not k or len(k) > 10 or not k.isascii() or not k.isdigit():
        return False
    if k != "0" and k[0] == "0":
        return False
    return int(k) <= 4294967294


class Obj:
    """An ordinary object, array, function, primitive wrapper or (trap-less / logging) proxy.
    cls: Object | Array | Function | Number | String | Boolean | BigInt | Symbol | Proxy"""

    def __init__(self, cls="Object", proto=None):
        self.cls = cls
        self.props = []  # insertion order
        self.proto = proto
        self.length = 0  # arrays
        self.prim = None  # wrappers
        self.call = None  # functions: call(this, args) -> value
        self.target = None  # proxies
        self.trace = None  # proxies: label for logging, or None

    # -- construction helpers
    def find(self, key):
        for p in self.props:
            if p.key is key or (isinstance(key, str) and isinstance(p.key, str) and p.key == key):
                return p
        return None

    def define(self, key, value=UNDEF, getter=None, enumerable=True):
        """CreateDataProperty-like: overwrites in place (position kept)."""
        p = self.find(key)
        if p is None:
            self.props.append(Prop(key, value, getter, enumerable))
        else:
            p.value, p.getter, p.enumerable = value, getter, enumerable
        if self.cls == "Array" and is_index(key):
            self.length = max(self.length, int(key) + 1)
        return self

    def delete(self, key):
        self.props = [p for p in self.props if not (isinstance(p.key, str) and p.key == key)]

    def own_keys(self):
        """OrdinaryOwnPropertyKeys: indices ascending, strings in insertion order, symbols in insertion order."""
        idx = sorted((int(p.key) for p in self.props if is_index(p.key)))
        out = [str(i) for i in idx]
        out += [p.key for p in self.props if isinstance(p.key, str) and not is_index(p.key)]
        out += [p.key for p in self.props if not isinstance(p.key, str)]
        return out


def mk_array(items):
    a = Obj("Array")
    for i, v in enumerate(items):
        a.define(str(i), v)
    a.length = len(items)
    return a


def mk_object(pairs):
    o = Obj("Object")
    for k, v in pairs:
        o.define(k, v)
    return o


def mk_function(call=None, name=""):
    f = Obj("Function")
    f.call = call or (lambda this, args: UNDEF)
    return f


def mk_wrapper(cls, prim):
    w = Obj(cls)
    w.prim = prim
    return w


def mk_proxy(target, trace=None):
    p = Obj("Proxy")
    p.target = target
    p.trace = trace
    return p


OBJ_PROTO = Obj("Object")  # %Object.prototype% (no enumerable own properties; its [[Prototype]] is null)
ARR_PROTO = Obj("Array")  # %Array.prototype% is an Array exotic object of length 0
FUNC_PROTO = Obj("Function")  # callable
FUNC_PROTO.call = lambda this, args: UNDEF


def implicit_proto(o):
    if o is OBJ_PROTO:
        return None
    if o is ARR_PROTO or o is FUNC_PROTO:
        return OBJ_PROTO
    if o.cls == "Proxy":
        return implicit_proto(o.target)
    if o.proto is not None:
        return o.proto
    if o.cls == "Array":
        return ARR_PROTO
    if o.cls == "Function":
        return FUNC_PROTO
    return OBJ_PROTO  # (wrappers never reach a property walk: they are unwrapped first)


class Interp:
    """The abstract operations needed by JSON.stringify / the reviver walk, over the model; `log` collects observable side
    effects (getter calls, proxy traps, callbacks) in order."""

    def __init__(self):
        self.log = []
        self.bigint_proto_tojson = None

    def is_callable(self, v):
        if isinstance(v, Obj):
            if v.cls == "Proxy":
                return self.is_callable(v.target)
            return v.cls == "Function"
        return False

    def is_array(self, v):
        if isinstance(v, Obj):
            if v.cls == "Proxy":
                return self.is_array(v.target)
            return v.cls == "Array"
        return False

    def get(self, o, key, receiver=None):
        receiver = o if receiver is None else receiver
        if o.cls == "Proxy":
            if o.trace:
                self.log.append("%s.get:%s" % (o.trace, show_key(key)))
            return self.get(o.target, key, o.target)
        if o.cls == "Array" and key == "length":
            return float(o.length)
        if o.cls == "String" and key == "length":
            return float(len(o.prim))
        p = o.find(key)
        if p is not None:
            if p.getter is not None:
                return p.getter(receiver)
            return p.value
        if o.proto is not None:
            return self.get(o.proto, key, receiver)
        if key == "__proto__":  # the inherited accessor Object.prototype.__proto__ applied to the receiver
            return implicit_proto(receiver)
        return UNDEF

    def getv(self, v, key):
        if isinstance(v, JSBigInt):
            return self.bigint_proto_tojson if (key == "toJSON" and self.bigint_proto_tojson is not None) else UNDEF
        return self.get(v, key)

    def call(self, f, this, args):
        while f.cls == "Proxy":
            f = f.target
        return f.call(this, list(args))

    def length_of_array_like(self, o):
        n = self.get(o, "length")
        return int(n) if isinstance(n, float) and n == n and n > 0 else 0

    def enumerable_own_keys(self, o):
        if o.cls == "Proxy":
            if o.trace:
                self.log.append("%s.ownKeys" % o.trace)
            t = o.target
            keys = [k for k in self._own_keys(t) if isinstance(k, str)]
            out = []
            for k in keys:
                if o.trace:
                    self.log.append("%s.gopd:%s" % (o.trace, show_key(k)))
                if self._enumerable(t, k):
                    out.append(k)
            return out
        return [k for k in self._own_keys(o) if isinstance(k, str) and self._enumerable(o, k)]

    def _own_keys(self, o):
        if o.cls == "Proxy":
            return self._own_keys(o.target)
        ks = o.own_keys()
        if o.cls == "Array":  # "length" is an own non-enumerable property, first among the string keys
            n = sum(1 for k in ks if is_index(k))
            ks = ks[:n] + ["length"] + ks[n:]
        if o.cls == "String":
            ks = [str(i) for i in range(len(o.prim))] + ["length"] + ks
        return ks

    def _enumerable(self, o, k):
        if o.cls == "Proxy":
            return self._enumerable(o.target, k)
        if o.cls in ("Array", "String") and k == "length":
            return False
        if o.cls == "String" and is_index(k) and int(k) < len(o.prim):
            return True
        p = o.find(k)
        return p is not None and p.enumerable

    # ordinary ToPrimitive for wrapper objects (no @@toPrimitive on Number/String wrappers)
    def to_primitive(self, o, hint):
        order = ("toString", "valueOf") if hint == "string" else ("valueOf", "toString")
        for name in order:
            m = self.get(o, name)
            if m is UNDEF:  # built-in method of the wrapper's prototype
                if o.cls == "Number":
                    r = o.prim if name == "valueOf" else js_num_str(o.prim)
                elif o.cls == "String":
                    r = o.prim
                else:
                    raise JSThrow("TypeError")
                return r
            if self.is_callable(m):
                r = self.call(m, o, [])
                if not isinstance(r, Obj):
                    return r
        raise JSThrow("TypeError")

    def to_number(self, v):
        if isinstance(v, Obj):
            v = self.to_primitive(v, "number")
        if isinstance(v, bool):
            return 1.0 if v else 0.0
        if isinstance(v, float):
            return v
        if v is None:
            return 0.0
        if v is UNDEF:
            return float("nan")
        if isinstance(v, str):
            return str_to_number(v)
        raise JSThrow("TypeError")

    def to_string(self, v):
        if isinstance(v, Obj):
            v = self.to_primitive(v, "string")
        if isinstance(v, str):
            return v
        if isinstance(v, bool):
            return "true" if v else "false"
        if isinstance(v, float):
            return js_num_str(v)
        if v is None:
            return "null"
        if v is UNDEF:
            return "undefined"
        raise JSThrow("TypeError")


def str_to_number(s):
    s = s.strip(" \t\n\r")
    if s == "":
        return 0.0
    try:
        return float(s)
    except ValueError:
        return float("nan")


def show_key(k):
    return qs(k) if isinstance(k, str) else "sym"


# ------------------------------------------------------------------------------------------------
# Number::toString (radix 10): shortest round-trip digits come from Python's repr (David Gay, mode 0)
# ------------------------------------------------------------------------------------------------
def js_num_str(x):
    if x != x:
        return "NaN"
    if x == 0:
        return "0"
    if x < 0:
        return "-" + js_num_str(-x)
    if x == float("inf"):
        return "Infinity"
    r = repr(x)
    mant, _, ex = r.partition("e")
    ex = int(ex) if ex else 0
    ip, _, fp = mant.partition(".")
    al = ip + fp
    lead = len(al) - len(al.lstrip("0"))
    n = len(ip) + ex - lead
    digits = al.lstrip("0").rstrip("0")
    k = len(digits)
    if k <= n <= 21:
        return digits + "0" * (n - k)
    if 0 < n <= 21:
        return digits[:n] + "." + digits[n:]
    if -6 < n <= 0:
        return "0." + "0" * (-n) + digits
    e = n - 1
    es = ("+" if e >= 0 else "-") + str(abs(e))
    if k == 1:
        return digits + "e" + es
    return digits[0] + "." + digits[1:] + "e" + es


# ------------------------------------------------------------------------------------------------
# the recogniser / evaluator (ECMA-404 grammar, ECMAScript value mapping)
# ------------------------------------------------------------------------------------------------
class Reject(Exception):
    pass


WS = " \t\n\r"
_ESC = {'"': '"', "\\": "\\", "/": "/", "b": "\b", "f": "\f", "n": "\n", "r": "\r", "t": "\t"}
_HEX = "0123456789abcdefABCDEF"
_DIG = "0123456789"


class Rec:
    """JSON Parse Record of the source-text proposal: value, source (primitives), elements / entries."""
    __slots__ = ("value", "source", "elements", "entries")

    def __init__(self, value, source=None, elements=None, entries=None):
        self.value, self.source, self.elements, self.entries = value, source, elements, entries


class Parser:
    def __init__(self, text, records=False):
        self.t = text
        self.n = len(text)
        self.i = 0
        self.records = records

    def ws(self):
        t, n, i = self.t, self.n, self.i
        while i < n and t[i] in WS:
            i += 1
        self.i = i

    def parse(self):
        self.ws()
        v = self.value()
        self.ws()
        if self.i != self.n:
            raise Reject("trailing")
        return v

    def value(self):
        if self.i >= self.n:
            raise Reject("eof")
        c = self.t[self.i]
        if c == "{":
            return self.obj()
        if c == "[":
            return self.arr()
        if c == '"':
            s0 = self.i
            s = self.string()
            return Rec(s, self.t[s0:self.i]) if self.records else s
        if c == "-" or c in _DIG:
            return self.number()
        for word, val in (("true", True), ("false", False), ("null", None)):
            if self.t.startswith(word, self.i):
                self.i += len(word)
                return Rec(val, word) if self.records else val
        raise Reject("value")

    def number(self):
        t, n, i = self.t, self.n, self.i
        s0 = i
        if i < n and t[i] == "-":
            i += 1
        if i >= n:
            raise Reject("num")
        if t[i] == "0":
            i += 1
            if PERTURB == "leading-zeros":
                while i < n and t[i] in _DIG:
                    i += 1
        elif t[i] in "123456789":
            while i < n and t[i] in _DIG:
                i += 1
        else:
            raise Reject("num")
        if i < n and t[i] == ".":
            i += 1
            if i >= n or t[i] not in _DIG:
                raise Reject("frac")
            while i < n and t[i] in _DIG:
                i += 1
        if i < n and t[i] in "eE":
            i += 1
            if i < n and t[i] in "+-":
                i += 1
            if i >= n or t[i] not in _DIG:
                raise Reject("exp")
            while i < n and t[i] in _DIG:
                i += 1
        self.i = i
        src = t[s0:i]
        v = float(src)  # correctly rounded; overflow -> inf (ECMAScript: Infinity, no error); "-0" -> -0.0
        if PERTURB == "overflow-rejects" and v in (float("inf"), float("-inf")):
            raise Reject("range")
        return Rec(v, src) if self.records else v

    def string(self):
        t, n = self.t, self.n
        i = self.i + 1
        out = []
        while True:
            if i >= n:
                raise Reject("unterminated")
            c = t[i]
            if c == '"':
                self.i = i + 1
                return "".join(out)
            if c == "\\":
                i += 1
                if i >= n:
                    raise Reject("esc")
                e = t[i]
                if e == "u":
                    h = t[i + 1:i + 5]
                    if len(h) != 4 or any(x not in _HEX for x in h):
                        raise Reject("uesc")
                    cu = int(h, 16)
                    if PERTURB == "surrogate-escape-rejects" and 0xD800 <= cu <= 0xDFFF:
                        raise Reject("surrogate")
                    out.append(chr(cu))
                    i += 5
                    continue
                if e not in _ESC:
                    raise Reject("esc")
                out.append(_ESC[e])
                i += 1
                continue
            if ord(c) < 0x20:
                raise Reject("control")
            if PERTURB == "u2028-rejects" and c == "\u2028":
                raise Reject("u2028")
            out.append(c)
            i += 1

    def arr(self):
        self.i += 1
        items = []
        self.ws()
        if self.i < self.n and self.t[self.i] == "]":
            self.i += 1
            return self._mk_arr(items)
        while True:
            self.ws()
            items.append(self.value())
            self.ws()
            if self.i >= self.n:
                raise Reject("eof")
            c = self.t[self.i]
            self.i += 1
            if c == "]":
                return self._mk_arr(items)
            if c != ",":
                raise Reject("arr")

    def _mk_arr(self, items):
        if self.records:
            return Rec(mk_array([r.value for r in items]), None, items, None)
        return mk_array(items)

    def obj(self):
        self.i += 1
        pairs = []
        self.ws()
        if self.i < self.n and self.t[self.i] == "}":
            self.i += 1
            return self._mk_obj(pairs)
        while True:
            self.ws()
            if self.i >= self.n or self.t[self.i] != '"':
                raise Reject("key")
            k = self.string()
            self.ws()
            if self.i >= self.n or self.t[self.i] != ":":
                raise Reject("colon")
            self.i += 1
            self.ws()
            v = self.value()
            pairs.append((k, v))
            self.ws()
            if self.i >= self.n:
                raise Reject("eof")
            c = self.t[self.i]
            self.i += 1
            if c == "}":
                return self._mk_obj(pairs)
            if c != ",":
                raise Reject("obj")

    def _mk_obj(self, pairs):
        # CreateDataProperty in source order: a duplicate key keeps its first position and takes the last value;
        # "__proto__" is an ordinary own data property
        if PERTURB == "dup-first-wins":
            seen = set()
            pairs = [(k, v) for k, v in pairs if not (k in seen or seen.add(k))]
        if self.records:
            return Rec(mk_object([(k, r.value) for k, r in pairs]), None, None, pairs)
        return mk_object(pairs)


def parse(text):
    """-> model value, or raises Reject"""
    return Parser(text).parse()


def parse_records(text):
    return Parser(text, records=True).parse()


def accepts(text):
    try:
        Parser(text).parse()
        return True
    except Reject:
        return False


# ------------------------------------------------------------------------------------------------
# canonical dump (mirrored by D() in the JS driver)
# ------------------------------------------------------------------------------------------------
def qs(s):
    out = ['"']
    for ch in s:
        c = ord(ch)
        if c == 34 or c == 92:
            out.append("\\" + ch)
        elif 32 <= c < 127:
            out.append(ch)
        else:
            out.append("\\u%04x" % c)
    out.append('"')
    return "".join(out)


def unqs(s):
    """inverse of qs (for replay files / debugging)"""
    out = []
    i = 1
    while i < len(s) - 1:
        if s[i] == "\\":
            if s[i + 1] == "u":
                out.append(chr(int(s[i + 2:i + 6], 16)))
                i += 6
            else:
                out.append(s[i + 1])
                i += 2
        else:
            out.append(s[i])
            i += 1
    return "".join(out)


def dump(v):
    if v is None:
        return "null"
    if v is True:
        return "T"
    if v is False:
        return "F"
    if isinstance(v, float):
        return "n" + struct.pack(">d", v).hex()
    if isinstance(v, str):
        return qs(v)
    if v is UNDEF:
        return "U"
    if isinstance(v, Obj):
        if v.cls == "Array":
            parts = []
            for i in range(v.length):
                p = v.find(str(i))
                parts.append("<hole>" if p is None else dump(p.value))
            extra = [k for k in v.own_keys() if not is_index(k)]
            return ("!keys" if extra else "") + "[" + ",".join(parts) + "]"
        if v.cls == "Object":
            return "{" + ",".join(qs(k) + ":" + dump(v.find(k).value) for k in v.own_keys()) + "}"
    return "?" + type(v).__name__


# ------------------------------------------------------------------------------------------------
# JSON.stringify
# ------------------------------------------------------------------------------------------------
def quote_json_string(s):
    out = ['"']
    n = len(s)
    i = 0
    while i < n:
        ch = s[i]
        c = ord(ch)
        if ch == "\b":
            out.append("\\b")
        elif ch == "\t":
            out.append("\\t")
        elif ch == "\n":
            out.append("\\n")
        elif ch == "\f":
            out.append("\\f")
        elif ch == "\r":
            out.append("\\r")
        elif ch == '"':
            out.append('\\"')
        elif ch == "\\":
            out.append("\\\\")
        elif c < 0x20:
            out.append("\\u%04x" % c)
        elif 0xD800 <= c <= 0xDBFF and i + 1 < n and 0xDC00 <= ord(s[i + 1]) <= 0xDFFF:
            out.append(ch + s[i + 1])  # a well-formed pair is copied
            i += 1
        elif 0xD800 <= c <= 0xDFFF:
            out.append("\\u%04x" % c)  # well-formed JSON.stringify: lone surrogates are escaped
        elif PERTURB == "u2028-escaped" and c == 0x2028:
            out.append("\\u2028")
        else:
            out.append(ch)
        i += 1
    out.append('"')
    return "".join(out)


class StringifyState:
    def __init__(self):
        self.replacer_function = None
        self.property_list = None
        self.stack = []
        self.indent = ""
        self.gap = ""


def stringify(I, value, replacer=UNDEF, space=UNDEF):
    """JSON.stringify(value, replacer, space) over the model; returns str or UNDEF; raises JSThrow."""
    st = StringifyState()
    if isinstance(replacer, Obj):
        if I.is_callable(replacer):
            st.replacer_function = replacer
        elif I.is_array(replacer):
            pl = []
            n = I.length_of_array_like(replacer)
            for k in range(n):
                v = I.get(replacer, str(k))
                item = UNDEF
                if isinstance(v, str):
                    item = v
                elif isinstance(v, float):
                    item = js_num_str(v)
                elif isinstance(v, Obj) and v.cls in ("String", "Number"):
                    item = I.to_string(v)
                if item is not UNDEF and item not in pl:
                    pl.append(item)
            st.property_list = pl
    if isinstance(space, Obj):
        if space.cls == "Number":
            space = I.to_number(space)
        elif space.cls == "String":
            space = I.to_string(space)
    if isinstance(space, float):
        if space != space:
            m = 0
        elif space in (float("inf"), float("-inf")):
            m = 10 if space > 0 else 0
        else:
            m = min(10, int(space))  # ToIntegerOrInfinity truncates towards zero
        st.gap = " " * m if m >= 1 else ""
        if PERTURB == "no-gap-clamp" and space == space and space > 10 and space != float("inf"):
            st.gap = " " * int(space)
    elif isinstance(space, str):
        st.gap = space[:10]
    wrapper = mk_object([("", value)])
    return _ser_property(I, st, "", wrapper)


def _ser_property(I, st, key, holder):
    value = I.get(holder, key)
    if isinstance(value, (Obj, JSBigInt)):
        tj = I.getv(value, "toJSON")
        if I.is_callable(tj):
            value = I.call(tj, value, [key])
    if st.replacer_function is not None:
        value = I.call(st.replacer_function, holder, [key, value])
    if isinstance(value, Obj):
        if value.cls == "Number":
            value = I.to_number(value)
        elif value.cls == "String":
            value = I.to_string(value)
        elif value.cls in ("Boolean", "BigInt"):
            value = value.prim
    if value is None:
        return "null"
    if value is True:
        return "true"
    if value is False:
        return "false"
    if isinstance(value, str):
        return quote_json_string(value)
    if isinstance(value, float):
        if value == value and value not in (float("inf"), float("-inf")):
            return js_num_str(value)
        return "null"
    if isinstance(value, JSBigInt):
        raise JSThrow("TypeError")
    if isinstance(value, Obj) and not I.is_callable(value):
        if I.is_array(value):
            return _ser_array(I, st, value)
        return _ser_object(I, st, value)
    return UNDEF


def _ser_object(I, st, value):
    if any(x is value for x in st.stack):
        raise JSThrow("TypeError")
    st.stack.append(value)
    stepback = st.indent
    st.indent = st.indent + st.gap
    K = st.property_list if st.property_list is not None else I.enumerable_own_keys(value)
    partial = []
    for P in K:
        sp = _ser_property(I, st, P, value)
        if sp is not UNDEF:
            member = quote_json_string(P) + ":"
            if st.gap != "":
                member += " "
            partial.append(member + sp)
    if not partial:
        final = "{}"
    elif st.gap == "":
        final = "{" + ",".join(partial) + "}"
    else:
        sep = ",\n" + st.indent
        final = "{\n" + st.indent + sep.join(partial) + "\n" + stepback + "}"
    st.stack.pop()
    st.indent = stepback
    return final


def _ser_array(I, st, value):
    if any(x is value for x in st.stack):
        raise JSThrow("TypeError")
    st.stack.append(value)
    stepback = st.indent
    st.indent = st.indent + st.gap
    partial = []
    n = I.length_of_array_like(value)
    for i in range(n):
        sp = _ser_property(I, st, str(i), value)
        partial.append("null" if sp is UNDEF else sp)
    if not partial:
        final = "[]"
    elif st.gap == "":
        final = "[" + ",".join(partial) + "]"
    else:
        sep = ",\n" + st.indent
        final = "[\n" + st.indent + sep.join(partial) + "\n" + stepback + "]"
    st.stack.pop()
    st.indent = stepback
    return final


# ------------------------------------------------------------------------------------------------
# JSON.parse with reviver: InternalizeJSONProperty with parse records (source-text proposal)
# ------------------------------------------------------------------------------------------------
def same_value(a, b):
    if isinstance(a, Obj) or isinstance(b, Obj):
        return a is b
    if type(a) is not type(b):
        return False
    if isinstance(a, float):
        if a != a and b != b:
            return True
        return struct.pack(">d", a) == struct.pack(">d", b)
    return a == b


def internalize(I, holder, name, reviver_py, rec):
    """reviver_py(holder, name, val, source_or_None) -> new value (UNDEF deletes).  `rec`: Rec or None."""
    val = I.get(holder, name)
    source = None
    elements, entries = [], []
    if rec is not None and same_value(rec.value, val):
        if not isinstance(val, Obj):
            source = rec.source
        elements = rec.elements or []
        entries = rec.entries or []
    if isinstance(val, Obj):
        if I.is_array(val):
            n = I.length_of_array_like(val)
            for i in range(n):
                er = elements[i] if i < len(elements) else None
                ne = internalize(I, val, str(i), reviver_py, er)
                if ne is UNDEF:
                    val.delete(str(i))
                else:
                    val.define(str(i), ne)
        else:
            for P in I.enumerable_own_keys(val):
                er = None
                for k, r in entries:  # the last entry with that key (it produced the value)
                    if k == P:
                        er = r
                ne = internalize(I, val, P, reviver_py, er)
                if ne is UNDEF:
                    val.delete(P)
                else:
                    val.define(P, ne)
    return reviver_py(holder, name, val, source)


def parse_with_reviver(text, reviver_py):
    I = Interp()
    rec = parse_records(text)
    root = mk_object([("", rec.value)])
    return internalize(I, root, "", reviver_py, rec)


# ------------------------------------------------------------------------------------------------
# input families
# ------------------------------------------------------------------------------------------------
# (a) characters.  The task's alphabet plus l, s, f, b so that null / false / \b / \f are reachable.
ALPHABET = [ord(c) for c in '{}[],:"\\/u019-+.eEtrnalsfb \n\t'] + [0x0001, 0x2028, 0xD800, 0x00E9]

# (b) tokens (uniquely decodable: no two token sequences give the same text)
TOKENS = ["{", "}", "[", "]", ",", ":", '"k"', '"__proto__"', '""', '"\\ud800"', "0", "-0", "1e400", "1E-400", "01", "1.", ".5",
          "true", "null", "NaN", " "]


def text_a(l, idx):
    cs = []
    na = len(ALPHABET)
    for _ in range(l):
        cs.append(ALPHABET[idx % na])
        idx //= na
    return "".join(map(chr, reversed(cs)))


def text_b(l, idx):
    ts = []
    nt = len(TOKENS)
    for _ in range(l):
        ts.append(TOKENS[idx % nt])
        idx //= nt
    return "".join(reversed(ts))


# (d) value texts
SCALARS = ["0", "-0", "1e21", "1e-7", "5e-324", "9007199254740993", '""', '" "', '"\\ud800"', '"\\"\\\\"', "true", "null"]
KEYS = ['"a"', '""', '"__proto__"', '"1"', '"\\ud800"']


def value_texts(max_nodes):
    """-> list over n=1..max_nodes of lists of (json_text, js_expression) with exactly n nodes; deterministic order.
    The JS expression builds the same value with computed keys (so that "__proto__" is an own property)."""
    V = [None, [(s, s) for s in SCALARS] + [("[]", "[]"), ("{}", "({})")]]
    for n in range(2, max_nodes + 1):
        # sequences of children with total node count m: seqA[m] (array children), seqO[m] (keyed children)
        seqA = {0: [("", "")]}
        seqO = {0: [("", "")]}
        for m in range(1, n):
            la, lo = [], []
            for j in range(1, m + 1):
                for (ht, hj) in V[j]:
                    hj_in = hj[1:-1] if hj.startswith("({") else hj  # nested objects need no parentheses
                    for (tt, tj) in seqA[m - j]:
                        la.append((ht + ("," + tt if tt else ""), hj_in + ("," + tj if tj else "")))
                    for k in KEYS:
                        for (tt, tj) in seqO[m - j]:
                            lo.append((k + ":" + ht + ("," + tt if tt else ""), "[" + k + "]:" + hj_in + ("," + tj if tj else "")))
            seqA[m], seqO[m] = la, lo
        V.append([("[" + t + "]", "[" + j + "]") for t, j in seqA[n - 1]] + [("{" + t + "}", "({" + j + "})") for t, j in seqO[n - 1]])
    return V[1:]
