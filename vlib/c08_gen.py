"""C08 program families (deterministic generators, no randomness).

Every program is built from a small table of pieces; the same template yields the RUNAWAY variant (bound None)
and the UNDER-LIMIT variants (terminating bound N).  Markers printed with `__emit` (no prelude: the prelude
itself needs calls and loops and would trip small limits):

    caught:<lvl> finally:<lvl> after:<lvl>      lvl = in (the activation that loops / recurses), out (its caller)
    after:top                                   last statement of the script (recursion family)

`chain` says which activation chain hits the limit: "sync" = the script evaluation itself (every marker is
forbidden after the limit point, the error must come out of the evaluation), "job" = a promise job started by the
script (the synchronous part legitimately finishes and prints `sync_lines`; the error must come out of run_jobs).
"""
import json

E = lambda what, lvl: '__emit("%s:%s");' % (what, lvl)


def wrap(flavour, stmt, lvl):
    """try-statement flavours around `stmt`."""
    if flavour == "none":
        return stmt
    if flavour == "tc":
        return "try { %s } catch (e) { %s }" % (stmt, E("caught", lvl))
    if flavour == "tf":
        return "try { %s } finally { %s }" % (stmt, E("finally", lvl))
    if flavour == "tcf":
        return "try { %s } catch (e) { %s } finally { %s }" % (stmt, E("caught", lvl), E("finally", lvl))
    if flavour == "n2":  # two nested
        return "try { try { %s } finally { %s } } catch (e) { %s }" % (stmt, E("finally", lvl), E("caught", lvl))
    if flavour == "tfb":  # a finally that discards the completion (would swallow any ordinary exception)
        return "LB%s: try { %s } finally { %s break LB%s; }" % (lvl, stmt, E("finally", lvl), lvl)
    raise ValueError(flavour)


def sync_lines_of(flavour, lvl):
    """Lines printed by wrap(flavour, <statement that completes normally>)."""
    return [("finally:%s" % lvl)] if flavour in ("tf", "tcf", "n2", "tfb") else []


WRAPS_QUICK = [("none", "none"), ("tc", "none"), ("tf", "none"), ("tcf", "none"), ("none", "tc"), ("tf", "tc"), ("n2", "none")]
WRAPS_FULL = [(i, o) for i in ("none", "tc", "tf", "tcf", "n2", "tfb") for o in ("none", "tc", "tf", "tcf")]

# ------------------------------------------------------------------------------------------------
# loop family
# ------------------------------------------------------------------------------------------------
BODIES = {
    "plain": "",
    "trycatch": "try { null.x; } catch (e2) { }",
    "closure": "var h = function(){ return n; };",
    "trycont": "try { continue; } finally { }",
}

LOOP_FORMS = ["while", "dowhile", "for_ever", "for_cond", "for_let", "forin", "forof_arr", "forof_gen", "forof_iter",
              "forawait_async", "forawait_sync", "lab_while", "lab_nested", "in_switch", "in_finally", "in_catch", "nested"]
LOOP_FORMS_QUICK = ["while", "dowhile", "for_ever", "for_cond", "forin", "forof_arr", "forof_gen", "forof_iter",
                    "forawait_async", "lab_nested", "in_switch", "in_finally", "nested"]
TAIL_FORMS = ("lab_while", "lab_nested", "nested")  # a statement follows B in the body: `continue` in B would skip it
AWAIT_FORMS = ("forawait_async", "forawait_sync")


def loop_src(form, N, body, L):
    """(statements) of one loop; N None = never terminates (for-in: more keys than any limit in the grid allows).
    The body calls __tick() exactly once per iteration and counts in `n`."""
    inf = N is None
    B = BODIES[body]
    T = "__tick(); n++;"
    c = "true" if inf else "n < %d" % N
    pre = "" if inf else "if (n >= %d) break;" % N
    s = "var n = 0; "
    if form == "while":
        s += "while (%s) { %s %s }" % (c, T, B)
    elif form == "dowhile":
        s += "do { %s %s } while (%s);" % (T, B, c)
    elif form == "for_ever":
        s += "for (;;) { %s %s %s }" % (pre, T, B)
    elif form == "for_cond":
        s += "for (var i = 0; %s; i++) { %s %s }" % ("i >= 0" if inf else c, T, B)
    elif form == "for_let":
        s += "var fs = []; for (let i = 0; %s; i++) { %s fs[0] = function(){ return i; }; %s }" % ("i >= 0" if inf else c, T, B)
    elif form == "forin":
        k = (L + 5) if inf else N
        s += "for (var k in {%s}) { %s %s }" % (",".join("k%d:1" % i for i in range(k)), T, B)
    elif form == "forof_arr":
        grow = "arr.push(1);" if inf else "if (n < %d) arr.push(1);" % N
        s += "var arr = [%s]; for (var x of arr) { %s %s %s }" % ("" if N == 0 else "1", T, grow, B)
    elif form == "forof_gen":
        s += "var m = 0; function* g(){ while (%s) { m++; yield 1; } } for (var x of g()) { %s %s }" % ("true" if inf else "m < %d" % N, T, B)
    elif form == "forof_iter":
        s += ("var it = { [Symbol.iterator]: function(){ return this; }, next: function(){ return { done: %s, value: 1 }; } }; "
              "for (var x of it) { %s %s }") % ("false" if inf else "n >= %d" % N, T, B)
    elif form == "forawait_async":
        s += ("var ait = { [Symbol.asyncIterator]: function(){ return this; }, next: function(){ return Promise.resolve({ done: %s, value: 1 }); } }; "
              "for await (var x of ait) { %s %s }") % ("false" if inf else "n >= %d" % N, T, B)
    elif form == "forawait_sync":
        s += ("var it = { [Symbol.iterator]: function(){ return this; }, next: function(){ return { done: %s, value: 1 }; } }; "
              "for await (var x of it) { %s %s }") % ("false" if inf else "n >= %d" % N, T, B)
    elif form == "lab_while":
        s += "L1: while (%s) { %s %s continue L1; }" % (c, T, B)
    elif form == "lab_nested":
        s += "L1: for (;;) { for (;;) { %s %s %s continue L1; } }" % ("" if inf else "if (n >= %d) break L1;" % N, T, B)
    elif form == "in_switch":
        s += "switch (1) { case 1: while (%s) { %s %s } }" % (c, T, B)
    elif form == "in_finally":
        s += "try { } finally { while (%s) { %s %s } }" % (c, T, B)
    elif form == "in_catch":
        s += "try { throw 1; } catch (e1) { while (%s) { %s %s } }" % (c, T, B)
    elif form == "nested":
        s += "while (%s) { for (;;) { %s %s break; } }" % (c, T, B)
    else:
        raise ValueError(form)
    return s


def loop_ticks(form, N):
    return max(N, 1) if form == "dowhile" else N


# kind -> (chain, needs_async_ok, has_caller, entry)
LOOP_KINDS = {
    "script": ("sync", False, False, "script"),
    "script_async1": ("sync", False, False, "async:1"),
    "script_async64": ("sync", False, False, "async:64"),
    "main": ("sync", False, False, "main"),
    "function": ("sync", False, True, "script"),
    "arrow": ("sync", False, True, "script"),
    "method": ("sync", False, True, "script"),
    "getter": ("sync", False, True, "script"),
    "ctor": ("sync", False, True, "script"),
    "static_block": ("sync", False, True, "script"),
    "generator": ("sync", False, True, "script"),
    "eval_direct": ("sync", False, True, "script"),
    "eval_indirect": ("sync", False, True, "script"),
    "async_pre": ("sync", True, True, "script"),
    "async_post": ("job", True, True, "script"),
    "async_arrow_post": ("job", True, True, "script"),
    "job": ("job", False, True, "script"),
    "asyncgen_pre": ("sync", True, True, "script"),
    "asyncgen_post": ("job", True, True, "script"),
}
LOOP_KINDS_QUICK = ["script", "main", "function", "arrow", "method", "getter", "generator", "eval_direct", "async_pre", "async_post", "job"]


def kind_src(kind, S, w_out):
    """Program that runs statements S inside an activation of the given kind; the invocation is wrapped by w_out."""
    def call(c):
        return wrap(w_out, c, "out") + " " + E("after", "out")
    if kind in ("script", "script_async1", "script_async64"):
        return S
    if kind == "main":
        return "function __main(){ %s }" % S
    if kind == "function":
        return "function f(){ %s } %s" % (S, call("f();"))
    if kind == "arrow":
        return "var f = () => { %s }; %s" % (S, call("f();"))
    if kind == "method":
        return "class C { m(){ %s } } %s" % (S, call("new C().m();"))
    if kind == "getter":
        return "var o = { get x(){ %s return 1; } }; %s" % (S, call("o.x;"))
    if kind == "ctor":
        return "function F(){ %s } %s" % (S, call("new F();"))
    if kind == "static_block":
        return call("(class C { static { %s } });" % S)
    if kind == "generator":
        return "function* f(){ %s yield 1; } %s" % (S, call("f().next();"))
    if kind == "eval_direct":
        return call("eval(%s);" % json.dumps(S))
    if kind == "eval_indirect":
        return call("(0, eval)(%s);" % json.dumps(S))
    if kind == "async_pre":
        return "async function f(){ %s await 0; } %s" % (S, call("f();"))
    if kind == "async_post":
        return "async function f(){ await 0; %s } %s" % (S, call("f();"))
    if kind == "async_arrow_post":
        return "var f = async () => { await 0; %s }; %s" % (S, call("f();"))
    if kind == "job":
        return call("Promise.resolve().then(function(){ %s });" % S)
    if kind == "asyncgen_pre":
        return "async function* f(){ %s yield 1; } %s" % (S, call("f().next();"))
    if kind == "asyncgen_post":
        return "async function* f(){ await 0; %s yield 1; } %s" % (S, call("f().next();"))
    raise ValueError(kind)


def loop_program(form, kind, w_in, w_out, body, N, L):
    """-> dict(src, entry, chain, sync_lines) or None when the combination is not a valid / meaningful program."""
    chain, async_ok, has_caller, entry = LOOP_KINDS[kind]
    if form in AWAIT_FORMS:
        if not async_ok:
            return None
        chain = "job"  # the loop continues in promise jobs after its first await
    if not has_caller and w_out != "none":
        return None
    if body == "trycont" and form in TAIL_FORMS:
        return None
    S = wrap(w_in, loop_src(form, N, body, L), "in") + " " + E("after", "in")
    src = kind_src(kind, S, w_out)
    sync = (sync_lines_of(w_out, "out") + ["after:out"]) if has_caller else []
    return {"src": src, "entry": entry, "chain": chain, "sync_lines": sync if chain == "job" else []}


# ------------------------------------------------------------------------------------------------
# recursion family: name -> (declarations with BODY, the re-entering statement, the first call, return expression)
# ------------------------------------------------------------------------------------------------
ITER = "var it = { [Symbol.iterator]: function(){ return this; }, next: function(){ BODY } };"
ROUTES = [
    ("direct", "function f(){ BODY }", "f();", "f();", "0"),
    ("mutual", "function f(){ BODY } function b(){ return f(); }", "b();", "f();", "0"),
    ("new", "function F(){ BODY }", "new F();", "new F();", ""),
    ("class_ctor", "class A { constructor(){ BODY } }", "new A();", "new A();", ""),
    ("getter", "var o = { get x(){ BODY } };", "o.x;", "o.x;", "0"),
    ("setter", "var o = { set x(v){ BODY } };", "o.x = 1;", "o.x = 1;", ""),
    ("proxy_get", "var p = new Proxy({}, { get: function(t, k){ BODY } });", "p.a;", "p.a;", "0"),
    ("proxy_apply", "var p = new Proxy(function(){}, { apply: function(){ BODY } });", "p();", "p();", "0"),
    ("valueof_same", "var o = { valueOf: function(){ BODY } };", "o + 1;", "o + 1;", "0"),
    ("valueof_fresh", "function mk(){ return { valueOf: function(){ BODY } }; }", "mk() + 1;", "mk() + 1;", "0"),
    ("tostring_fresh", "function mk(){ return { toString: function(){ BODY } }; }", "`${mk()}`;", "`${mk()}`;", '"s"'),
    ("toprimitive", "function mk(){ return { [Symbol.toPrimitive]: function(){ BODY } }; }", "+mk();", "+mk();", "0"),
    ("iter_spread", ITER, "[...it];", "[...it];", "{ done: true }"),
    ("iter_from", ITER, "Array.from(it);", "Array.from(it);", "{ done: true }"),
    ("generator", "function* f(){ BODY }", "f().next();", "f().next();", "0"),
    ("map", "function f(){ BODY }", "[1].map(f);", "f();", "0"),
    ("sort", "function f(){ BODY }", "[2, 1].sort(f);", "f();", "0"),
    ("replace_cb", "function f(){ BODY }", '"a".replace("a", f);', "f();", '"b"'),
    ("tojson", "var o = { toJSON: function(){ BODY } };", "JSON.stringify(o);", "JSON.stringify(o);", "0"),
    ("call", "function f(){ BODY }", "f.call(null);", "f();", "0"),
    ("apply", "function f(){ BODY }", "f.apply(null, []);", "f();", "0"),
    ("bind", "function f(){ BODY }", "f.bind(null)();", "f();", "0"),
    ("reflect_apply", "function f(){ BODY }", "Reflect.apply(f, null, []);", "f();", "0"),
    ("reflect_construct", "function F(){ BODY }", "Reflect.construct(F, []);", "new F();", ""),
    ("eval_indirect", "function f(){ BODY }", '(0, eval)("f()");', "f();", "0"),
    ("eval_direct", "function f(){ BODY }", 'eval("f()");', "f();", "0"),
    ("fn_ctor", "function f(){ BODY }", 'new Function("f()")();', "f();", "0"),
    ("tagged", "function f(){ BODY }", "f`x`;", "f();", "0"),
    # stack-hungry activations (the stack-size limit is the binding one)
    ("fat", "function f(a1, a2, a3, a4, a5, a6, a7, a8){ var v1 = a1, v2 = a2, v3 = a3, v4 = a4, v5 = a5, v6 = a6, v7 = a7, v8 = a8; BODY }",
     "f(1, 2, 3, 4, 5, 6, 7, 8);", "f(1, 2, 3, 4, 5, 6, 7, 8);", "0"),
    ("fat_apply", "var args = [1,2,3,4,5,6,7,8,9,10,11,12,13,14,15,16,17,18,19,20]; function f(){ BODY }", "f.apply(null, args);", "f.apply(null, args);", "0"),
    ("spread_grow", "var args = [1]; function f(){ BODY }", "args.push(1, 1, 1); f(...args);", "f(...args);", "0"),
]
ROUTE_NAMES = [r[0] for r in ROUTES]
ROUTES_QUICK = ["direct", "mutual", "new", "getter", "setter", "proxy_get", "valueof_same", "valueof_fresh", "iter_spread", "map", "sort",
                "tojson", "call", "apply", "bind", "eval_indirect", "reflect_apply", "fat"]
STACK_ROUTES = ("fat", "fat_apply", "spread_grow")
INNERS = {"plain": "", "trycatch": "try { null.x; } catch (e2) { }"}
# where the first call is made
STARTS = {"script": ("sync", "script"), "main": ("sync", "main"), "job": ("job", "script"), "async_post": ("job", "script"), "generator": ("sync", "script")}


def rec_program(route, N, inner, w_in, w_out, start):
    """Recursion through one re-entry route; N None = no base case, else exactly N activations (N >= 1)."""
    name, decl, rec, first, ret = next(r for r in ROUTES if r[0] == route)
    again = wrap(w_in, rec, "in") + " " + E("after", "in")
    if N is not None:
        again = "if (n < %d) { %s }" % (N, again)
    body = "__tick(); __depth(); n++; %s %s return %s;" % (INNERS[inner], again, ret)
    decls = "var n = 0; " + decl.replace("BODY", body)
    go = wrap(w_out, first, "out") + " " + E("after", "out")
    chain, entry = STARTS[start]
    if start == "script":
        src = "%s %s %s" % (decls, go, E("after", "top"))
    elif start == "main":
        src = "%s function __main(){ %s }" % (decls, go)
    elif start == "job":
        src = "%s Promise.resolve().then(function(){ %s }); %s" % (decls, go, E("after", "top"))
    elif start == "async_post":
        src = "%s (async function(){ await 0; %s })(); %s" % (decls, go, E("after", "top"))
    elif start == "generator":
        src = "%s function* st(){ %s yield 1; } st().next(); %s" % (decls, go, E("after", "top"))
    else:
        raise ValueError(start)
    return {"src": src, "entry": entry, "chain": chain, "sync_lines": ["after:top"] if chain == "job" else []}


# ------------------------------------------------------------------------------------------------
# close family: the limit is hit inside an iterator's return() while a builtin / the VM closes the iterator because
# of a THROW completion (the specification says errors of return() are then ignored in favour of the original
# exception -- an uncatchable engine error must not be ignored with them)
# ------------------------------------------------------------------------------------------------
def _it(ret_body):
    return ("var it = { [Symbol.iterator]: function(){ return this; }, next: function(){ __tick(); return { done: false, value: 1 }; }, "
            "return: function(){ %s return {}; } };" % ret_body)


CLOSE_ROUTES = [
    ("array_from_mapfn", "Array.from(it, function(){ throw 1; });"),
    ("map_ctor_bad_entry", "new Map(it);"),
    ("weakmap_ctor_bad_entry", "new WeakMap(it);"),
    ("set_ctor_add_throws", "class S3 extends Set { add(){ throw 1; } } new S3(it);"),
    ("object_fromentries", "Object.fromEntries(it);"),
    ("iterator_map", "Iterator.from(it).map(function(){ throw 1; }).next();"),
    ("iterator_foreach", "Iterator.from(it).forEach(function(){ throw 1; });"),
    ("iterator_some", "Iterator.from(it).some(function(){ throw 1; });"),
    ("iterator_reduce", "Iterator.from(it).reduce(function(){ throw 1; }, 0);"),
    ("forof_body_throw", "for (var x of it) { throw 1; }"),
    ("forof_break", "for (var x of it) { break; }"),
    ("destructure", "var [a] = it;"),
    ("destructure_throw", "var [a = (function(){ throw 1; })()] = { [Symbol.iterator]: function(){ return { next: function(){ __tick(); return { done: false }; }, return: it.return }; } };"),
    ("yield_star_throw", "function* g(){ yield* it; } var G = g(); G.next(); G.throw(1);"),
    ("yield_star_return", "function* g(){ yield* it; } var G = g(); G.next(); G.return(1);"),
    ("promise_all_resolve_throws", "function C(ex){ ex(function(){}, function(){}); } C.resolve = function(){ throw 1; }; Promise.all.call(C, it);"),
]
CLOSE_KINDS = {"loop": "while (true) { __tick(); }", "rec": "(function r(){ __tick(); r(); })();"}


def close_program(route, kind, w):
    stmt = next(s for n, s in CLOSE_ROUTES if n == route)
    src = "%s %s %s" % (_it(CLOSE_KINDS[kind]), wrap(w, stmt, "in"), E("after", "in"))
    return {"src": src, "entry": "script", "chain": "sync", "sync_lines": []}


# ------------------------------------------------------------------------------------------------
# accounting family: what the loop limit counts.  docs/vm.md documents a per-CallFrame `loop_iteration_count`
# ------------------------------------------------------------------------------------------------
ACC_FORMS = ["while", "for_cond", "dowhile", "forof_arr", "forin"]


def _acc_loop(form, N, v):
    """A loop with exactly N (>= 0; do-while: >= 1) body executions, counter variable v, one __tick() per body (BODY hook)."""
    if form == "while":
        return "var %s = 0; while (%s < %d) { %s++; BODY }" % (v, v, N, v)
    if form == "for_cond":
        return "for (var %s = 0; %s < %d; %s++) { BODY }" % (v, v, N, v)
    if form == "dowhile":
        return "var %s = 0; do { %s++; BODY } while (%s < %d);" % (v, v, v, N)
    if form == "forof_arr":
        return "for (var %s of [%s]) { BODY }" % (v, ",".join("1" for _ in range(N)))
    if form == "forin":
        return "for (var %s in {%s}) { BODY }" % (v, ",".join("k%d:1" % i for i in range(N)))
    raise ValueError(form)


def acc_events(form, N, body_events):
    """Model: the sequence of events ('inc' = IncrementLoopIteration, 'tick') of one loop execution, per the compiled
    shape of each loop form (while / for-in / for-of count at the loop head, for / do-while count on the back edge)."""
    if form == "dowhile":
        N = max(N, 1)
    ev = []
    if form in ("while", "forof_arr", "forin"):
        for _ in range(N):
            ev.append("inc")
            ev += body_events
        ev.append("inc")
    else:
        for _ in range(N):
            ev += body_events
            ev.append("inc")
    return ev


def acc_model(frames, L):
    """frames: list of event lists, one per call frame (each with its own counter).  A frame may take L+1 increments;
    the next one raises.  -> (stopped, ticks)"""
    ticks = 0
    for ev in frames:
        count = 0
        for e in ev:
            if e == "tick":
                ticks += 1
            else:
                if count > L:
                    return True, ticks
                count += 1
    return False, ticks


def acc_program(shape, f1, a, f2, b):
    """shape: seq_same (two loops in one activation), seq_calls (one loop per activation, two activations),
    nested_same (loop f2 inside loop f1, one activation), nested_call (loop f1 calls a function containing loop f2)."""
    t = "__tick();"
    if shape == "seq_same":
        src = "function f(){ %s %s } f();" % (_acc_loop(f1, a, "i").replace("BODY", t), _acc_loop(f2, b, "j").replace("BODY", t))
        frames = [acc_events(f1, a, ["tick"]) + acc_events(f2, b, ["tick"])]
    elif shape == "seq_calls":
        src = "function f(){ %s } function g(){ %s } f(); g();" % (_acc_loop(f1, a, "i").replace("BODY", t), _acc_loop(f2, b, "j").replace("BODY", t))
        frames = [acc_events(f1, a, ["tick"]), acc_events(f2, b, ["tick"])]
    elif shape == "nested_same":
        inner = _acc_loop(f2, b, "j").replace("BODY", t)
        src = "function f(){ %s } f();" % _acc_loop(f1, a, "i").replace("BODY", inner)
        frames = [acc_events(f1, a, acc_events(f2, b, ["tick"]))]
    elif shape == "nested_call":
        src = "function g(){ %s } function f(){ %s } f();" % (_acc_loop(f2, b, "j").replace("BODY", t), _acc_loop(f1, a, "i").replace("BODY", "g();"))
        # the outer frame's events interleave with fresh inner frames; model them in execution order
        frames = None
    else:
        raise ValueError(shape)
    return src, frames


def acc_model_nested_call(f1, a, f2, b, L):
    ticks = 0
    count = 0
    for e in acc_events(f1, a, ["call"]):
        if e == "inc":
            if count > L:
                return True, ticks
            count += 1
        else:
            stopped, t = acc_model([acc_events(f2, b, ["tick"])], L)
            ticks += t
            if stopped:
                return True, ticks
    return False, ticks


def acc_totals(shape, f1, a, f2, b):
    """(body executions of all loops in the whole evaluation, largest number of body executions of one loop execution,
    number of loop executions, expected __tick() count)."""
    a1 = max(a, 1) if f1 == "dowhile" else a
    b1 = max(b, 1) if f2 == "dowhile" else b
    if shape in ("seq_same", "seq_calls"):
        return a1 + b1, max(a1, b1), 2, a1 + b1
    return a1 + a1 * b1, max(a1, b1 if a1 else 0), 1 + a1, a1 * b1
