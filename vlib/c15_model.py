"""C15 reference model: ArrayBuffer / SharedArrayBuffer / TypedArray / DataView / Atomics as spec text on bytes.

One `bytearray` per buffer with `max` (None = fixed length), `detached`, `shared`; a typed-array view is
`(buffer, element type, byteOffset, length | None = length-tracking)`; a DataView is `(buffer, byteOffset,
byteLength | None)`.  Every operation below is a transliteration of the ECMAScript (ES2024 + Float16Array) algorithm
of the same name; the step order (which coercion happens before which bounds check, which error wins) follows the
spec text, because the histories deliberately run user code (valueOf) between those steps.

Conversions: ToInt8..ToUint32 / ToBigInt64 / ToBigUint64 by exact modular arithmetic on Python ints (truncate toward
zero, modulo 2^n, re-centre); ToUint8Clamp with ties-to-even on exact rationals; binary16/binary32 by one exact
round-to-nearest-even of the double (never double -> float -> half); element byte order little-endian (assumption:
the check runs on a little-endian host), DataView byte order as requested.

JS values in the model: Number = Python float, BigInt = Python int (never bool), undefined = None, booleans = bool,
strings = str, `Fx(effect, ret)` = an object whose valueOf performs a side effect on the world's buffer and then
returns `ret`.  JS exceptions = `JSErr(name)`.

NaN bit patterns: a *value-level* store of NaN into a float element writes an implementation-defined NaN encoding.
The model writes the canonical quiet NaN and records the byte range in `World.nan_ranges`; the driver accepts any
NaN encoding there and adopts the implementation's bytes (see c15.py).

Cross-validation (authoring time, node v20 / V8 11.3, see /verif/oracle/c15_xval.md): the model agrees with V8 on every
generated history that V8 can run except the documented deviations listed there.
"""
import math
import struct
from fractions import Fraction

# ----------------------------------------------------------------------------------------------------------------
# element types
# ----------------------------------------------------------------------------------------------------------------
#            name            size kind
TYPES = {
    "Int8": (1, "i"), "Uint8": (1, "u"), "Uint8Clamped": (1, "c"),
    "Int16": (2, "i"), "Uint16": (2, "u"), "Int32": (4, "i"), "Uint32": (4, "u"),
    "Float16": (2, "f"), "Float32": (4, "f"), "Float64": (8, "f"),
    "BigInt64": (8, "I"), "BigUint64": (8, "U"),
}
TYPE_ORDER = ["Int8", "Uint8", "Uint8Clamped", "Int16", "Uint16", "Int32", "Uint32", "Float16", "Float32", "Float64",
              "BigInt64", "BigUint64"]


def size_of(t):
    return TYPES[t][0]


def is_big(t):
    return TYPES[t][1] in "IU"


def is_atomic_ok(t):
    return TYPES[t][1] in "iuIU"


class JSErr(Exception):
    def __init__(self, name):
        Exception.__init__(self, name)
        self.name = name


class Fx:
    """Object with a side-effecting valueOf: effect in {'D' detach, 'Z' resize 0, 'S' resize 4, 'G' resize 16, 'P' resize 5, 'Q' resize 13}."""
    __slots__ = ("effect", "ret")

    def __init__(self, effect, ret):
        self.effect = effect
        self.ret = ret


# ----------------------------------------------------------------------------------------------------------------
# number <-> text (Number::toString radix 10, StringToNumber for the literals the check uses)
# ----------------------------------------------------------------------------------------------------------------
def js_num_str(x):
    if x != x:
        return "NaN"
    if x == 0:
        return "-0" if math.copysign(1.0, x) < 0 else "0"   # prelude __show renders -0 as "-0"
    if x in (math.inf, -math.inf):
        return "Infinity" if x > 0 else "-Infinity"
    sign = "-" if x < 0 else ""
    r = repr(abs(x))
    if "e" in r:
        mant, ex = r.split("e")
        ex = int(ex)
    else:
        mant, ex = r, 0
    if "." in mant:
        ip, fp = mant.split(".")
    else:
        ip, fp = mant, ""
    digits = ip + fp
    n = len(ip) + ex                       # value = 0.digits * 10^n
    stripped = digits.lstrip("0")
    n -= len(digits) - len(stripped)
    digits = stripped.rstrip("0")
    k = len(digits)
    if k <= n <= 21:
        s = digits + "0" * (n - k)
    elif 0 < n <= 21:
        s = digits[:n] + "." + digits[n:]
    elif -6 < n <= 0:
        s = "0." + "0" * (-n) + digits
    else:
        e = n - 1
        es = ("+" if e >= 0 else "-") + str(abs(e))
        s = (digits if k == 1 else digits[0] + "." + digits[1:]) + "e" + es
    return sign + s


def show(v):
    """Rendering of the prelude's __show for the primitive values the model produces."""
    if v is None:
        return "undefined"
    if v is True:
        return "true"
    if v is False:
        return "false"
    if isinstance(v, float):
        return js_num_str(v)
    if isinstance(v, int):
        return str(v) + "n"
    if isinstance(v, str):
        return '"' + v + '"'
    if isinstance(v, list):
        return "[" + ",".join(show(x) for x in v) + "]"
    raise TypeError(v)


def string_to_number(s):
    t = s.strip()
    if t == "":
        return 0.0
    if t in ("Infinity", "+Infinity"):
        return math.inf
    if t == "-Infinity":
        return -math.inf
    low = t.lower()
    if low[:2] in ("0x", "0o", "0b"):
        try:
            return float(int(low[2:], {"x": 16, "o": 8, "b": 2}[low[1]]))
        except ValueError:
            return math.nan
    if any(c not in "0123456789+-.eE" for c in t) or "_" in t:
        return math.nan
    try:
        return float(t)
    except ValueError:
        return math.nan


def string_to_bigint(s):
    t = s.strip()
    if t == "":
        return 0
    low = t.lower()
    try:
        if low[:2] in ("0x", "0o", "0b"):
            return int(low[2:], {"x": 16, "o": 8, "b": 2}[low[1]])
        if any(c not in "0123456789+-" for c in t):
            raise ValueError
        return int(t)
    except ValueError:
        raise JSErr("SyntaxError")


# ----------------------------------------------------------------------------------------------------------------
# exact IEEE rounding of a double to binary16 / binary32 (round to nearest, ties to even) -> bit pattern
# ----------------------------------------------------------------------------------------------------------------
def _round_bits(x, ebits, mbits):
    """bit pattern of the binary(ebits, mbits) value nearest to the double x; NaN -> canonical quiet NaN."""
    sign = 1 if math.copysign(1.0, x) < 0 else 0
    top = sign << (ebits + mbits)
    emax = (1 << ebits) - 1
    if x != x:
        return (emax << mbits) | (1 << (mbits - 1))            # canonical: sign 0, quiet bit only
    if x in (math.inf, -math.inf):
        return top | (emax << mbits)
    if x == 0:
        return top
    bias = (1 << (ebits - 1)) - 1
    num, den = abs(x).as_integer_ratio()                        # exact
    # e = floor(log2(|x|))
    e = num.bit_length() - den.bit_length()
    if (num >> e if e >= 0 else num << -e) < den:
        e -= 1
    emin = 1 - bias
    if e < emin:
        e = emin                                                # subnormal: fixed exponent
    # significand in units of 2^(e - mbits):  q = |x| / 2^(e-mbits)
    shift = e - mbits
    if shift >= 0:
        qn, qd = num, den << shift
    else:
        qn, qd = num << -shift, den
    q, rem = divmod(qn, qd)
    twice = 2 * rem
    if twice > qd or (twice == qd and (q & 1)):
        q += 1
    if q >= (2 << mbits):                                       # carried into the next binade
        q >>= 1
        e += 1
    if q < (1 << mbits):                                        # subnormal (or zero)
        return top | q
    exp_field = e + bias
    if exp_field >= emax:
        return top | (emax << mbits)                            # overflow -> infinity
    return top | (exp_field << mbits) | (q - (1 << mbits))


def f16_bits(x):
    return _round_bits(x, 5, 10)


def f32_bits(x):
    return _round_bits(x, 8, 23)


def f64_bits(x):
    if x != x:
        return 0x7FF8000000000000
    return struct.unpack("<Q", struct.pack("<d", x))[0]


# ----------------------------------------------------------------------------------------------------------------
# integer conversions
# ----------------------------------------------------------------------------------------------------------------
def to_int_bits(x, bits):
    """ToInt<n>/ToUint<n> as the n-bit two's-complement pattern (unsigned int)."""
    if x != x or x in (math.inf, -math.inf) or x == 0:
        return 0
    return int(x) % (1 << bits)          # int() truncates toward zero exactly; % is the mathematical modulo


def to_uint8_clamp(x):
    if x != x:
        return 0
    if x <= 0:
        return 0
    if x >= 255:
        return 255
    fx = Fraction(x)
    f = math.floor(fx)
    d = fx - f
    if d > Fraction(1, 2):
        return f + 1
    if d < Fraction(1, 2):
        return f
    return f + 1 if f % 2 else f


def to_integer_or_infinity(x):
    """on an already-converted Number; returns int or +-math.inf"""
    if x != x or x == 0:
        return 0
    if x in (math.inf, -math.inf):
        return x
    return int(x)


# NumericToRawBytes / RawBytesToNumeric (value level), little endian unless stated
def numeric_to_bytes(t, v, little=True):
    size, kind = TYPES[t]
    if kind == "f":
        bits = {2: f16_bits, 4: f32_bits, 8: f64_bits}[size](v)
    elif kind == "c":
        bits = to_uint8_clamp(v)
    elif kind in "iu":
        bits = to_int_bits(v, size * 8)
    else:                                 # BigInt: v is an int
        bits = v % (1 << 64)
    return bits.to_bytes(size, "little" if little else "big")


def bytes_to_numeric(t, raw, little=True):
    size, kind = TYPES[t]
    n = int.from_bytes(raw, "little" if little else "big")
    if kind == "f":
        if size == 2:
            return struct.unpack("<e", n.to_bytes(2, "little"))[0]
        if size == 4:
            return struct.unpack("<f", n.to_bytes(4, "little"))[0]
        return struct.unpack("<d", n.to_bytes(8, "little"))[0]
    if kind in "iI" and n >= 1 << (size * 8 - 1):
        n -= 1 << (size * 8)
    return n if kind in "IU" else float(n)


def is_nan_encoding(t, raw, little=True):
    size, kind = TYPES[t]
    if kind != "f":
        return False
    v = bytes_to_numeric(t, raw, little)
    return v != v


# ----------------------------------------------------------------------------------------------------------------
# objects
# ----------------------------------------------------------------------------------------------------------------
class Buf:
    __slots__ = ("data", "max", "detached", "shared")

    def __init__(self, n, maxlen=None, shared=False):
        self.data = bytearray(n)
        self.max = maxlen
        self.detached = False
        self.shared = shared

    def copy(self):
        b = Buf(0, self.max, self.shared)
        b.data = bytearray(self.data)
        b.detached = self.detached
        return b

    @property
    def fixed(self):
        return self.max is None

    def key(self):
        return (bytes(self.data), self.detached)


class TA:
    """TypedArray: length None = length-tracking ([[ArrayLength]] auto)."""
    __slots__ = ("buf", "t", "off", "length")

    def __init__(self, buf, t, off, length):
        self.buf, self.t, self.off, self.length = buf, t, off, length

    @property
    def size(self):
        return TYPES[self.t][0]

    # IsTypedArrayOutOfBounds(MakeTypedArrayWithBufferWitnessRecord(O))
    def oob(self):
        b = self.buf
        if b.detached:
            return True
        n = len(b.data)
        end = n if self.length is None else self.off + self.length * self.size
        return self.off > n or end > n

    # TypedArrayLength (requires not oob)
    def len(self):
        if self.length is not None:
            return self.length
        return (len(self.buf.data) - self.off) // self.size

    def length_getter(self):
        return 0 if self.oob() else self.len()

    def byte_length_getter(self):
        if self.oob():
            return 0
        return self.len() * self.size

    def byte_offset_getter(self):
        return 0 if self.oob() else self.off

    def valid_index(self, i):
        """IsValidIntegerIndex for an integer i (Python int)"""
        if self.oob():
            return False
        return 0 <= i < self.len()

    def get(self, i):
        """TypedArrayGetElement for integer index"""
        if not self.valid_index(i):
            return None
        p = self.off + i * self.size
        return bytes_to_numeric(self.t, self.buf.data[p:p + self.size])


class DV:
    __slots__ = ("buf", "off", "length")

    def __init__(self, buf, off, length):
        self.buf, self.off, self.length = buf, off, length

    def oob(self):
        b = self.buf
        if b.detached:
            return True
        n = len(b.data)
        end = n if self.length is None else self.off + self.length
        return self.off > n or end > n

    def view_len(self):
        return (len(self.buf.data) - self.off) if self.length is None else self.length


UNDEF = None


class _Null:
    def __repr__(self):
        return "null"


NULL = _Null()


# ----------------------------------------------------------------------------------------------------------------
# the world: one primary buffer `b` plus named views; all operations are methods so that Fx side effects can reach `b`
# ----------------------------------------------------------------------------------------------------------------
class World:
    def __init__(self):
        self.b = None
        self.views = {}          # name -> TA | DV | None
        self.nan_ranges = []     # (offset, type) of value-level NaN stores into self.b during the current step

    def clone(self):
        w = World()
        w.b = self.b.copy()
        for k, v in self.views.items():
            if isinstance(v, TA):
                w.views[k] = TA(w.b, v.t, v.off, v.length)
            elif isinstance(v, DV):
                w.views[k] = DV(w.b, v.off, v.length)
            else:
                w.views[k] = v
        return w

    def key(self):
        return self.b.key()

    # ---- side effects and coercions ------------------------------------------------------------------------------
    def effect(self, e):
        """the body of an Fx valueOf: errors are swallowed by the script's try/catch"""
        try:
            if e == "D":
                self.detach()
            elif e == "Z":
                self.resize(0.0)
            elif e == "S":
                self.resize(4.0)
            elif e == "G":
                self.resize(16.0)
            elif e == "P":
                self.resize(5.0)
            elif e == "Q":
                self.resize(13.0)
            elif e == "N":
                pass
            else:
                raise AssertionError(e)
        except JSErr:
            pass

    def to_primitive(self, v):
        if isinstance(v, Fx):
            self.effect(v.effect)
            return v.ret
        return v

    def to_number(self, v):
        v = self.to_primitive(v)
        if v is None:
            return math.nan
        if v is True:
            return 1.0
        if v is False:
            return 0.0
        if isinstance(v, float):
            return v
        if isinstance(v, int):
            raise JSErr("TypeError")
        if isinstance(v, str):
            return string_to_number(v)
        if v is NULL:
            return 0.0
        raise AssertionError(v)

    def to_bigint(self, v):
        v = self.to_primitive(v)
        if v is None or v is NULL:
            raise JSErr("TypeError")
        if v is True:
            return 1
        if v is False:
            return 0
        if isinstance(v, float):
            raise JSErr("TypeError")
        if isinstance(v, int):
            return v
        if isinstance(v, str):
            return string_to_bigint(v)
        raise AssertionError(v)

    def to_numeric_for(self, t, v):
        return self.to_bigint(v) if is_big(t) else self.to_number(v)

    def to_int_inf(self, v):
        return to_integer_or_infinity(self.to_number(v))

    def to_index(self, v):
        if v is None:
            return 0
        i = self.to_int_inf(v)
        if i < 0 or i > 2 ** 53 - 1:
            raise JSErr("RangeError")
        return i

    def rel_index(self, v, length, undefined_is=None):
        """the 'relativeStart -> startIndex' idiom; undefined_is: value used when v is undefined (for `end`)"""
        if v is None and undefined_is is not None:
            rel = undefined_is
        else:
            rel = self.to_int_inf(v)
        if rel == -math.inf:
            return 0
        if rel < 0:
            return max(length + rel, 0)
        return int(min(rel, length))

    # ---- buffers ------------------------------------------------------------------------------------------------
    def detach(self):
        b = self.b
        if b.shared:
            raise JSErr("TypeError")
        if b.detached:
            raise JSErr("TypeError")
        n = len(b.data)
        b.data = bytearray()
        b.detached = True
        return float(n)

    def resize(self, v):
        """ArrayBuffer.prototype.resize / SharedArrayBuffer.prototype.grow (the script calls the one that exists)"""
        b = self.b
        if b.fixed:
            raise JSErr("TypeError")
        n = self.to_index(v)
        if b.shared:
            if n > b.max:
                raise JSErr("RangeError")
            if n < len(b.data):
                raise JSErr("RangeError")
            b.data.extend(bytes(n - len(b.data)))
            return None
        if b.detached:
            raise JSErr("TypeError")
        if n > b.max:
            raise JSErr("RangeError")
        if n < len(b.data):
            del b.data[n:]
        else:
            b.data.extend(bytes(n - len(b.data)))
        return None

    def buf_slice(self, start, end):
        b = self.b
        if not b.shared and b.detached:
            raise JSErr("TypeError")
        length = len(b.data)
        first = self.rel_index(start, length)
        final = self.rel_index(end, length, undefined_is=length)
        new_len = max(final - first, 0)
        # Construct(%ArrayBuffer%, new_len): fresh buffer
        if not b.shared:
            if b.detached:
                raise JSErr("TypeError")
            cur = len(b.data)
            out = bytearray(new_len)
            if first < cur:
                count = min(new_len, cur - first)
                out[:count] = b.data[first:first + count]
            return out
        out = bytearray(new_len)
        out[:] = b.data[first:first + new_len]
        return out

    def buf_info(self):
        b = self.b
        return (len(b.data), (b.max if b.max is not None else len(b.data)) if not b.detached else 0)

    # ---- typed array construction --------------------------------------------------------------------------------
    def new_ta_on_buffer(self, t, buf, off_v, len_v):
        """InitializeTypedArrayFromArrayBuffer"""
        size = size_of(t)
        offset = self.to_index(off_v)
        if offset % size:
            raise JSErr("RangeError")
        new_length = None if len_v is None else self.to_index(len_v)
        if buf.detached:
            raise JSErr("TypeError")
        n = len(buf.data)
        if new_length is None and not buf.fixed:
            if offset > n:
                raise JSErr("RangeError")
            return TA(buf, t, offset, None)
        if new_length is None:
            if n % size:
                raise JSErr("RangeError")
            nb = n - offset
            if nb < 0:
                raise JSErr("RangeError")
            return TA(buf, t, offset, nb // size)
        if offset + new_length * size > n:
            raise JSErr("RangeError")
        return TA(buf, t, offset, new_length)

    def new_ta_from_values(self, t, values):
        """new T(array) / T.of(...) / T.from(array): fresh buffer, Set(O, k, v) for each"""
        buf = Buf(len(values) * size_of(t))
        ta = TA(buf, t, 0, len(values))
        for k, v in enumerate(values):
            self.ta_set_element(ta, k, v)
        return ta

    def new_ta_from_ta(self, t, src):
        """InitializeTypedArrayFromTypedArray"""
        if src.oob():
            raise JSErr("TypeError")
        n = src.len()
        size = size_of(t)
        buf = Buf(n * size)
        out = TA(buf, t, 0, n)
        if t == src.t:
            buf.data[:] = src.buf.data[src.off:src.off + n * size]
            return out
        if is_big(t) != is_big(src.t):
            raise JSErr("TypeError")
        for k in range(n):
            p = src.off + k * src.size
            v = bytes_to_numeric(src.t, src.buf.data[p:p + src.size])
            buf.data[k * size:(k + 1) * size] = numeric_to_bytes(t, v)
        return out

    def new_dv(self, buf, off_v, len_v):
        offset = self.to_index(off_v)
        if buf.detached:
            raise JSErr("TypeError")
        n = len(buf.data)
        if offset > n:
            raise JSErr("RangeError")
        if len_v is None:
            vlen = None if not buf.fixed else n - offset
        else:
            vlen = self.to_index(len_v)
            if offset + vlen > n:
                raise JSErr("RangeError")
        # steps 11-14: re-check after the coercion of byteLength (user code) and OrdinaryCreateFromConstructor
        if buf.detached:
            raise JSErr("TypeError")
        n = len(buf.data)
        if offset > n:
            raise JSErr("RangeError")
        if len_v is not None and offset + vlen > n:
            raise JSErr("RangeError")
        return DV(buf, offset, vlen)

    # ---- element access ------------------------------------------------------------------------------------------
    def write_numeric(self, buf, pos, t, num, little=True):
        raw = numeric_to_bytes(t, num, little)
        buf.data[pos:pos + len(raw)] = raw
        if buf is self.b and TYPES[t][1] == "f" and num != num:
            self.nan_ranges.append((pos, t, little))

    def ta_set_element(self, ta, i, v):
        """TypedArraySetElement(O, index, value) for an integer index (or None = not an integer index)"""
        num = self.to_numeric_for(ta.t, v)
        if i is not None and ta.valid_index(i):
            self.write_numeric(ta.buf, ta.off + i * ta.size, ta.t, num)

    @staticmethod
    def canonical_key(key):
        """key: ('i', int) integer index, ('x',) canonical numeric string that is not a valid integer index"""
        return key

    # ---- %TypedArray%.prototype methods -------------------------------------------------------------------------
    def validate(self, ta):
        if ta.oob():
            raise JSErr("TypeError")
        return ta.len()

    def ta_fill(self, ta, value, start=None, end=None):
        length = self.validate(ta)
        num = self.to_numeric_for(ta.t, value)
        k = self.rel_index(start, length)
        e = self.rel_index(end, length, undefined_is=length)
        if ta.oob():
            raise JSErr("TypeError")
        e = min(e, ta.len())
        while k < e:
            self.ta_set_element(ta, k, num)
            k += 1
        return ta

    def ta_set(self, ta, source, offset=None):
        off = self.to_int_inf(offset)
        if off < 0:
            raise JSErr("RangeError")
        if isinstance(source, TA):
            return self._set_from_ta(ta, off, source)
        return self._set_from_list(ta, off, source)

    def _set_from_ta(self, target, off, src):
        if target.oob():
            raise JSErr("TypeError")
        tlen = target.len()
        if src.oob():
            raise JSErr("TypeError")
        slen = src.len()
        if off == math.inf:
            raise JSErr("RangeError")
        if slen + off > tlen:
            raise JSErr("RangeError")
        if is_big(target.t) != is_big(src.t):
            raise JSErr("TypeError")
        sdata = src.buf.data
        spos = src.off
        if src.buf is target.buf:
            sdata = bytearray(src.buf.data[src.off:src.off + slen * src.size])   # CloneArrayBuffer
            spos = 0
        tpos = off * target.size + target.off
        if src.t == target.t:
            nbytes = slen * target.size
            target.buf.data[tpos:tpos + nbytes] = sdata[spos:spos + nbytes]
            return None
        for k in range(slen):
            v = bytes_to_numeric(src.t, sdata[spos + k * src.size:spos + (k + 1) * src.size])
            self.write_numeric(target.buf, tpos + k * target.size, target.t, v)
        return None

    def _set_from_list(self, target, off, values):
        if target.oob():
            raise JSErr("TypeError")
        tlen = target.len()
        slen = len(values)
        if off == math.inf:
            raise JSErr("RangeError")
        if slen + off > tlen:
            raise JSErr("RangeError")
        for k, v in enumerate(values):
            self.ta_set_element(target, off + k, v)
        return None

    def ta_subarray(self, ta, start=None, end=None):
        src_len = 0 if ta.oob() else ta.len()
        s = self.rel_index(start, src_len)
        begin = ta.off + s * ta.size
        if ta.length is None and end is None:
            return self.new_ta_on_buffer(ta.t, ta.buf, float(begin), None)
        e = self.rel_index(end, src_len, undefined_is=src_len)
        new_len = max(e - s, 0)
        return self.new_ta_on_buffer(ta.t, ta.buf, float(begin), float(new_len))

    def ta_copy_within(self, ta, target, start, end=None):
        """ES2024+ text: after the coercions `len` is re-read and the copy proceeds "with the longest still-applicable
        prefix" (count = min(count, len - startIndex, len - targetIndex)).  The earlier resizable-buffer draft (quoted in
        boa's comments) stopped at the first out-of-range byte instead, which copies nothing in the backward direction;
        V8 and boa both implement the prefix rule."""
        length = self.validate(ta)
        to = self.rel_index(target, length)
        frm = self.rel_index(start, length)
        fin = self.rel_index(end, length, undefined_is=length)
        count = min(fin - frm, length - to)
        if count > 0:
            if ta.oob():
                raise JSErr("TypeError")
            length = ta.len()
            count = min(count, length - frm, length - to)
            if count > 0:
                size = ta.size
                tb = to * size + ta.off
                fb = frm * size + ta.off
                nb = count * size
                data = ta.buf.data
                data[tb:tb + nb] = bytes(data[fb:fb + nb])      # memmove semantics
        return ta

    def ta_slice(self, ta, start=None, end=None):
        length = self.validate(ta)
        s = self.rel_index(start, length)
        e = self.rel_index(end, length, undefined_is=length)
        count = max(e - s, 0)
        out = TA(Buf(count * ta.size), ta.t, 0, count)
        if count > 0:
            if ta.oob():
                raise JSErr("TypeError")
            e = min(e, ta.len())
            count = max(e - s, 0)
            sp = s * ta.size + ta.off
            nb = count * ta.size
            out.buf.data[0:nb] = ta.buf.data[sp:sp + nb]
        return out

    def ta_slice_species(self, ta, start, end, mode):
        """a.slice(start, end) where a.constructor[Symbol.species] returns a view ON THE SAME BUFFER:
        mode 'fwd'  -> new T(b, a.byteOffset + size, n)   (target one element after the source: forward smear)
        mode 'back' -> new T(b, a.byteOffset, n)
        mode 'partner:<P>' -> new P(b, 0, n)               (different element type: Get/Set loop)"""
        length = self.validate(ta)
        s = self.rel_index(start, length)
        e = self.rel_index(end, length, undefined_is=length)
        count = max(e - s, 0)
        # TypedArraySpeciesCreate -> species function -> constructor
        base = ta.byte_offset_getter()
        if mode == "fwd":
            out = self.new_ta_on_buffer(ta.t, ta.buf, float(base + ta.size), float(count))
        elif mode == "back":
            out = self.new_ta_on_buffer(ta.t, ta.buf, float(base), float(count))
        else:
            out = self.new_ta_on_buffer(mode.split(":")[1], ta.buf, 0.0, float(count))
        # TypedArrayCreateFromConstructor: ValidateTypedArray(new), length >= count
        if out.oob():
            raise JSErr("TypeError")
        if out.len() < count:
            raise JSErr("TypeError")
        if is_big(out.t) != is_big(ta.t):
            raise JSErr("TypeError")
        if count > 0:
            if ta.oob():
                raise JSErr("TypeError")
            e = min(e, ta.len())
            count = max(e - s, 0)
            if out.t == ta.t:
                data = ta.buf.data
                sp = s * ta.size + ta.off
                tp = out.off
                endp = tp + count * ta.size
                while tp < endp:                      # the spec copies byte by byte, ascending (NOT memmove)
                    data[tp] = data[sp]
                    sp += 1
                    tp += 1
            else:
                n = 0
                k = s
                while k < e:
                    self.ta_set_element(out, n, ta.get(k))
                    k += 1
                    n += 1
        return out

    def ta_filter(self, ta, fx_at0):
        """a.filter(function(v,i){ if (i===0) EFFECT; return true })"""
        length = self.validate(ta)
        kept = []
        for k in range(length):
            v = ta.get(k)
            if k == 0 and fx_at0:
                self.effect(fx_at0)
            kept.append(v)
        out = TA(Buf(len(kept) * ta.size), ta.t, 0, len(kept))
        for n, v in enumerate(kept):
            self.ta_set_element(out, n, v)
        return out

    def ta_find_last_index_undefined(self, ta, fx_first):
        """a.findLastIndex(function(v){ <EFFECT on first call>; return v === undefined })"""
        length = self.validate(ta)
        first = True
        k = length - 1
        while k >= 0:
            v = ta.get(k)
            if first:
                first = False
                if fx_first:
                    self.effect(fx_first)
            if v is None:
                return float(k)
            k -= 1
        return -1.0

    def array_fill(self, ta, value, start=None, end=None):
        """Array.prototype.fill.call(a, value, start, end): generic algorithm; the value is converted by every Set"""
        length = ta.length_getter()                   # LengthOfArrayLike(O) = Get(O, "length")
        k = self.rel_index(start, length)
        e = self.rel_index(end, length, undefined_is=length)
        while k < e:
            self.ta_set_element(ta, k, value)
            k += 1
        return ta

    @staticmethod
    def _default_cmp_key(t):
        if is_big(t):
            return lambda v: (0, v)

        def key(v):
            if v != v:
                return (1, 0.0, 0)
            return (0, v, 0 if (v != 0 or math.copysign(1.0, v) < 0) else 1)   # -0 before +0
        return key

    def ta_sort(self, ta, mode=None, fx=None, into=None):
        """mode None: default numeric order; 'desc': total descending comparator (NaN last, +-0 equal);
        'zero': comparator returning 0.  fx: effect performed by the comparator on its first call.
        into: None = sort in place (sort), else 'copy' (toSorted)."""
        length = self.validate(ta)
        out = None
        if into == "copy":
            out = TA(Buf(length * ta.size), ta.t, 0, length)
        items = [ta.get(k) for k in range(length)]
        if mode is not None and length >= 2 and fx is not None:
            self.effect(fx)
        if mode is None:
            items.sort(key=self._default_cmp_key(ta.t))
        elif mode == "desc":
            def key(v):
                if isinstance(v, float) and v != v:
                    return (1, 0.0)
                return (0, -v)
            items.sort(key=key)                                   # stable
        elif mode == "zero":
            pass
        else:
            raise AssertionError(mode)
        dst = out if out is not None else ta
        for j, v in enumerate(items):
            self.ta_set_element(dst, j, v)
        return dst

    def ta_reverse(self, ta):
        length = self.validate(ta)
        lower = 0
        while lower != length // 2:
            upper = length - lower - 1
            lv, uv = ta.get(lower), ta.get(upper)
            self.ta_set_element(ta, lower, uv)
            self.ta_set_element(ta, upper, lv)
            lower += 1
        return ta

    def ta_to_reversed(self, ta):
        length = self.validate(ta)
        out = TA(Buf(length * ta.size), ta.t, 0, length)
        for k in range(length):
            self.ta_set_element(out, k, ta.get(length - k - 1))
        return out

    def ta_with(self, ta, index, value):
        length = self.validate(ta)
        rel = self.to_int_inf(index)
        actual = rel if rel >= 0 else length + rel
        num = self.to_numeric_for(ta.t, value)
        if actual in (math.inf, -math.inf) or not ta.valid_index(actual):
            raise JSErr("RangeError")
        out = TA(Buf(length * ta.size), ta.t, 0, length)
        for k in range(length):
            self.ta_set_element(out, k, num if k == actual else ta.get(k))
        return out

    def ta_at(self, ta, index):
        length = self.validate(ta)
        rel = self.to_int_inf(index)
        if rel in (math.inf, -math.inf):
            return None
        k = rel if rel >= 0 else length + rel
        if k < 0 or k >= length:
            return None
        return ta.get(k)

    @staticmethod
    def strict_equals(x, y):
        if x is None or y is None:
            return x is None and y is None
        if isinstance(x, bool) or isinstance(y, bool):
            return x is y
        if type(x) is not type(y):
            return False
        return x == y                     # NaN != NaN, +0 == -0

    @staticmethod
    def same_value_zero(x, y):
        if isinstance(x, float) and isinstance(y, float) and x != x and y != y:
            return True
        return World.strict_equals(x, y)

    def ta_index_of(self, ta, search, from_index=None):
        length = self.validate(ta)
        if length == 0:
            return -1.0
        n = self.to_int_inf(from_index)
        if n == math.inf:
            return -1.0
        if n == -math.inf:
            n = 0
        k = n if n >= 0 else max(length + n, 0)
        while k < length:
            if ta.valid_index(k) and self.strict_equals(search, ta.get(k)):
                return float(k)
            k += 1
        return -1.0

    def ta_last_index_of(self, ta, search, *from_index):
        length = self.validate(ta)
        if length == 0:
            return -1.0
        n = self.to_int_inf(from_index[0]) if from_index else length - 1
        if n == -math.inf:
            return -1.0
        k = min(n, length - 1) if n >= 0 else length + n
        k = int(k)
        while k >= 0:
            if ta.valid_index(k) and self.strict_equals(search, ta.get(k)):
                return float(k)
            k -= 1
        return -1.0

    def ta_includes(self, ta, search, from_index=None):
        length = self.validate(ta)
        if length == 0:
            return False
        n = self.to_int_inf(from_index)
        if n == math.inf:
            return False
        if n == -math.inf:
            n = 0
        k = n if n >= 0 else max(length + n, 0)
        while k < length:
            if self.same_value_zero(search, ta.get(k)):
                return True
            k += 1
        return False

    def ta_join(self, ta):
        length = self.validate(ta)
        parts = []
        for k in range(length):
            parts.append(_elem_str(ta.get(k)))
        return ",".join(parts)

    def ta_iter(self, ta):
        """[...a]: %ArrayIteratorPrototype%.next re-validates on every step"""
        if ta.oob():                       # values() = ValidateTypedArray
            raise JSErr("TypeError")
        out = []
        k = 0
        while True:
            if ta.oob():
                raise JSErr("TypeError")
            if k >= ta.len():
                return out
            out.append(ta.get(k))
            k += 1

    def ta_keys(self, ta):
        """Object.keys(a): integer indices of [[OwnPropertyKeys]] (no other own enumerable string keys exist)"""
        if ta.oob():
            return []
        return [str(k) for k in range(ta.len())]

    def ta_map(self, ta, fx_at0):
        """a.map(function(v,i){ if (i===0) EFFECT; return v })  -> fresh array of the initial length"""
        length = self.validate(ta)
        out = TA(Buf(length * ta.size), ta.t, 0, length)
        for k in range(length):
            v = ta.get(k)
            if k == 0 and fx_at0:
                self.effect(fx_at0)
            self.ta_set_element(out, k, v)   # ToBigInt(undefined) throws TypeError, ToNumber(undefined) = NaN
        return out

    def ta_for_each(self, ta, fx_at0):
        length = self.validate(ta)
        seen = []
        for k in range(length):
            v = ta.get(k)
            if k == 0 and fx_at0:
                self.effect(fx_at0)
            seen.append(v)
        return seen

    # ---- property-level access with arbitrary keys ----------------------------------------------------------------
    # key: int (an integer index, may be negative) or the strings "1.5" / "-0" (canonical numeric, never valid)
    def key_index(self, key):
        return key if isinstance(key, int) else None

    def prop_get(self, ta, key):
        i = self.key_index(key)
        return ta.get(i) if i is not None else None

    def prop_has(self, ta, key):
        i = self.key_index(key)
        return i is not None and ta.valid_index(i)

    def prop_delete(self, ta, key):
        i = self.key_index(key)
        return not (i is not None and ta.valid_index(i))

    def prop_set(self, ta, key, v):
        self.ta_set_element(ta, self.key_index(key), v)

    def prop_define(self, ta, key, v):
        """Object.defineProperty(a, key, {value: v}) -> TypeError when the index is invalid, else set"""
        i = self.key_index(key)
        if i is None or not ta.valid_index(i):
            raise JSErr("TypeError")
        self.ta_set_element(ta, i, v)

    # ---- Atomics ---------------------------------------------------------------------------------------------------
    def _atomic_access(self, ta, index):
        if ta.oob():
            raise JSErr("TypeError")
        if not is_atomic_ok(ta.t):
            raise JSErr("TypeError")
        length = ta.len()
        i = self.to_index(index)
        if i >= length:
            raise JSErr("RangeError")
        return i * ta.size + ta.off

    def _atomic_revalidate(self, ta, pos):
        if ta.oob():
            raise JSErr("TypeError")
        if pos >= ta.off + ta.len() * ta.size:
            raise JSErr("RangeError")

    def _atomic_value(self, ta, v):
        if is_big(ta.t):
            return self.to_bigint(v)
        i = self.to_int_inf(v)
        return float(i)

    def atomics_load(self, ta, index):
        pos = self._atomic_access(ta, index)
        self._atomic_revalidate(ta, pos)
        return bytes_to_numeric(ta.t, ta.buf.data[pos:pos + ta.size])

    def atomics_store(self, ta, index, value):
        pos = self._atomic_access(ta, index)
        v = self._atomic_value(ta, value)
        self._atomic_revalidate(ta, pos)
        self.write_numeric(ta.buf, pos, ta.t, v)
        return v + 0.0 if isinstance(v, float) else v      # ToIntegerOrInfinity never yields -0

    def atomics_add(self, ta, index, value):
        pos = self._atomic_access(ta, index)
        v = self._atomic_value(ta, value)
        self._atomic_revalidate(ta, pos)
        raw = bytes(ta.buf.data[pos:pos + ta.size])
        old = int.from_bytes(raw, "little")
        add = int.from_bytes(numeric_to_bytes(ta.t, v), "little")
        new = (old + add) % (1 << (8 * ta.size))
        ta.buf.data[pos:pos + ta.size] = new.to_bytes(ta.size, "little")
        return bytes_to_numeric(ta.t, raw)

    def atomics_cx(self, ta, index, expected, replacement):
        pos = self._atomic_access(ta, index)
        e = self._atomic_value(ta, expected)
        r = self._atomic_value(ta, replacement)
        self._atomic_revalidate(ta, pos)
        raw = bytes(ta.buf.data[pos:pos + ta.size])
        if raw == numeric_to_bytes(ta.t, e):
            ta.buf.data[pos:pos + ta.size] = numeric_to_bytes(ta.t, r)
        return bytes_to_numeric(ta.t, raw)

    # ---- DataView ---------------------------------------------------------------------------------------------------
    def dv_get(self, dv, t, index, little=None):
        i = self.to_index(index)
        le = bool(little)
        if dv.oob():
            raise JSErr("TypeError")
        size = size_of(t)
        if i + size > dv.view_len():
            raise JSErr("RangeError")
        p = i + dv.off
        return bytes_to_numeric(t, dv.buf.data[p:p + size], le)

    def dv_set(self, dv, t, index, value, little=None):
        i = self.to_index(index)
        num = self.to_numeric_for(t, value)
        le = bool(little)
        if dv.oob():
            raise JSErr("TypeError")
        size = size_of(t)
        if i + size > dv.view_len():
            raise JSErr("RangeError")
        self.write_numeric(dv.buf, i + dv.off, t, num, le)
        return None

    def dv_byte_length(self, dv):
        if dv.oob():
            raise JSErr("TypeError")
        return float(dv.view_len())

    def dv_byte_offset(self, dv):
        if dv.oob():
            raise JSErr("TypeError")
        return float(dv.off)


# ----------------------------------------------------------------------------------------------------------------
# rendering identical to the JS helper `S` (see c15.py HELPERS)
# ----------------------------------------------------------------------------------------------------------------
def hexbytes(data):
    return "<" + " ".join(str(x) for x in bytes(data)) + ">"


def _elem_str(v):
    """ToString of a typed-array element as %TypedArray%.prototype.join does it"""
    if v is None:
        return ""
    if isinstance(v, int):
        return str(v)
    return "0" if v == 0 else js_num_str(v)


def render_ta(ta):
    n = ta.length_getter()
    els = ",".join(_elem_str(ta.get(i)) for i in range(n))
    return "%s(%d@%d/%d)[%s]" % (ta.t, n, ta.byte_offset_getter(), ta.byte_length_getter(), els)


def render(v):
    if isinstance(v, TA):
        return render_ta(v)
    if isinstance(v, (bytearray, bytes)):
        return "B" + hexbytes(v)
    if isinstance(v, list):
        return "[" + ",".join(render(x) for x in v) + "]"
    return show(v)
