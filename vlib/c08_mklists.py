"""Authoring tool (never run by a check): turn the replay files of the last C08 run into the committed known-finding lists.

usage:  python3 -m vlib.c08_mklists quick|thorough      (after `./check C08 <tier>` left its replay files in out/replays/C08)

One list per root-cause class (the `[class]` prefix the check puts in front of every discrepancy).  The quick lists are
`findings/C08-<class>.list`; the thorough run adds `findings/C08-<class>.thorough.list` with the inputs that are not in the
quick list (loaded by the thorough tier only, see c08.load_tier_lists).  Classes `other` and `monotone` are never listed:
they are unexplained and must be looked at.
"""
import glob, json, os, sys
from . import core

CLASSES = {
    "async-continuation-swallow": "DESIGN #16: a RuntimeLimit error raised while an async function / async generator runs in a continuation job (after its "
                                  "first await, incl. for-await) is dropped: vm/opcode/await/mod.rs on_fulfilled/on_rejected discard the CompletionRecord "
                                  "of GeneratorContext::resume, run_jobs returns Ok and the promise stays pending",
    "toprimitive-reentry": "DESIGN #15: OrdinaryToPrimitive on an object that is already being converted returns 0 / '' instead of calling valueOf/toString "
                           "again (RecursionLimiter in object/jsobject.rs ordinary_to_primitive), so recursion through valueOf on one object never recurses",
    "iterator-close-swallow": "IteratorRecord::close (builtins/iterable/mod.rs) with a throw completion ignores EVERY error of iterator.return(), including the "
                              "uncatchable RuntimeLimit error: the loop/recursion inside return() is cut off, the limit error is dropped and the original "
                              "catchable exception continues, so catch/finally blocks and later statements of the activation chain run",
    "asyncgen-start-assert": "a RuntimeLimit error inside the synchronously started part of an async generator body (first next()) reaches "
                             "`assert!(!result.is_throw_completion())` in builtins/async_generator/mod.rs AsyncGenerator::resume: Rust panic instead of a RuntimeLimitError",
    "limit-masked-as-panic": "starting an async function under a recursion or stack limit too small for the NewPromiseCapability call reports `EnginePanic: cannot fail per "
                             "spec` (vm/opcode/await/mod.rs CreatePromiseCapability uses js_expect on a fallible call) instead of the RuntimeLimitError",
}


def main():
    tier = sys.argv[1]
    if tier not in ("quick", "thorough", "lines"):
        sys.exit(__doc__)
    by = {}
    for f in sorted(glob.glob(os.path.join(core.OUT, "replays", "C08", "*", "*.json"))) if tier != "lines" else []:
        r = json.load(open(f))
        cls = r["what"].split("]")[0][1:]
        by.setdefault(cls, []).append(r)
    for cls, rs in sorted(by.items()):
        if cls not in CLASSES:
            print("UNEXPLAINED class %s: %d cases, e.g. %s" % (cls, len(rs), rs[0]["what"][:300]))
            continue
        quick_path = os.path.join(core.ROOT, "findings", "C08-%s.list" % cls)
        have = set()
        if tier == "thorough" and os.path.exists(quick_path):
            have = set(tuple(l.split()[:2]) for l in open(quick_path))
        path = quick_path if tier == "quick" else os.path.join(core.ROOT, "findings", "C08-%s.thorough.list" % cls)
        lines = set()
        for r in rs:
            if (r["case_key"], r["observed_key"]) in have:
                continue
            m = r["replay"]["meta"]
            c = r["replay"]["cfgs"][1]
            tag = "%s/%s %s L,R,S=%s,%s,%s %s" % (m["fam"], m["variant"], m.get("form") or m.get("route"), c["loop"], c["rec"], c["stack"], r["observed"]["pred"])
            lines.add("%s %s %s" % (r["case_key"], r["observed_key"], tag))
        with open(path, "w") as f:
            for l in sorted(lines):
                f.write(l + "\n")
        print("%-28s %6d entries -> %s" % (cls, len(lines), os.path.relpath(path, core.ROOT)))
    print("\nlines for findings/C08.known:")
    for cls, text in CLASSES.items():
        print('known-list: property=C08 file=findings/C08-%s.list class="%s: %s"' % (cls, cls, text.replace('"', "'")))
        print('known-list-thorough: property=C08 file=findings/C08-%s.thorough.list class="%s: %s"' % (cls, cls, text.replace('"', "'")))


if __name__ == "__main__":
    main()
