"""C06 — operation alphabet and script builder for inline-cache histories.

A *history* is a tuple of operation names.  It is compiled to ONE JavaScript block: a fresh universe
(receiver `o`, prototypes `p`, `q`, counter `n`; home object `H` with [[Prototype]] p when a super site is used), textually fresh copies of the
access-site functions the history uses (every function literal is its own CodeBlock and owns its inline caches, so a
textually fresh literal is a fresh set of caches; a factory closure would NOT be), the operations in order, and a
structural dump.  Several blocks can be concatenated into one script (one context): the blocks share nothing but the
engine's global object / Object.prototype (restored at the end of every block) and the shape tree.

Nothing in the shared prologue reads or writes a property *by name* on an object a history can reach (helpers use
computed keys and captured natives only), so no inline cache is shared between two histories of a batch.
"""
import itertools

# ------------------------------------------------------------------------------------------------
# shared prologue (once per script)
# ------------------------------------------------------------------------------------------------
PROLOGUE = r"""
var __c06 = (function(){
var E=__emit,S=String,GOPD=Object.getOwnPropertyDescriptor,OKS=Reflect.ownKeys,GPO=Object.getPrototypeOf,IE=Object.isExtensible;
var OPR=Object.prototype,APR=Array.prototype,SPR=String.prototype,GT=globalThis;
var kV="value",kW="writable",kE="enumerable",kC="configurable",kG="get",kS="set",kN="name",kA="a",kB="b";
function sv(v){var t=typeof v;if(t==="function")return "fn:"+v[kN];if(t==="string")return '"'+v+'"';if(t==="object"&&v!==null)return "obj";return S(v)}
function en(e){return (typeof e==="object"&&e!==null)?S(e[kN]):sv(e)}
function dd(x,k){var d=GOPD(x,k);if(d===undefined)return "-";var s=((kG in d)||(kS in d))?"G"+sv(d[kG])+"S"+sv(d[kS]):"V"+sv(d[kV])+(d[kW]?"w":"-");return s+(d[kE]?"e":"-")+(d[kC]?"c":"-")}
function idn(x,N){if(x===null)return "null";for(var i=0;i<N.length;i+=2){if(N[i]===x)return N[i+1]}return "?"}
function ds(x,N){var t=typeof x;if(x===null||(t!=="object"&&t!=="function"))return sv(x);
 var ks=OKS(x),s="{";for(var i=0;i<ks.length;i++){var k=ks[i];if(typeof k==="symbol")continue;s+=k+":"+dd(x,k)+","}
 return s+(IE(x)?"x":"nx")+" proto="+idn(GPO(x),N)+"}"}
function dump(o,p,q,H){var N=[o,"o",p,"p",q,"q",H,"H",OPR,"OP",APR,"AP",SPR,"SP"];
 E("o="+ds(o,N));E("p="+ds(p,N));E("q="+ds(q,N));if(H!==null)E("H="+ds(H,N));E("G.a="+dd(GT,kA)+" OP.a="+dd(OPR,kA)+" OP.b="+dd(OPR,kB));
 var r="";try{r+=sv(o[kA])}catch(e){r+="E"+en(e)}r+=" ";try{r+=sv(o[kB])}catch(e){r+="E"+en(e)}r+=" ";try{r+=sv(p[kA])}catch(e){r+="E"+en(e)}r+=" ";try{r+=sv(p[kB])}catch(e){r+="E"+en(e)}
 E("read "+r)}
function clean(){delete GT[kA];delete OPR[kA];delete OPR[kB]}
return {E:E,sv:sv,en:en,dump:dump,clean:clean,OC:Object.create,DP:Object.defineProperty,SPO:Object.setPrototypeOf,FR:Object.freeze,OB:Object,GT:GT,OPR:OPR,GC:__gc};
})();
"""

# ------------------------------------------------------------------------------------------------
# access sites: name -> function literal (defined inside the history block, fresh per history)
# ------------------------------------------------------------------------------------------------
SITE_DEFS = {
    "get": "function get(x){return x.a}",
    "getb": "function getb(x){return x.b}",
    "set": "function set(x,v){x.a=v}",
    "setS": 'function setS(x,v){"use strict";x.a=v}',
    "len": "function len(x){return x.length}",
    "m": "function m(x){return x.a()}",
    "gr": "function gr(){return a}",
    "gw": "function gw(v){a=v}",
    "H": "var H={__proto__:p,sup(){return super.a},sset(v){super.a=v}}",
    "slen": "function slen(x,v){x.length=v}",
    "tg": "function tg(x){var s=0;for(var i=0;i<3;i++){var v=x.a;s=s+(typeof v===\"number\"?v:100)}return s}",
}
# H (super sites): super.a looks the property up on H.[[Prototype]] = p with Receiver `this`; defined only in histories that use it.


def _site(expr):
    return "try{E(sv(%s))}catch(e){E(\"E \"+en(e))}" % expr


def _mut(stmt):
    return "try{%s}catch(e){E(\"E \"+en(e))}" % stmt


def _dp(obj, desc):
    return _mut("DP(%s,\"a\",{%s,configurable:true})" % (obj, desc))


# name -> (kind, js, sites used)
OPS = {}


def _op(name, kind, js, uses=()):
    OPS[name] = (kind, js, tuple(uses))


# --- site invocations (each prints one line, or `E <error name>`)
_op("get_o", "site", _site("get(o)"), ["get"])
_op("get_p", "site", _site("get(p)"), ["get"])
_op("get_G", "site", _site("get(GT)"), ["get"])
_op("getb_o", "site", _site("getb(o)"), ["getb"])
_op("set_o", "site", _site("set(o,n++)"), ["set"])
_op("set_p", "site", _site("set(p,n++)"), ["set"])
_op("set_G", "site", _site("set(GT,n++)"), ["set"])
_op("setS_o", "site", _site("setS(o,n++)"), ["setS"])
_op("len_o", "site", _site("len(o)"), ["len"])
_op("m_o", "site", _site("m(o)"), ["m"])
_op("tg_o", "site", _site("tg(o)"), ["tg"])
_op("sup_o", "site", _site("H.sup.call(o)"), ["H"])
_op("sset_o", "site", _site("H.sset.call(o,n++)"), ["H"])
_op("sset_p", "site", _site("H.sset.call(p,n++)"), ["H"])
_op("slen1_o", "site", _site("slen(o,1)"), ["slen"])       # x.length = v through SetPropertyByName: on an array this must run ArraySetLength
_op("slenN_o", "site", _site("slen(o,-1)"), ["slen"])      # RangeError on an array
_op("gr", "site", _site("gr()"), ["gr"])
_op("gw", "site", _site("gw(n++)"), ["gw"])
# --- mutations
_op("o.a=", "mut", _mut("o.a=n++"))
_op("o.b=", "mut", _mut("o.b=n++"))
_op("p.a=", "mut", _mut("p.a=n++"))
_op("p.b=", "mut", _mut("p.b=n++"))
_op("f_p", "mut", _dp("p", "value:function pa(){E(\"pa\");return \"r\"},writable:true,enumerable:true"))   # function-valued data property
_op("p.length=", "mut", _mut("p.length=n++"))
_op("del_o.a", "mut", _mut("delete o.a"))
_op("del_p.a", "mut", _mut("delete p.a"))
_op("del_p.b", "mut", _mut("delete p.b"))
_op("g_o", "mut", _dp("o", "get(){E(\"g\");return 8}"))
_op("s_o", "mut", _dp("o", "set(v){E(\"s \"+sv(v))}"))
_op("ro_o", "mut", _dp("o", "value:6,writable:false,enumerable:true"))
_op("ne_o", "mut", _dp("o", "value:16,writable:true,enumerable:false"))
_op("g_p", "mut", _dp("p", "get(){E(\"G\");return 7}"))
_op("s_p", "mut", _dp("p", "set(v){E(\"S \"+sv(v))}"))
_op("gs_p", "mut", _dp("p", "get(){E(\"G2\");return 9},set(v){E(\"S2 \"+sv(v))}"))
_op("gm_p", "mut", _dp("p", "get(){E(\"GM\");DP(p,\"a\",{value:n++,writable:true,enumerable:true,configurable:true});return 0}"))   # getter replaces itself by a data property
_op("gd_p", "mut", _dp("p", "get(){E(\"GD\");delete p.a;return 0}"))                                                               # getter deletes itself
_op("gd_o", "mut", _dp("o", "get(){E(\"gd\");delete o.a;o.c=n++;return 0}"))                                                      # own getter deletes itself and adds c
_op("sm_p", "mut", _dp("p", "set(v){E(\"SM \"+sv(v));DP(p,\"a\",{value:v,writable:true,enumerable:true,configurable:true})}"))    # setter replaces itself by a data property
_op("su_p", "mut", _dp("p", "get(){E(\"G3\");return 3},set:undefined"))   # accessor whose setter is undefined (keeps attributes and shape of gs_p)
_op("su_o", "mut", _dp("o", "get(){E(\"g3\");return 3},set:undefined"))
_op("ro_p", "mut", _dp("p", "value:5,writable:false,enumerable:true"))
_op("ne_p", "mut", _dp("p", "value:15,writable:true,enumerable:false"))
_op("proto_o=p", "mut", _mut("SPO(o,p)"))
_op("proto_o=q", "mut", _mut("SPO(o,q)"))
_op("proto_o=null", "mut", _mut("SPO(o,null)"))
_op("proto_p=q", "mut", _mut("SPO(p,q)"))
_op("freeze_p", "mut", _mut("FR(p)"))
_op("o={}", "mut", "o={};")
_op("o=create(p)", "mut", "o=OC(p);")
_op("o=[]", "mut", "o=[];")
_op("o=[3]", "mut", "o=[1,2,3];")
_op("o=[](p)", "mut", "o=[];SPO(o,p);")
_op("o=U(p)", "mut", "o=OB();SPO(o,p);")          # Object() gives a unique-shape object
_op("o=\"xy\"", "mut", "o=\"xy\";")
_op("big_o", "mut", "for(var i=0;i<1030;i++)o[\"x\"+i]=i;for(var i=0;i<1030;i++)delete o[\"x\"+(1029-i)];")  # > 1024 transitions: shared -> unique shape
_op("G.a=", "mut", _mut("GT.a=n++"))
_op("del_G.a", "mut", _mut("delete GT.a"))
_op("g_G", "mut", _dp("GT", "get(){E(\"gG\");return 18}"))
_op("s_G", "mut", _dp("GT", "set(v){E(\"sG \"+sv(v))}"))
_op("ro_G", "mut", _dp("GT", "value:19,writable:false,enumerable:true"))
_op("OP.a=", "mut", _mut("OPR.a=n++"))
_op("del_OP.a", "mut", _mut("delete OPR.a"))
_op("pic3", "mut", "for(var i=1;i<4;i++){var w={a:-i};w[\"w\"+i]=0;%s}" % ";".join(
    "try{%s}catch(e){}" % c for c in ("get(w)", "getb(w)", "set(w,-i)", "len(w)", "m(w)", "tg(w)")), ["get", "getb", "set", "len", "m", "tg"])
_op("pic4", "mut", "for(var i=1;i<5;i++){var w={a:-i};w[\"w\"+i]=0;%s}" % ";".join(
    "try{%s}catch(e){}" % c for c in ("get(w)", "getb(w)", "set(w,-i)")), ["get", "getb", "set"])
_op("reset", "mut", "__c06.clean();n=1;p={};q={a:\"qa\"};o=OC(p);")   # a new universe for the SAME sites (what the sites saw before stays cached)
_op("usep", "mut", "OC(p);")
_op("gc", "mut", "GC();")

SITE_OPS = [k for k, v in OPS.items() if v[0] == "site"]
MUT_OPS = [k for k, v in OPS.items() if v[0] == "mut"]

# ------------------------------------------------------------------------------------------------
# alphabets
# ------------------------------------------------------------------------------------------------
FULL = list(OPS)                      # every operation
# the 24 operations of DESIGN.md "### C06" (8 site invocations on o plus the site on p; 15 mutations), by this module's names
DESIGN24 = ["get_o", "get_p", "getb_o", "set_o", "len_o", "m_o", "sup_o", "gr", "gw",
            "o.a=", "p.a=", "p.b=", "del_o.a", "del_p.a", "g_o", "s_o", "ro_o", "ne_o", "g_p", "s_p", "ro_p", "ne_p",
            "proto_o=p", "proto_o=q", "proto_o=null", "freeze_p", "o={}", "o=[]"]
# DESIGN24 plus the super/global/unique-shape operations
MID = DESIGN24 + ["set_p", "sset_p", "sset_o", "get_G", "o=create(p)", "o=U(p)", "G.a=", "del_G.a", "OP.a=", "gs_p", "f_p", "proto_p=q"]
# core alphabet for the deepest level of a tier
CORE = ["get_o", "get_p", "getb_o", "set_o", "set_p", "sup_o", "sset_p", "gr",
        "o.a=", "p.a=", "p.b=", "del_o.a", "del_p.a", "g_p", "s_p", "ro_p",
        "proto_o=q", "proto_o=p", "freeze_p", "o=create(p)", "o=U(p)", "G.a=", "del_G.a", "OP.a="]
# smaller core for depth 5 of the quick tier / depth 6 of thorough
CORE_S = ["get_o", "getb_o", "set_o", "get_p", "gr",
          "o.a=", "p.a=", "p.b=", "del_p.a", "g_p", "proto_o=q", "o=U(p)", "G.a=", "OP.a="]
# depth 5 of thorough
CORE_M = CORE_S + ["sset_p", "s_p", "f_p"]
# operations on the global object / Object.prototype only (unique shapes)
GLOBAL = ["get_G", "set_G", "gr", "gw", "G.a=", "del_G.a", "g_G", "s_G", "ro_G", "OP.a=", "del_OP.a"]
# the operations outside MID plus the sites they interact with
ARRAY_ONLY = ["slen1_o", "slenN_o", "o=[3]"]
SPECIAL = [x for x in FULL if x not in MID and x not in ARRAY_ONLY] + ["get_o", "set_o", "get_p", "p.a=", "del_p.a", "g_p"]
# depth 4 of thorough: without the two self-deleting getters (every history that reaches them with `tg` diverges, half of them by a
# panic that costs a worker process; they are covered up to depth 3 by FULL/SPECIAL)
SPECIAL4 = [x for x in SPECIAL if x not in ("gd_p", "gd_o")]
# arrays: `length` is an exotic property (ArraySetLength) reached through the ordinary cached store
ARRAY = ["o=[3]", "o=[]", "o=[](p)", "slen1_o", "slenN_o", "len_o", "get_o", "set_o", "o.a=", "p.length=", "proto_o=p"]
for _a in (DESIGN24, MID, CORE, CORE_S, CORE_M, GLOBAL, SPECIAL, SPECIAL4, ARRAY):
    for _x in _a:
        assert _x in OPS, _x


def histories(alphabet, depth):
    """All histories of exactly `depth` operations over `alphabet` whose last operation is a site invocation,
    in lexicographic order of alphabet positions."""
    sites = [x for x in alphabet if OPS[x][0] == "site"]
    if depth == 1:
        for s in sites:
            yield (s,)
        return
    for pre in itertools.product(alphabet, repeat=depth - 1):
        for s in sites:
            yield pre + (s,)


def count(alphabet, depth):
    ns = sum(1 for x in alphabet if OPS[x][0] == "site")
    return len(alphabet) ** (depth - 1) * ns


HEAD = ("(function(){var E=__c06.E,sv=__c06.sv,en=__c06.en,OC=__c06.OC,DP=__c06.DP,SPO=__c06.SPO,FR=__c06.FR,OB=__c06.OB,GT=__c06.GT,OPR=__c06.OPR,GC=__c06.GC;"
        "var n=1,p={},q={a:\"qa\"},o=OC(p);")


def block(hist, label):
    """JavaScript of one history; prints `#<label>` first and `$` last."""
    used = []
    for op in hist:
        for s in OPS[op][2]:
            if s not in used:
                used.append(s)
    parts = [HEAD, "E(\"#%s\");" % label]
    parts += [SITE_DEFS[s] + ";" for s in used]
    parts += [OPS[op][1] + ";" for op in hist]
    parts.append("__c06.dump(o,p,q,%s);__c06.clean();E(\"$\")})();" % ("H" if "H" in used else "null"))
    return "".join(parts)


def script(hists, labels=None):
    """One script for a batch of histories."""
    if labels is None:
        labels = range(len(hists))
    return PROLOGUE + "\n".join(block(h, l) for h, l in zip(hists, labels))


def split_lines(lines):
    """Lines of a batch run -> {label: [lines of that block]} (a block cut short by a panic keeps what it printed)."""
    out = {}
    cur = None
    for l in lines:
        if l.startswith("#"):
            cur = l[1:]
            out[cur] = []
        elif cur is not None:
            out[cur].append(l)
    return out
