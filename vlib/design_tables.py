"""Authoring aid: prints markdown tables for DESIGN.md section 10 from KNOWN_FINDINGS.txt, findings/ and evidence/."""
import json, os, re, subprocess, glob
ROOT = os.path.dirname(os.path.dirname(os.path.abspath(__file__)))


def fixed_table():
    lines = [l.strip() for l in open(os.path.join(ROOT, "KNOWN_FINDINGS.txt")) if l.startswith("fixed:")]
    log = subprocess.run(["git", "-C", "/repo", "log", "--format=%h %s"], capture_output=True, text=True).stdout.split("\n")
    subj = {l.split()[0]: " ".join(l.split()[1:]) for l in log if l}
    rows = {}
    n = 0
    for l in lines:
        m = re.match(r"fixed: property=(C\d+) (\S+) (.*)", l)
        if not m:
            continue
        prop, commit, what = m.groups()
        if commit not in subj:
            what = commit + " " + what
            n += 1
            commit = "(see git log) %d" % n
        r = rows.setdefault(commit, {"props": [], "what": what})
        r["props"].append(prop)
        if r["what"].startswith("same") and not what.startswith("same"):
            r["what"] = what
    out = ["| commit | properties | failing input -> observed (expected) |", "|--------|-----------|------------------------------------------|"]
    for c, r in rows.items():
        what = r["what"][:420].replace("|", "\\|")
        out.append("| %s | %s | %s |" % (c, " ".join(sorted(set(r["props"]))), what))
    return "\n".join(out)


def evidence_table():
    out = ["| id | tier | states | transitions | validated against impl | distinct outcomes | known findings met | wall s |", "|----|------|--------|-------------|------------------------|-------------------|--------------------|--------|"]
    for f in sorted(glob.glob(os.path.join(ROOT, "evidence", "C*.json"))):
        e = json.load(open(f))
        c = e["coverage"]
        out.append("| %s | %s | %s | %s | %s | %s | %s | %s |" % (e["property_id"], e["tier"], c.get("states"), c.get("transitions"), c.get("traces_validated_against_impl"),
                                                                c.get("distinct_outcomes"), c.get("known_findings_matched"), e["wall_s"]))
    return "\n".join(out)


if __name__ == "__main__":
    import sys
    print({"fixed": fixed_table, "evidence": evidence_table}[sys.argv[1]]())
