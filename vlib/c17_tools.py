"""Authoring-time tools of the C17 check (never needed by `./check C17 ...`):

  python3 -m vlib.c17_tools genlists <quick|thorough>   regenerate findings/C17-<class>.list + findings/C17.known from a run
                                                         (only mismatches that a defect emulation reproduces exactly)
  python3 -m vlib.c17_tools emucheck <quick|thorough>   converse: on EVERY configuration the engine must equal the model with
                                                         all three defect emulations switched on (complete characterisation)
  python3 -m vlib.c17_tools xval [shards]               cross-validate the reference model against node's vm.SourceTextModule on
                                                         the n <= 3 space; writes oracle/c17-node-xval.json
"""
import json, os, subprocess, sys, time
from multiprocessing import Pool

from . import core
from . import c17_model as M
from .checks import c17 as C

CLASS_TEXT = {
    "rejectwrong": "AsyncModuleExecutionFulfilled step 12.c.ii.1 rejects the module that just fulfilled instead of the throwing parent m "
                   "(source.rs, async_module_execution_fulfilled: `async_module_execution_rejected(module, e, context)` must pass `&m`) -> debug assertion panic",
    "rootcount": "InnerModuleEvaluation step 16: every member of a strongly connected component gets the cycle root's "
                 "[[PendingAsyncDependencies]] (source.rs, inner_evaluate: the `pending_async_dependencies` local of the root's call is stored into every popped member) -> members never run / run early / count assertion panics",
    "nostore": "Evaluate() on a module that is already evaluating-async/evaluated reads the capability of the module instead of its cycle "
               "root and never stores the new capability (source.rs, SourceTextModule::evaluate) -> promise of an overlapping evaluate() never settles",
}


def genlists(tier):
    if not os.environ.get("C17_NOBUILD"):
        core.build(packages=C.PACKAGES)
    chk = core.Check("C17", tier)
    chk.findings.known = {}          # collect everything, also what is already listed
    collect = []
    C.explore(chk, collect=collect)
    write_lists(collect)


def write_lists(collect):
    """merge the (class, bucket) pairs of `collect` into findings/C17-<class>.list and findings/C17.known"""
    by = {}
    unexplained = []
    for c in collect:
        if c["class"] is None:
            unexplained.append(c)
            continue
        key = (core.sha12(c["case"]), core.sha12(c["obs_key"]))
        by.setdefault(c["class"], {}).setdefault(key, [0, c])
        by[c["class"]][key][0] += 1
    fdir = os.path.join(core.ROOT, "findings")
    os.makedirs(fdir, exist_ok=True)
    known_lines = []
    for cls in sorted(by):
        fn = os.path.join(fdir, "C17-%s.list" % cls.replace("+", "_"))
        lines = {}
        if os.path.exists(fn):
            for l in open(fn):
                p = l.split()
                if len(p) >= 2:
                    lines[(p[0], p[1])] = l.rstrip("\n")
        for key, (cnt, c) in by[cls].items():
            cs = c["case"]
            text = "n=%d beh=%s hist=%s%s | %s | e.g. %s" % (cs["n"], cs["beh"], ",".join(cs["hist"]), " pre" if cs["pre"] else "",
                                                             c["obs_key"], c["what"])
            lines.setdefault(key, "%s %s %s" % (key[0], key[1], text))
        with open(fn, "w") as f:
            for key in sorted(lines):
                f.write(lines[key] + "\n")
        text = " + ".join(CLASS_TEXT[b] for b in cls.split("+"))
        known_lines.append('known-list: property=C17 file=findings/C17-%s.list class="%s: %s"' % (cls.replace("+", "_"), cls, text.replace('"', "'")))
        print("class %-32s buckets %5d (file now %5d lines)  configurations %d" % (cls, len(by[cls]), len(lines), sum(v[0] for v in by[cls].values())))
    kn = os.path.join(fdir, "C17.known")
    old = [l.rstrip("\n") for l in open(kn)] if os.path.exists(kn) else []
    keep = [l for l in old if not any(l.split("class=")[0] == k.split("class=")[0] for k in known_lines)]
    with open(kn, "w") as f:
        for l in keep + known_lines:
            f.write(l + "\n")
    print("unexplained mismatches (NOT listed): %d" % len(unexplained))
    for c in unexplained[:10]:
        print("  ", c["what"], "observed", c["observed"], "expected", c["expected"])


def _emu_work(jobs):
    wire = []
    for i, j in enumerate(jobs):
        w = {k: v for k, v in j.items() if k != "fam"}
        w["i"] = i
        wire.append(w)
    res = core.run_jobs(wire, binary=C.VC17, nproc=1, chunk=len(wire), env_extra=C.ENV)
    n = 0
    dev = 0
    bad = []
    for j, r in zip(jobs, res):
        for beh, o in zip(j["behs"], r.get("r", [])):
            outs = [M.canon(o)] if isinstance(o, str) else [M.canon(x[2]) for x in o["outs"]]
            try:
                emu = M.predict(j["n"], j["imp"], j["kinds"], beh, j["hist"], j["pre"], bugs=("rejectwrong", "rootcount", "nostore"))
            except M.ModelAssert as e:
                emu = "ModelAssert " + str(e)
            exp = C.expected_of(j, beh)
            for out in outs:
                n += 1
                if emu != exp:
                    dev += 1
                if out != emu:
                    bad.append((C.describe(j, beh), out, emu))
    return n, dev, bad


def emucheck(tier):
    if not os.environ.get("C17_NOBUILD"):
        core.build(packages=C.PACKAGES)
    total = dev = 0
    bad = []
    with Pool(core.NPROC) as pool:
        for name, desc, jobs in C.families(tier):
            per = max(1, min(64, len(jobs) // (core.NPROC * 6) + 1))
            n0 = total
            for n, d, b in pool.imap(_emu_work, [jobs[i:i + per] for i in range(0, len(jobs), per)]):
                total += n
                dev += d
                bad += b
            print("family %-8s outcomes compared %d, engine != model-with-defects so far: %d" % (name, total - n0, len(bad)))
    print("outcomes %d; emulation deviates from the specification on %d; engine differs from the emulation on %d" % (total, dev, len(bad)))
    for b in bad[:20]:
        print("  ", b)
    return 0 if not bad else 1


# --------------------------------------------------------------------------------------------------
# node cross-validation
# --------------------------------------------------------------------------------------------------
NODE_JS = r"""
// usage: node --experimental-vm-modules c17_xval.js <in.jsonl> <out.jsonl>
const vm = require('vm'), fs = require('fs');
const NAMES = 'abcd';
async function settle() { for (let i = 0; i < 3; i++) await new Promise(r => setImmediate(r)); }
async function runOne(cfg) {
  const lines = [];
  const context = vm.createContext({ print: s => lines.push(String(s)) });
  const mods = {};
  cfg.src.forEach((s, i) => { mods[NAMES[i]] = new vm.SourceTextModule(s, { context, identifier: NAMES[i] }); });
  const log = [];
  const linker = (spec, ref) => { log.push(ref.identifier + '>' + spec); return mods[spec]; };
  const steps = [], promises = [];
  const stateOf = p => p.s === undefined ? 'P' : p.s;
  // node refuses to link a module whose dependency has already failed, so link every history module first
  for (const h of cfg.hist) { const m = mods[h[0]]; if (m.status === 'unlinked') await m.link(linker); }
  for (const h of cfg.hist) {
    const m = mods[h[0]];
    const rec = { s: undefined };
    try {
      const pr = m.evaluate();
      pr.then(() => { rec.s = 'F'; }, e => { rec.s = 'R:' + String(e); });
    } catch (e) { rec.s = '!evaluate:' + e.code; }
    await settle();
    steps.push(lines.splice(0).join('|') + '~' + stateOf(rec));
    promises.push(rec);
  }
  const ns = [];
  for (let i = 0; i < cfg.src.length; i++) {
    const m = mods[NAMES[i]];
    if (m.status === 'unlinked') continue;
    const o = m.namespace, items = [];
    for (const k of Object.getOwnPropertyNames(o)) {
      let v; try { v = String(o[k]); } catch (e) { v = e instanceof ReferenceError ? 'TDZ' : 'ERR'; }
      items.push(k + '=' + v);
    }
    ns.push(NAMES[i] + '{' + items.join(',') + '}');
  }
  log.sort();
  return steps.join('#') + '$' + promises.map(stateOf).join(',') + '$' + ns.join(' ') + '$' + log.join(',');
}
(async () => {
  const inp = fs.readFileSync(process.argv[2], 'utf8').split('\n').filter(Boolean);
  const skip = +process.argv[4] || 0;
  let buf = [];
  for (let i = skip; i < inp.length; i++) {
    const cfg = JSON.parse(inp[i]); let r;
    fs.writeFileSync(process.argv[3] + '.cur', String(i));      // which configuration is running if V8 aborts
    try { r = await runOne(cfg); } catch (e) { r = 'NODE-ERROR ' + e; }
    buf.push(JSON.stringify(r));
    if (buf.length >= 50) { fs.appendFileSync(process.argv[3], buf.join('\n') + '\n'); buf = []; }
  }
  if (buf.length) fs.appendFileSync(process.argv[3], buf.join('\n') + '\n');
})();
"""


def _xval_configs():
    """n <= 2: all graphs x kind variants x 4^n x both history orders; n = 3: all graphs x 4^3, default kinds, history [a,a,b,b]"""
    for n in (1, 2):
        names = M.NAMES[:n]
        hists = [[a, a, b, b] for a in names for b in names if a != b] or [["a", "a"]]
        for imp in C.graphs(n):
            for kinds in C.kind_variants(imp):
                for hist in hists:
                    for beh in C.all_behs(n):
                        yield n, imp, kinds, beh, hist
    for imp in C.graphs(3):
        kinds = ["n" * len(x) for x in imp]
        for beh in C.all_behs(3):
            yield 3, imp, kinds, beh, ["a", "a", "b", "b"]
    # n = 3 edge kinds: one edge varied, behaviours ppp and one awaiting module
    for imp in C.graphs(3):
        for kinds in C.kind_variants(imp)[1:]:
            for beh in ("ppp", "pwp"):
                yield 3, imp, kinds, beh, ["a", "a", "b", "b"]


def _xval_shard(args):
    k, cfgs, outdir = args
    js = os.path.join(outdir, "c17_xval.js")
    inp = os.path.join(outdir, "in%d.jsonl" % k)
    outp = os.path.join(outdir, "out%d.jsonl" % k)
    with open(inp, "w") as f:
        for n, imp, kinds, beh, hist in cfgs:
            f.write(json.dumps({"src": M.sources(n, imp, kinds, beh), "hist": hist}) + "\n")
    open(outp, "w").close()
    done = 0
    while True:
        p = subprocess.run(["node", "--experimental-vm-modules", "--no-warnings", js, inp, outp, str(done)], stdout=subprocess.DEVNULL, stderr=subprocess.PIPE)
        if p.returncode == 0:
            break
        # V8 aborted (a CHECK failed inside V8): results are flushed in blocks, so re-run from the last flushed line up to the
        # crashing configuration one at a time is not needed -- record the crash at the index V8 died on and continue after it
        lines = [l for l in open(outp).read().split("\n") if l]
        cur = int(open(outp + ".cur").read())
        # recompute the unflushed results before `cur` by running exactly that range again, with a stop marker
        with open(outp, "w") as f:
            for l in lines:
                f.write(l + "\n")
        if len(lines) < cur:
            sub = inp + ".sub"
            with open(sub, "w") as f:
                for c in cfgs[len(lines):cur]:
                    f.write(json.dumps({"src": M.sources(c[0], c[1], c[2], c[3]), "hist": c[4]}) + "\n")
            subprocess.run(["node", "--experimental-vm-modules", "--no-warnings", js, sub, outp, "0"], check=True, stdout=subprocess.DEVNULL, stderr=subprocess.DEVNULL)
            os.unlink(sub)
        msg = [l for l in p.stderr.decode("utf-8", "replace").split("\n") if "Check failed" in l or "FATAL" in l]
        with open(outp, "a") as f:
            f.write(json.dumps("NODE-CRASH " + (msg[0].strip("# ") if msg else "rc=%d" % p.returncode)) + "\n")
        done = cur + 1
    bad = []
    crashed = []
    total = 0
    with open(outp) as f:
        for (n, imp, kinds, beh, hist), l in zip(cfgs, f):
            got = json.loads(l)
            exp = M.predict(n, imp, kinds, beh, hist)
            total += 1
            if got.startswith("NODE-CRASH"):
                crashed.append(((n, imp, kinds, beh, hist), got, exp))
            elif got != exp:
                bad.append(((n, imp, kinds, beh, hist), got, exp))
    for fn in (inp, outp, outp + ".cur"):
        if os.path.exists(fn):
            os.unlink(fn)
    return total, bad, crashed


def xval(shards=16, limit=0):
    outdir = os.path.join(core.OUT, "c17")
    os.makedirs(outdir, exist_ok=True)
    with open(os.path.join(outdir, "c17_xval.js"), "w") as f:
        f.write(NODE_JS)
    t = time.time()
    total = 0
    bad = []
    crashed = []
    allc = list(_xval_configs())
    if limit:
        allc = allc[:limit]
    per = 2000      # one node process per 2000 configurations (every configuration creates a vm context)
    tasks = [(k, allc[i:i + per], outdir) for k, i in enumerate(range(0, len(allc), per))]
    with Pool(min(shards, core.NPROC)) as pool:
        for n, b, c in pool.imap(_xval_shard, tasks):
            total += n
            bad += b
            crashed += c
    ver = subprocess.run(["node", "--version"], stdout=subprocess.PIPE, text=True).stdout.strip()
    print("node %s: %d configurations, %d differ, %d made V8 abort (%.0fs)" % (ver, total, len(bad), len(crashed), time.time() - t))
    for c in crashed[:5]:
        print("  V8 abort:", c)
    for b in bad[:20]:
        print("  ", b)
    if not limit:
        with open(os.path.join(core.ROOT, "oracle", "c17-node-xval.json"), "w") as f:
            json.dump({"node": ver, "api": "vm.SourceTextModule (--experimental-vm-modules)",
                       "space": "n<=2: all graphs x default+one-edge-varied kinds x 4^n behaviours x histories [x,x,y,y]; n=3: all 4096 graphs x 4^3 "
                                "behaviours, default kinds, history [a,a,b,b]; n=3: all graphs x one edge varied x behaviours {ppp,pwp}",
                       "compared": "whole outcome string of vlib/c17_model.py predict(): print trace per evaluate call, promise state after each call and at "
                                   "the end, namespaces, sorted linker request log",
                       "configurations": total, "differences": len(bad), "v8_aborts": len(crashed),
                       "v8_abort_note": "node 20's V8 (11.3) aborts on a CHECK inside SourceTextModule::Evaluate for these configurations; they are "
                                        "not compared",
                       "v8_abort_examples": [{"config": c[0], "node": c[1], "model": c[2]} for c in crashed[:20]],
                       "differing": [{"config": b[0], "node": b[1], "model": b[2]} for b in bad[:50]]}, f, indent=1)
    return 0 if not bad else 1


if __name__ == "__main__":
    a = sys.argv[1:]
    if a and a[0] == "genlists":
        genlists(a[1] if len(a) > 1 else "quick")
    elif a and a[0] == "emucheck":
        sys.exit(emucheck(a[1] if len(a) > 1 else "quick"))
    elif a and a[0] == "xval":
        sys.exit(xval(int(a[1]) if len(a) > 1 else 16, int(a[2]) if len(a) > 2 else 0))
    else:
        print(__doc__)
