"""C18 helper: the JavaScript driver (pure ASCII source; texts are built from code units inside the engine), the stringify
input catalogue (each special input is defined twice: JS source and model constructor), and the reference's expected output
lines for every job kind.  Everything is a pure function of the job descriptor."""
import json
from . import c18_json as J
from .c18_json import UNDEF, Obj, JSSymbol, JSBigInt, JSThrow, mk_array, mk_object, mk_function, mk_wrapper, mk_proxy, qs, dump

# ------------------------------------------------------------------------------------------------
# JS driver
# ------------------------------------------------------------------------------------------------
DRIVER = r"""
var fcc=String.fromCharCode, ownKeys=Reflect.ownKeys, gpo=Object.getPrototypeOf, gopd=Object.getOwnPropertyDescriptor,
    defp=Object.defineProperty, isArr=Array.isArray, OP=Object.prototype, AP=Array.prototype, jparse=JSON.parse,
    jstr=JSON.stringify, emit=__emit, SE=SyntaxError, floor=Math.floor;
var HEX='0123456789abcdef', HEXU='0123456789ABCDEF';
function h4(c){return HEX[(c>>>12)&15]+HEX[(c>>>8)&15]+HEX[(c>>>4)&15]+HEX[c&15];}
function h4u(c){return HEXU[(c>>>12)&15]+HEXU[(c>>>8)&15]+HEXU[(c>>>4)&15]+HEXU[c&15];}
function qs(s){var r='"';for(var i=0;i<s.length;i++){var c=s.charCodeAt(i);if(c===34||c===92)r+='\\'+s[i];else if(c>=32&&c<127)r+=s[i];else r+='\\u'+h4(c);}return r+'"';}
var dv=new DataView(new ArrayBuffer(8));
function num(v){dv.setFloat64(0,v);var a=dv.getUint32(0),b=dv.getUint32(4);return 'n'+h4(a>>>16)+h4(a&65535)+h4(b>>>16)+h4(b&65535);}
function okd(d){return ('value' in d)&&d.writable===true&&d.enumerable===true&&d.configurable===true;}
function D(v){
  if(v===null)return 'null';
  switch(typeof v){case 'boolean':return v?'T':'F';case 'number':return num(v);case 'string':return qs(v);case 'undefined':return 'U';case 'object':break;default:return '?'+typeof v;}
  var r,i,ks=ownKeys(v),d,k;
  if(isArr(v)){
    r='';var present=0;
    for(i=0;i<v.length;i++){if(i)r+=',';d=gopd(v,i);if(!d)r+='<hole>';else{present++;if(!okd(d))r+='!attr';r+=D(d.value);}}
    return (gpo(v)===AP?'':'!proto')+(ks.length===present+1?'':'!keys')+'['+r+']';
  }
  r=gpo(v)===OP?'{':'!proto{';
  for(i=0;i<ks.length;i++){if(i)r+=',';k=ks[i];if(typeof k!=='string'){r+='!sym';continue;}d=gopd(v,k);if(!okd(d))r+='!attr';r+=qs(k)+':'+D(d.value);}
  return r+'}';
}
function en(e){try{return (e instanceof Error)?String(e.name):'thrown:'+typeof e;}catch(x){return 'thrown:?';}}
function clone(x){
  if(x===null||typeof x!=='object')return x;var r,i,ks;
  if(isArr(x)){r=[];for(i=0;i<x.length;i++)if(gopd(x,i))r[i]=clone(x[i]);r.length=x.length;return r;}
  r={};ks=ownKeys(x);for(i=0;i<ks.length;i++)defp(r,ks[i],{value:clone(gopd(x,ks[i]).value),writable:true,enumerable:true,configurable:true});return r;
}
var SRC=__SRC__;
function src(c){if(c===undefined)return 'noctx';if(c===null||typeof c!=='object')return 'ctx?'+typeof c;var ks=ownKeys(c);
  if(gpo(c)!==OP)return 'ctx!proto';if(ks.length===0)return '-';if(ks.length===1&&ks[0]==='source'&&okd(gopd(c,'source')))return 's'+(typeof c.source==='string'?qs(c.source):'?');return 'ctx!'+ks.length;}
function hk(h){return (isArr(h)?'A':'O')+ownKeys(h).length;}
function rev1(i,t,mode){
  // R line: the reviver walk (key, value, holder) - part of the verdict.  C line: the third argument (context.source of the
  // JSON.parse-source-text proposal) - informational only, not part of the property.
  var log=[],sl=[],r;
  try{
    r=jparse(t,function(k,v,c){
      log.push(qs(k)+'/'+D(v)+'/'+hk(this));if(SRC)sl.push(src(c));
      if(mode===2&&typeof v==='number')return undefined;
      if(mode===3){var ks=ownKeys(this);if(isArr(this))ks.pop();if(ks.length>1&&ks[0]===k){var last=ks[ks.length-1];
        defp(this,last,{value:clone(gopd(this,last).value),writable:true,enumerable:true,configurable:true});}}
      return v;});
    emit('R'+mode+' '+i+' '+log.join(';')+' => '+D(r));
  }catch(e){emit('R'+mode+' '+i+' '+log.join(';')+' => err '+en(e));}
  if(SRC)emit('C'+mode+' '+i+' '+sl.join(';'));
}
function revs(i,t){rev1(i,t,1);rev1(i,t,2);rev1(i,t,3);}
var GEN={};
function mixed(tab,l,idx){var n=tab.length,s='';for(var k=0;k<l;k++){var d=idx%n;s=tab[d]+s;idx=(idx-d)/n;}return s;}
GEN.g1=function(l,i){return '"'+fcc(i)+'"';};
GEN.g2=function(l,i){return fcc(i)+'1'+fcc(i);};
GEN.g3=function(l,i){return '"\\'+fcc(i)+'"';};
GEN.g4=function(l,i){return '"\\u'+(l?h4u(i):h4(i))+'"';};
GEN.g5=function(l,i){return fcc(i);};
function blk(i,f){var s='';for(var k=0;k<16;k++)s+=f(16*i+k);return s;}
GEN.g1b=function(l,i){return '"'+blk(i,fcc)+'"';};
GEN.g4b=function(l,i){return '"'+blk(i,function(c){return '\\u'+h4(c);})+'"';};
GEN.g5b=function(l,i){return blk(i,fcc);};
GEN.g4u=function(l,i){return '"\\u'+h4u(i<256?i:(i-256)<<8)+'"';};
var U6=[0x41,0xD800,0xDBFF,0xDC00,0xDFFF,0x2028].map(function(c){return fcc(c);});
GEN.g6=function(l,i){return mixed(U6,l,i);};
// parse families: one 'A <i> <dump>' line per accepted text, 'X <i> <name>' per non-SyntaxError exception, 'N <count of SyntaxErrors>'
function runParse(gen,l,lo,hi,rev,listall){
  var nS=0;
  for(var i=lo;i<hi;i++){
    var t=gen(l,i),v,ok=false;
    try{v=jparse(t);ok=true;}catch(e){if(e instanceof SE){nS++;if(listall)emit('X '+i+' SyntaxError');}else emit('X '+i+' '+en(e));}
    if(ok){emit('A '+i+' '+D(v));if(rev)revs(i,t);}
  }
  emit('N '+nS);
}
// family (d): valid value texts: parse, stringify, re-parse, re-stringify, revivers
function runValues(texts,base){
  for(var j=0;j<texts.length;j++){
    var i=base+j,t=texts[j],v,s,v2,ok=false;
    try{v=jparse(t);ok=true;}catch(e){emit('X '+i+' '+en(e));}
    if(!ok)continue;
    emit('A '+i+' '+D(v));
    try{s=jstr(v);emit('S '+i+' '+(typeof s==='string'?qs(s):'?'+typeof s));
      v2=jparse(s);emit('Q '+i+' '+D(v2));
      var s2=jstr(v2);emit('Z '+i+' '+(typeof s2==='string'?qs(s2):'?'+typeof s2));
    }catch(e){emit('S '+i+' err '+en(e));}
    revs(i,t);
  }
}
// strings -> stringify -> parse back
function runQuote(gen,l,lo,hi){
  for(var i=lo;i<hi;i++){
    var s=gen(l,i),q,b;
    try{q=jstr(s);emit('Q '+i+' '+(typeof q==='string'?qs(q):'?'+typeof q));}catch(e){emit('Q '+i+' err '+en(e));continue;}
    try{b=jparse(q);emit('B '+i+' '+(b===s?'same':'diff '+D(b)));}catch(e){emit('B '+i+' err '+en(e));}
  }
}
// stringify family
var L=[];function log(x){L.push(x);}
function ty(v){return v===null?'null':isArr(v)?'array':typeof v;}
function LP(t,name){return new Proxy(t,{
  get:function(tt,k,r){log(name+'.get:'+(typeof k==='symbol'?'sym':qs(k)));return Reflect.get(tt,k,r);},
  ownKeys:function(tt){log(name+'.ownKeys');return Reflect.ownKeys(tt);},
  getOwnPropertyDescriptor:function(tt,k){log(name+'.gopd:'+(typeof k==='symbol'?'sym':qs(k)));return Reflect.getOwnPropertyDescriptor(tt,k);}});}
var REPS=[
  function(){return undefined;},
  function(){return function(k,v){log('r:'+qs(k)+'/'+ty(v)+'/'+(isArr(this)?'A':'O'));if(k==='a')return undefined;if(k==='1')return {renamed:v};return v;};},
  function(){return ["b","a",1,"a","__proto__",new String("\ud800"),{},null,true,1,new Number(2),"hid","x"];}
];
var INDENTS=[undefined,0,2,11,"\t","abcdefghijkl",new Number(3),new String("ab"),2.9,-1,true,{},"",Infinity,NaN,null,10,"0123456789"];
function runStringify(vals,base,plain,inds){
  for(var j=0;j<vals.length;j++){
    var vi=base+j,f=vals[j][0],cleanup=vals[j][1];
    if(plain){try{emit('V '+vi+' '+D(f()));}catch(e){emit('V '+vi+' err '+en(e));}}
    for(var ri=0;ri<REPS.length;ri++)for(var ix=0;ix<inds.length;ix++){
      var out,ii=inds[ix];L=[];
      try{var r=jstr(f(),REPS[ri](),INDENTS[ii]);out=r===undefined?'U':(typeof r==='string'?qs(r):'?'+typeof r);}catch(e){out='err '+en(e);}
      if(cleanup)cleanup();
      emit('E '+vi+' '+ri+' '+ii+' '+out+' | '+L.join(';'));
    }
  }
}
"""


DRIVER_DEPTH = r"""
var ownKeys=Reflect.ownKeys, isArr=Array.isArray, jparse=JSON.parse, jstr=JSON.stringify, emit=__emit;
function en(e){try{return (e instanceof Error)?String(e.name):'thrown:'+typeof e;}catch(x){return 'thrown:?';}}
// nesting depth
function runDepth(d){
  var t,v,x,n,s,i;
  // arrays
  t='';for(i=0;i<d;i++)t+='[';for(i=0;i<d;i++)t+=']';
  try{v=jparse(t);n=0;x=v;while(isArr(x)&&x.length===1){x=x[0];n++;}emit('PA '+((isArr(x)&&x.length===0&&n===d-1)?'ok':'wrong '+n));}catch(e){emit('PA err '+en(e));}
  try{x=[];for(i=1;i<d;i++)x=[x];s=jstr(x);emit('SA '+(s===t?'ok':'wrong'));}catch(e){emit('SA err '+en(e));}
  // objects
  t='';for(i=0;i<d;i++)t+='{"a":';t+='null';for(i=0;i<d;i++)t+='}';
  try{v=jparse(t);n=0;x=v;while(x!==null&&typeof x==='object'&&!isArr(x)&&ownKeys(x).length===1&&ownKeys(x)[0]==='a'){x=x.a;n++;}emit('PO '+((x===null&&n===d)?'ok':'wrong '+n));}catch(e){emit('PO err '+en(e));}
  try{x=null;for(i=0;i<d;i++)x={a:x};s=jstr(x);emit('SO '+(s===t?'ok':'wrong'));}catch(e){emit('SO err '+en(e));}
}
"""


def js_str(s):
    """ASCII JS string literal for a code-unit string"""
    out = ['"']
    for ch in s:
        c = ord(ch)
        if ch in '"\\':
            out.append("\\" + ch)
        elif 32 <= c < 127:
            out.append(ch)
        else:
            out.append("\\u%04x" % c)
    out.append('"')
    return "".join(out)


def driver(src_ctx):
    d = DRIVER.replace("__SRC__", "true" if src_ctx else "false")
    d += "var AL=[%s].map(function(c){return fcc(c);});GEN.a=function(l,i){return mixed(AL,l,i);};\n" % ",".join(map(str, J.ALPHABET))
    d += "var TOK=[%s];GEN.b=function(l,i){return mixed(TOK,l,i);};\n" % ",".join(js_str(t) for t in J.TOKENS)
    return d


PROBE_SRC = "JSON.parse('1',function(k,v,c){__emit(typeof c+'/'+(c&&typeof c==='object'?typeof c.source:'-'));return v;});"

# ------------------------------------------------------------------------------------------------
# generators mirrored in Python
# ------------------------------------------------------------------------------------------------
U6 = [0x41, 0xD800, 0xDBFF, 0xDC00, 0xDFFF, 0x2028]


def gen_text(fam, l, i):
    if fam == "a":
        return J.text_a(l, i)
    if fam == "b":
        return J.text_b(l, i)
    if fam == "g1":
        return '"' + chr(i) + '"'
    if fam == "g2":
        return chr(i) + "1" + chr(i)
    if fam == "g3":
        return '"\\' + chr(i) + '"'
    if fam == "g4":
        return '"\\u' + (("%04X" if l else "%04x") % i) + '"'
    if fam == "g5":
        return chr(i)
    if fam == "g1b":
        return '"' + "".join(chr(16 * i + k) for k in range(16)) + '"'
    if fam == "g4b":
        return '"' + "".join("\\u%04x" % (16 * i + k) for k in range(16)) + '"'
    if fam == "g5b":
        return "".join(chr(16 * i + k) for k in range(16))
    if fam == "g4u":
        return '"\\u%04X"' % (i if i < 256 else (i - 256) << 8)
    if fam == "g6":
        cs = []
        for _ in range(l):
            cs.append(chr(U6[i % 6]))
            i //= 6
        return "".join(reversed(cs))
    raise KeyError(fam)


# ------------------------------------------------------------------------------------------------
# revivers (mirrors of rev1 modes 1..3)
# ------------------------------------------------------------------------------------------------
def model_clone(x):
    if not isinstance(x, Obj):
        return x
    if x.cls == "Array":
        r = Obj("Array")
        for i in range(x.length):
            p = x.find(str(i))
            if p is not None:
                r.define(str(i), model_clone(p.value))
        r.length = x.length
        return r
    r = Obj("Object")
    for k in x.own_keys():
        r.define(k, model_clone(x.find(k).value))
    return r


def _hk(h):
    if h.cls == "Array":
        return "A%d" % (len(h.props) + 1)
    return "O%d" % len(h.props)


def rev_line(mode, i, text, src_ctx):
    """-> [R line (verdict: key / value / holder walk and result)] + [C line (informational: context.source per call)]"""
    log, sl = [], []

    def f(holder, name, val, source):
        log.append(qs(name) + "/" + dump(val) + "/" + _hk(holder))
        sl.append("-" if source is None else "s" + qs(source))
        if mode == 2 and isinstance(val, float):
            return UNDEF
        if mode == 3:
            ks = holder.own_keys()
            if len(ks) > 1 and ks[0] == name:
                last = ks[-1]
                holder.define(last, model_clone(holder.find(last).value))
        return val

    r = J.parse_with_reviver(text, f)
    out = ["R%d %d %s => %s" % (mode, i, ";".join(log), dump(r))]
    if src_ctx:
        out.append("C%d %d %s" % (mode, i, ";".join(sl)))
    return out


def rev_lines(i, text, src_ctx):
    return [l for m in (1, 2, 3) for l in rev_line(m, i, text, src_ctx)]


# ------------------------------------------------------------------------------------------------
# stringify catalogue
# ------------------------------------------------------------------------------------------------
def _replacers(I):
    def rfn(this, args):
        k, v = args
        I.log.append("r:%s/%s/%s" % (qs(k), _ty(I, v), "A" if I.is_array(this) else "O"))
        if k == "a":
            return UNDEF
        if k == "1":
            return mk_object([("renamed", v)])
        return v

    return [
        lambda: UNDEF,
        lambda: mk_function(rfn),
        lambda: mk_array(["b", "a", 1.0, "a", "__proto__", mk_wrapper("String", "\ud800"), Obj("Object"), None, True, 1.0,
                          mk_wrapper("Number", 2.0), "hid", "x"]),
    ]


def _ty(I, v):
    if v is None:
        return "null"
    if I.is_array(v):
        return "array"
    if v is UNDEF:
        return "undefined"
    if isinstance(v, bool):
        return "boolean"
    if isinstance(v, float):
        return "number"
    if isinstance(v, str):
        return "string"
    if isinstance(v, JSSymbol):
        return "symbol"
    if isinstance(v, JSBigInt):
        return "bigint"
    if I.is_callable(v):
        return "function"
    return "object"


def _indents():
    inf = float("inf")
    return [UNDEF, 0.0, 2.0, 11.0, "\t", "abcdefghijkl", mk_wrapper("Number", 3.0), mk_wrapper("String", "ab"), 2.9, -1.0, True,
            Obj("Object"), "", inf, float("nan"), None, 10.0, "0123456789"]


INDS_MAIN = [0, 1, 2, 3, 4, 5]  # the task's six; the rest are applied to the special inputs only
INDS_SUB = [0, 2, 5]  # none, 2, "abcdefghijkl": used for the largest value layer of the thorough tier
INDS_ALL = list(range(18))
N_REPS = 3


def _date_proto(I, result):
    p = Obj("Object")
    p.define("toJSON", mk_function(lambda this, args: result), enumerable=False)
    return p


def _fn_logging(I, tag, result_fn, with_key=True):
    def call(this, args):
        I.log.append(tag + (":" + qs(args[0]) if with_key and args and isinstance(args[0], str) else ""))
        return result_fn(this, args)
    return mk_function(call)


def _sp_tojson_obj(I):
    o = mk_object([("a", 1.0)])
    o.define("toJSON", _fn_logging(I, "toJSON", lambda this, a: mk_object([("x", mk_array([a[0]])), ("y", 2.0)])))
    return o


def _sp_tojson_nested(I):
    a = mk_object([("toJSON", _fn_logging(I, "tj", lambda this, a: a[0] + "!"))])
    b0 = mk_object([("toJSON", _fn_logging(I, "tj", lambda this, a: UNDEF))])
    b1 = mk_object([("toJSON", _fn_logging(I, "tj", lambda this, a: a[0]))])
    return mk_object([("a", a), ("b", mk_array([b0, b1])), ("toJSON", 5.0)])


def _sp_boxed_override(I):
    n = mk_wrapper("Number", 3.0)
    n.define("valueOf", _fn_logging(I, "n.valueOf", lambda t, a: 7.0))
    n.define("toString", _fn_logging(I, "n.toString", lambda t, a: "x"))
    s = mk_wrapper("String", "s")
    s.define("toString", _fn_logging(I, "s.toString", lambda t, a: "t"))
    s.define("valueOf", _fn_logging(I, "s.valueOf", lambda t, a: "v"))
    b = mk_wrapper("Boolean", True)
    b.define("valueOf", _fn_logging(I, "b.valueOf", lambda t, a: False))
    return mk_array([n, s, b, mk_object([("n", n), ("s", s)])])


def _sp_cyc_obj(I):
    a = mk_object([("x", 1.0)])
    a.define("a", a)
    return a


def _sp_cyc_arr(I):
    a = mk_array([1.0])
    a.define("1", mk_array([a]))
    return a


def _sp_cyc_tojson(I):
    a = Obj("Object")
    a.define("b", mk_object([("toJSON", mk_function(lambda t, args: a))]))
    return a


def _sp_diamond(I):
    s = mk_object([("v", 1.0)])
    return mk_object([("p", s), ("q", s), ("r", mk_array([s, s]))])


def _sp_sparse2(I):
    s = Obj("Array")
    s.define("2", 1.0)
    s.define("extra", 5.0)
    return s


def _sp_symkeys(I):
    o = mk_object([("a", 1.0)])
    o.define(JSSymbol("s"), 2.0)
    o.define("hid", 3.0, enumerable=False)
    o.define("z", 4.0)
    return o


def _sp_getters(I):
    o = Obj("Object")

    def gb(recv):
        I.log.append("get b")
        return 1.0

    def ga(recv):
        I.log.append("get a")
        return mk_object([("toJSON", _fn_logging(I, "tj a", lambda t, a: 2.0, False))])

    def g1(recv):
        I.log.append("get 1")
        return UNDEF

    o.define("b", getter=gb)
    o.define("a", getter=ga)
    o.define("1", getter=g1)
    return o


def _sp_getter_throw(I):
    o = mk_object([("x", 1.0)])

    def g(recv):
        I.log.append("get boom")
        raise JSThrow("RangeError")

    o.define("boom", getter=g)
    o.define("after", 2.0)
    return o


def _sp_lp_obj(I):
    return mk_proxy(mk_object([("a", 1.0), ("b", mk_object([("c", 2.0)])), ("1", 3.0)]), "P")


def _sp_lp_arr(I):
    return mk_proxy(mk_array([1.0, mk_array([2.0])]), "Q")


def _sp_lp_nested(I):
    t = mk_object([("y", 1.0)])
    t.define(JSSymbol("s"), 2.0)
    t.define("hid", 3.0, enumerable=False)
    return mk_object([("x", mk_proxy(t, "P")), ("b", mk_proxy(mk_array([mk_proxy(mk_object([("a", None)]), "R")]), "Q"))])


def _sp_bigint_tojson(I):
    def tj(this, args):
        I.log.append("big:" + qs(args[0]))
        return str(this.v) + "n"
    I.bigint_proto_tojson = mk_function(tj)
    return mk_object([("v", JSBigInt(1)), ("w", mk_array([JSBigInt(2)]))])


_NUMS = [float("nan"), float("inf"), float("-inf"), -0.0, 1e21, 1e-7, 123456789012345680000.0, 0.000001, 5e-324,
         1.7976931348623157e308, 4.35, 0.1 + 0.2, 1e20, -1e-6, 2.0 ** 53, 0.5, 100.0, 1.5e-10, 123.456]

# (name, JS factory body (an expression evaluated afresh for every call), JS cleanup statement or None, model constructor)
SPECIALS = [
    ("undefined", "undefined", None, lambda I: UNDEF),
    ("function", "function f(){}", None, lambda I: mk_function()),
    ("symbol", "Symbol('s')", None, lambda I: JSSymbol("s")),
    ("bigint", "1n", None, lambda I: JSBigInt(1)),
    ("bigint-nested", "{a:[1n]}", None, lambda I: mk_object([("a", mk_array([JSBigInt(1)]))])),
    ("numbers", "[NaN,Infinity,-Infinity,-0,1e21,1e-7,123456789012345680000,0.000001,5e-324,1.7976931348623157e308,4.35,0.1+0.2,1e20,-1e-6,"
                "9007199254740992,0.5,100,1.5e-10,123.456]", None, lambda I: mk_array(list(_NUMS))),
    ("toJSON-object", "{a:1,toJSON:function(k){log('toJSON:'+qs(k));return {x:[k],y:2};}}", None, _sp_tojson_obj),
    ("toJSON-nested", "{a:{toJSON:function(k){log('tj:'+qs(k));return k+'!';}},b:[{toJSON:function(k){log('tj:'+qs(k));return undefined;}},"
                      "{toJSON:function(k){log('tj:'+qs(k));return k;}}],toJSON:5}", None, _sp_tojson_nested),
    ("boxed", "[new Number(3),new String('s\\ud800'),new Boolean(false),Object(Symbol('q')),new Number(-0),new Number(NaN)]", None,
     lambda I: mk_array([mk_wrapper("Number", 3.0), mk_wrapper("String", "s\ud800"), mk_wrapper("Boolean", False), Obj("Object", Obj("Object")),
                         mk_wrapper("Number", -0.0), mk_wrapper("Number", float("nan"))])),
    ("boxed-root-string", "new String('x\"y')", None, lambda I: mk_wrapper("String", 'x"y')),
    ("boxed-bigint", "Object(1n)", None, lambda I: mk_wrapper("BigInt", JSBigInt(1))),
    ("boxed-override", "(function(){var n=new Number(3);n.valueOf=function(){log('n.valueOf');return 7;};n.toString=function(){log('n.toString');return 'x';};"
                       "var s=new String('s');s.toString=function(){log('s.toString');return 't';};s.valueOf=function(){log('s.valueOf');return 'v';};"
                       "var b=new Boolean(true);b.valueOf=function(){log('b.valueOf');return false;};return [n,s,b,{n:n,s:s}];})()", None, _sp_boxed_override),
    ("date-0", "new Date(0)", None, lambda I: Obj("Object", _date_proto(I, "1970-01-01T00:00:00.000Z"))),
    ("date-NaN", "[new Date(NaN)]", None, lambda I: mk_array([Obj("Object", _date_proto(I, None))])),
    ("date-like", "{d:{toJSON:function(k){log('d.toJSON:'+qs(k));return '2020-02-02T00:00:00.000Z';},x:1},e:2}", None,
     lambda I: mk_object([("d", mk_object([("toJSON", _fn_logging(I, "d.toJSON", lambda t, a: "2020-02-02T00:00:00.000Z")), ("x", 1.0)])), ("e", 2.0)])),
    ("cyclic-object", "(function(){var a={x:1};a.a=a;return a;})()", None, _sp_cyc_obj),
    ("cyclic-array", "(function(){var a=[1];a.push([a]);return a;})()", None, _sp_cyc_arr),
    ("cyclic-toJSON", "(function(){var a={};a.b={toJSON:function(){return a;}};return a;})()", None, _sp_cyc_tojson),
    ("diamond", "(function(){var s={v:1};return {p:s,q:s,r:[s,s]};})()", None, _sp_diamond),
    ("sparse", "[1,,3]", None, lambda I: (lambda a: (a.define("0", 1.0), a.define("2", 3.0), a)[2])(Obj("Array"))),
    ("sparse-extra", "(function(){var s=[];s[2]=1;s.extra=5;return s;})()", None, _sp_sparse2),
    ("array-nonjson", "[undefined,function(){},Symbol('s')]", None, lambda I: mk_array([UNDEF, mk_function(), JSSymbol("s")])),
    ("object-nonjson", "{a:[{b:undefined,c:function(){},d:Symbol('s')}],u:undefined,x:null}", None,
     lambda I: mk_object([("a", mk_array([mk_object([("b", UNDEF), ("c", mk_function()), ("d", JSSymbol("s"))])])), ("u", UNDEF), ("x", None)])),
    ("proxy-array", "new Proxy([1,{a:2,x:[]}],{})", None, lambda I: mk_proxy(mk_array([1.0, mk_object([("a", 2.0), ("x", mk_array([]))])]))),
    ("proxy-object", "new Proxy({a:1,b:[2],x:{}},{})", None, lambda I: mk_proxy(mk_object([("a", 1.0), ("b", mk_array([2.0])), ("x", Obj("Object"))]))),
    ("logproxy-object", "LP({a:1,b:{c:2},1:3},'P')", None, _sp_lp_obj),
    ("logproxy-array", "LP([1,[2]],'Q')", None, _sp_lp_arr),
    ("logproxy-nested", "(function(){var t={y:1};t[Symbol('s')]=2;defp(t,'hid',{value:3,enumerable:false});return {x:LP(t,'P'),b:LP([LP({a:null},'R')],'Q')};})()",
     None, _sp_lp_nested),
    ("symbol-and-hidden-keys", "(function(){var o={a:1};o[Symbol('s')]=2;defp(o,'hid',{value:3,enumerable:false});o.z=4;return o;})()", None, _sp_symkeys),
    ("getters", "(function(){var o={};defp(o,'b',{get:function(){log('get b');return 1;},enumerable:true});"
                "defp(o,'a',{get:function(){log('get a');return {toJSON:function(){log('tj a');return 2;}};},enumerable:true});"
                "defp(o,'1',{get:function(){log('get 1');return undefined;},enumerable:true});return o;})()", None, _sp_getters),
    ("getter-throws", "(function(){var o={x:1};defp(o,'boom',{get:function(){log('get boom');throw new RangeError('x');},enumerable:true});o.after=2;return o;})()",
     None, _sp_getter_throw),
    ("string-escapes", "{'\\u2028':'\\u2029','\\n':'\\b\\f\\r\\t','\"':'\\\\','\\ud800\\udc00':'\\udc00\\ud800','\\u007f\\u0080':'\\u001f\\u0000 ',x:'\\ud83d\\ude00\\ud83d'}",
     None, lambda I: mk_object([("\u2028", "\u2029"), ("\n", "\b\f\r\t"), ('"', "\\"), ("\ud800\udc00", "\udc00\ud800"),
                                ("\u007f\u0080", "\u001f\u0000 "), ("x", "\ud83d\ude00\ud83d")])),
    ("deep", "{a:[{b:[]},{},[[]]],c:{d:{e:null}},x:[[1,2],[3]]}", None,
     lambda I: mk_object([("a", mk_array([mk_object([("b", mk_array([]))]), Obj("Object"), mk_array([mk_array([])])])),
                          ("c", mk_object([("d", mk_object([("e", None)]))])), ("x", mk_array([mk_array([1.0, 2.0]), mk_array([3.0])]))])),
    ("bigint-proto-toJSON", "(function(){BigInt.prototype.toJSON=function(k){log('big:'+qs(k));return String(this)+'n';};return {v:1n,w:[2n]};})()",
     "delete BigInt.prototype.toJSON;", _sp_bigint_tojson),
]


def special_js_list(lo, hi):
    items = []
    for name, js, cleanup, _ in SPECIALS[lo:hi]:
        items.append("[function(){return (%s);},%s]" % (js, ("function(){%s}" % cleanup) if cleanup else "null"))
    return "[" + ",".join(items) + "]"


def exp_stringify_model(make, vi, plain, inds):
    """expected lines of runStringify for one input; `make(I)` builds a fresh model value"""
    out = []
    if plain:
        out.append("V %d %s" % (vi, dump(make(J.Interp()))))
    for ri in range(N_REPS):
        for ii in inds:
            I = J.Interp()
            try:
                v = make(I)
                r = J.stringify(I, v, _replacers(I)[ri](), _indents()[ii])
                o = "U" if r is UNDEF else qs(r)
            except JSThrow as e:
                o = "err " + e.name
            out.append("E %d %d %d %s | %s" % (vi, ri, ii, o, ";".join(I.log)))
    return out


# ------------------------------------------------------------------------------------------------
# expected lines per job descriptor (run in worker processes)
# ------------------------------------------------------------------------------------------------
def norm_err(name):
    return "err " + name


def expected(desc):
    k = desc["k"]
    src_ctx = desc.get("src", True)
    if k == "parse":
        fam, l, lo, hi, rev = desc["fam"], desc["l"], desc["lo"], desc["hi"], desc.get("rev", False)
        out = []
        ns = 0
        for i in range(lo, hi):
            t = gen_text(fam, l, i)
            try:
                v = J.parse(t)
            except J.Reject:
                ns += 1
                continue
            out.append("A %d %s" % (i, dump(v)))
            if rev:
                out += rev_lines(i, t, src_ctx)
        out.append("N %d" % ns)
        return out
    if k == "values":
        out = []
        for j, t in enumerate(desc["texts"]):
            i = desc["base"] + j
            v = J.parse(t)
            out.append("A %d %s" % (i, dump(v)))
            I = J.Interp()
            s = J.stringify(I, v)
            out.append("S %d %s" % (i, qs(s)))
            v2 = J.parse(s)  # the reference's own output must be valid JSON for the independent recogniser
            out.append("Q %d %s" % (i, dump(v2)))
            out.append("Z %d %s" % (i, qs(J.stringify(J.Interp(), v2))))
            out += rev_lines(i, t, src_ctx)
        return out
    if k == "quote":
        fam, l, lo, hi = desc["fam"], desc["l"], desc["lo"], desc["hi"]
        out = []
        for i in range(lo, hi):
            s = gen_text(fam, l, i)
            q = J.quote_json_string(s)
            out.append("Q %d %s" % (i, qs(q)))
            b = J.parse(q)
            out.append("B %d %s" % (i, "same" if b == s else "diff " + dump(b)))
        return out
    if k == "strval":
        out = []
        for j, (t, _js) in enumerate(desc["vals"]):
            out += exp_stringify_model(lambda I, t=t: J.parse(t), desc["base"] + j, True, desc.get("inds", INDS_MAIN))
        return out
    if k == "strspecial":
        out = []
        for j in range(desc["lo"], desc["hi"]):
            out += exp_stringify_model(SPECIALS[j][3], j, False, INDS_ALL)
        return out
    if k == "depth":
        return ["PA ok", "SA ok", "PO ok", "SO ok"]
    raise KeyError(k)


def source(desc, drv):
    """JS source of a job"""
    k = desc["k"]
    if k == "parse":
        return drv + "runParse(GEN.%s,%d,%d,%d,%s,false);" % (desc["fam"], desc["l"], desc["lo"], desc["hi"], "true" if desc.get("rev") else "false")
    if k == "values":
        return drv + "runValues(%s,%d);" % (json.dumps(desc["texts"]), desc["base"])
    if k == "quote":
        return drv + "runQuote(GEN.%s,%d,%d,%d);" % (desc["fam"], desc["l"], desc["lo"], desc["hi"])
    if k == "strval":
        items = ",".join("[function(){return %s;},null]" % js for _t, js in desc["vals"])
        return drv + "runStringify([%s],%d,true,%s);" % (items, desc["base"], json.dumps(desc.get("inds", INDS_MAIN)))
    if k == "strspecial":
        return drv + "runStringify(%s,%d,false,%s);" % (special_js_list(desc["lo"], desc["hi"]), desc["lo"], json.dumps(INDS_ALL))
    if k == "depth":
        return (DRIVER_DEPTH if drv else "") + "runDepth(%d);" % desc["d"]
    raise KeyError(k)
