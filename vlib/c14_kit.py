"""C14 kit: the seed table, the operation alphabet and the JavaScript driver ("kit") that is evaluated as step 0
of every `hist` job (on boa at check time, on V8 at authoring time — the same text on both sides).

A *history* is (seed index, [operation indices]).  `T(s, h, k)` (one step of a hist job) rebuilds the array by replaying
the history on a fresh real array, applies operation k and emits the observation:

    P ...            lines logged by callbacks / getters / setters while the operation ran (muted during the replay)
    R <result> | E <error name>
    D <logical dump of the new state>
    S <storage kind of the new state>              (boa only; "?" on V8; never part of an observation)
    P= | P! <observation through a forwarding Proxy>
    T= | T- | T! <observation on a plain array-like twin>

`Z(s, h)` emits `D`/`S` of the state the history reaches.

Logical dump = extensibility, every own key in Reflect.ownKeys order with value (-0 / NaN kept, holes are
absent keys) or accessor shape, and the attribute letters when they are not the default `wec` ("length" is one of the keys,
so its value and writability are in the dump).  Getters are never invoked by the dump.  Frozen/sealed are functions of
the dump (TestIntegrityLevel), so they are not part of it; Object.isFrozen/isSealed are observed by the operation `integrity`.
"""

# ---------------------------------------------------------------------------------------------------------------
# seeds: (name, family, body of `function(){...}` returning the array).  `family` names the logical array that the
# seed is meant to build; seeds of one family must have equal logical dumps (verified at run time).
# ---------------------------------------------------------------------------------------------------------------
RO1 = "{value:2,writable:false,enumerable:true,configurable:true}"
RW1 = "{value:2,writable:true,enumerable:true,configurable:true}"
SEEDS = [
    # the 15 canonical seeds: shortest history that yields the storage form
    ("empty", "empty", "return []"),
    ("i32", "i32", "return [1,2,3]"),
    ("f64", "f64", "return [1.5,2,3]"),
    ("elem", "elem", 'return [1,"s",{}]'),
    ("holey", "holey", "return [1,,3]"),
    ("desc", "desc", "var a=[1,2,3]; defp(a,1,%s); return a" % RO1),
    ("frozen", "frozen", "return Object.freeze([1,2,3])"),
    ("sealed", "sealed", "return Object.seal([1,2,3])"),
    ("noext", "noext", "return Object.preventExtensions([1,2,3])"),
    ("lenro", "lenro", 'var a=[1,2,3]; defp(a,"length",{writable:false}); return a'),
    ("newarr5", "newarr5", "return new Array(5)"),
    ("maxlen", "maxlen", "var a=[]; a.length=4294967295; a[0]=1; a[4294967294]=2; return a"),
    ("negz", "negz", "return [0,-0,NaN]"),
    ("undef", "undef", "return [1,undefined,3]"),
    ("nested", "nested", "return [1,[8,[9]],2.5]"),
    # the same logical arrays through other histories (they end in other storage forms, see evidence)
    ("i32_via_f64", "i32", "var a=[1,2,3]; a[1]=2.5; a[1]=2; return a"),
    ("i32_via_hole", "i32", "var a=[1,,3]; a[1]=2; return a"),
    ("i32_via_desc", "i32", "var a=[1,2,3]; defp(a,1,%s); defp(a,1,%s); return a" % (RO1, RW1)),
    ("i32_via_pushpop", "i32", "var a=[1,2,3]; a.push(1.5); a.pop(); return a"),
    ("i32_via_elem", "i32", 'var a=[1,2,"s"]; a[2]=3; return a'),
    ("i32_via_ctor", "i32", "return new Array(1,2,3)"),
    ("i32_via_rev", "i32", "var a=[]; a[2]=3; a[1]=2; a[0]=1; return a"),
    ("i32_via_trunc", "i32", "var a=[1,2,3,4,5]; a.length=3; return a"),
    ("i32_via_from", "i32", "return Array.from({length:3}, function(_, i){ return i+1 })"),
    ("i32_via_of", "i32", "return Array.of(1,2,3)"),
    ("i32_via_grow", "i32", "var a=[1,2,3]; a.length=6; a.length=3; return a"),
    ("f64_via_i32", "f64", "var a=[1,2,3]; a[0]=1.5; return a"),
    ("f64_via_elem", "f64", 'var a=["s",2,3]; a[0]=1.5; return a'),
    ("f64_via_hole", "f64", "var a=[,2,3]; a[0]=1.5; return a"),
    ("elem_via_hole", "elem", 'var a=[1,,{}]; a[1]="s"; return a'),
    ("elem_via_desc", "elem", 'var a=[1,"s",{}]; defp(a,1,{writable:false}); defp(a,1,{writable:true}); return a'),
    ("empty_via_pop_i", "empty", "var a=[1]; a.pop(); return a"),
    ("empty_via_pop_f", "empty", "var a=[1.5]; a.pop(); return a"),
    ("empty_via_len_e", "empty", 'var a=["s"]; a.length=0; return a'),
    ("empty_via_hole", "empty", "var a=[,]; a.length=0; return a"),
    ("empty_via_desc", "empty", "var a=[1]; defp(a,0,{writable:false}); delete a[0]; a.length=0; return a"),
    ("holey_via_delete", "holey", "var a=[1,2,3]; delete a[1]; return a"),
    ("holey_via_desc", "holey", "var a=[1,2,3]; defp(a,1,{writable:false}); delete a[1]; return a"),
    ("newarr5_via_len", "newarr5", "var a=[]; a.length=5; return a"),
    ("newarr5_via_holes", "newarr5", "return [,,,,,]"),
    ("newarr5_via_desc", "newarr5", "var a=[1]; defp(a,0,{writable:false}); delete a[0]; a.length=5; return a"),
    ("noext_via_f64", "noext", "var a=[1,2,3]; a[1]=2.5; a[1]=2; return Object.preventExtensions(a)"),
    ("noext_via_hole", "noext", "var a=[1,,3]; a[1]=2; return Object.preventExtensions(a)"),
    ("noext_via_elem", "noext", 'var a=[1,2,"s"]; a[2]=3; return Object.preventExtensions(a)'),
    ("lenro_via_f64", "lenro", 'var a=[1,2,3]; a[1]=2.5; a[1]=2; defp(a,"length",{writable:false}); return a'),
    ("lenro_via_hole", "lenro", 'var a=[1,,3]; a[1]=2; defp(a,"length",{writable:false}); return a'),
    ("negz_via_elem", "negz", 'var a=["s",-0,NaN]; a[0]=0; return a'),
    ("negz_via_hole", "negz", "var a=[0,,NaN]; a[1]=-0; return a"),
    ("undef_via_hole", "undef", "var a=[1,,3]; a[1]=undefined; return a"),
    ("undef_via_i32", "undef", "var a=[1,2,3]; a[1]=undefined; return a"),
    ("maxlen_via_desc", "maxlen", "var a=[1]; defp(a,0,{writable:false}); defp(a,0,{writable:true}); a.length=4294967295; a[4294967294]=2; return a"),
]

# ---------------------------------------------------------------------------------------------------------------
# operations: (name, body of `function(a){...}`, flags)
#   rb  : the result (if it is an array) becomes the subject of the rest of the history ("a = a.concat(..)")
#   o1  : O(1)/O(#own keys) in both engines, so it may be applied to arrays whose length is >= 2^31
#   tw  : comparability with the plain array-like twin (the spec algorithm is generic and does not depend on the exotic
#         `length` coupling of arrays):  y always, n never, g generic but may add an index >= length (comparable iff
#         length is writable or the object is non-extensible, and length < 2^31), i0 / i1 iff index 0 / 1 < length
#   core: member of the reduced alphabet used for the outer levels of the thorough tier
# ---------------------------------------------------------------------------------------------------------------
# the operations whose target states the quick tier expands (a subset of the core alphabet)
QUICK = {"st_i_0", "st_d_0", "st_s_len", "st_i_len2", "st_nz_last", "len_0", "len_dec", "len_inc2", "del_0", "dp_acc0", "dp_ro1", "dp_rw1",
         "push_d", "pop", "shift", "unshift_i", "splice_ins", "sort", "reverse", "fill_d1", "concat_arr", "map_len", "freeze", "preventExt"}


def _ops():
    ops = []

    def op(name, body, rb=False, o1=False, tw="y", core=False):
        ops.append({"name": name, "body": body, "rb": rb, "o1": o1, "tw": tw, "core": core, "q": name in QUICK})

    vals = [("i", "7"), ("d", "2.5"), ("nz", "-0"), ("nan", "NaN"), ("s", '"x"'), ("o", "({})")]
    idxs = [("0", "0", "i0"), ("last", "a.length-1", "y"), ("len", "a.length", "n"), ("len2", "a.length+2", "n")]
    for vn, v in vals:
        for xn, x, tw in idxs:
            op("st_%s_%s" % (vn, xn), "a[%s] = %s" % (x, v), o1=True, tw=tw,
               core=(vn in ("i", "d", "s") and xn in ("0", "len", "len2")) or (vn == "nz" and xn == "last"))
    op("len_0", "a.length = 0", o1=True, tw="n", core=True)
    op("len_dec", "a.length = a.length - 1", o1=True, tw="n", core=True)
    op("len_inc2", "a.length = a.length + 2", o1=True, tw="n", core=True)
    op("del_0", "return delete a[0]", o1=True, core=True)
    op("del_last", "return delete a[a.length-1]", o1=True)
    op("dp_acc0", "defp(a, 0, {get: G0, configurable: true, enumerable: true})", o1=True, tw="i0", core=True)
    op("dp_accs1", "defp(a, 1, {get: G1, set: S1, configurable: true, enumerable: false})", o1=True, tw="i1")
    op("dp_ro1", "defp(a, 1, {value: 5, writable: false, configurable: true, enumerable: true})", o1=True, tw="i1", core=True)
    op("dp_rw1", "defp(a, 1, {value: 2, writable: true, configurable: true, enumerable: true})", o1=True, tw="i1", core=True)
    op("dp_nc_last", "defp(a, a.length-1, {configurable: false})", o1=True)
    op("push_i", "return a.push(4)", o1=True, tw="g", core=True)
    op("push_d", "return a.push(4.5)", o1=True, tw="g", core=True)
    op("push_s", 'return a.push("s")', o1=True, tw="g")
    op("push_arr", "return a.push([8,[9]])", o1=True, tw="g")
    op("pop", "return a.pop()", o1=True, core=True)
    op("shift", "return a.shift()", core=True)
    op("unshift_i", "return a.unshift(0)", tw="g", core=True)
    op("unshift_ds", 'return a.unshift(0.5, "u")', tw="g")
    op("splice_del", "return a.splice(1,1)", core=True)
    op("splice_ins", 'return a.splice(1,0,"i")', tw="g", core=True)
    op("splice_all", "return a.splice(0)")
    op("splice_rep2", "return a.splice(1,1,8,9)", tw="g")
    op("splice_rep1", "return a.splice(0,1,2.5)", tw="g")
    op("sort", "return a.sort()", core=True)
    op("sort_cmp", "return a.sort(C)")
    op("reverse", "return a.reverse()", core=True)
    op("fill_i", "return a.fill(0)")
    op("fill_d1", "return a.fill(1.5,1)", core=True)
    op("copyWithin", "return a.copyWithin(0,1)", core=True)
    op("concat_arr", "return a.concat([4,5])", rb=True, tw="n", core=True)
    op("concat_spr", "return a.concat(SP())", rb=True, tw="n")
    op("concat_obj", 'return a.concat({length:1,0:"n"})', rb=True, tw="n")
    op("concat_arg", "return [0.5].concat(a)", rb=True, tw="n")
    op("flat", "return a.flat()", rb=True)
    op("slice_1", "return a.slice(1)", rb=True, core=True)
    op("slice_all", "return a.slice()", rb=True)
    op("search", "return [a.indexOf(NaN), a.includes(NaN), a.indexOf(-0), a.indexOf(0), a.lastIndexOf(3), a.includes(undefined), "
                 "a.lastIndexOf(NaN), a.includes(-0), a.indexOf(undefined), a.indexOf(2, 1), a.lastIndexOf(2, -2)]")
    op("join", 'return a.join("-")')
    op("map_len", "return a.map(function(x, i){ P(i, x); if (i === 0) a.length = 1; return x })", rb=True, tw="n", core=True)
    op("filter_pop", "return a.filter(function(x, i){ P(i, x); if (i === 0) a.pop(); return true })", rb=True)
    op("forEach_push", "a.forEach(function(x, i){ P(i, x); if (i === 0) a.push(9) })", tw="g")
    op("forof_push", "var n = 0; for (var x of a) { P(x); if (n++ === 0) a.push(6); if (n > 12) break }", tw="g")
    op("forof_len", "var n = 0; for (var x of a) { P(x); if (n++ === 0) a.length = 1; if (n > 12) break }", tw="n")
    op("forof_shift", "var n = 0; for (var x of a) { P(x); if (n++ === 0) a.shift(); if (n > 12) break }")
    op("spread", "return [...a]", rb=True, core=True)
    op("from", "return Array.from(a)", rb=True)
    op("destr", "var [x, y, ...z] = a; return [x, y, z]")
    op("entries", "var out = []; for (var e of a.entries()) { out.push(e); if (out.length > 12) break } return out")
    op("keys", "return Object.keys(a)", o1=True)
    op("forin", "var ks = []; for (var k in a) ks.push(k); return ks", o1=True)
    op("ownKeys", "return Reflect.ownKeys(a)", o1=True)
    op("objEntries", "return Object.entries(a)", o1=True)
    op("freeze", "return Object.freeze(a)", o1=True, core=True)
    op("preventExt", "return Object.preventExtensions(a)", o1=True, core=True)
    op("seal", "return Object.seal(a)", o1=True)
    op("integrity", "return [Object.isFrozen(a), Object.isSealed(a), Object.isExtensible(a)]", o1=True)
    op("at", "return [a.at(0), a.at(-1), a.at(a.length), a.at(1)]", o1=True)
    op("read", "return [a[0], a[1], a[a.length-1], a[a.length]]", o1=True)
    op("has", "return [0 in a, 1 in a, (a.length-1) in a, a.hasOwnProperty(1), a.hasOwnProperty(a.length-1)]", o1=True)
    op("with", "return a.with(0, 2.5)", rb=True)
    op("toSorted", "return a.toSorted()", rb=True)
    op("toSpliced", 'return a.toSpliced(1,1,"t")', rb=True)
    op("toReversed", "return a.toReversed()", rb=True)
    op("findLast", "return a.findLast(function(x, i){ P(i, x); return true })", o1=True)
    op("find", "return [a.find(function(x){ return x > 1 }), a.findLastIndex(function(x){ return x !== x }), a.findIndex(function(x){ return x === undefined })]")
    op("reduce", 'var f = function(acc, x, i){ return acc + "," + i }; return [a.reduce(f, ""), a.reduceRight(f, ""), a.some(function(x){ return x === undefined }), a.every(function(x, i){ return i < 2 })]')
    op("json", "return JSON.stringify(a)", tw="n")
    return ops


OPS = _ops()
OPNAME = [o["name"] for o in OPS]
OPIDX = {o["name"]: i for i, o in enumerate(OPS)}
SEEDIDX = {s[0]: i for i, s in enumerate(SEEDS)}
HUGE = 2 ** 31


# Sensitivity experiments (`python3 -m vlib.checks.c14 sens`): variants of the kit.  `dump-*` weaken the STATE dump (D lines
# and Z) so that states which differ observably are merged -> oracle (a) must report them.  `mutant-*` emulate, at the
# JavaScript level, an engine fast path that misbehaves for ONE storage form -> oracles (a), (b), (c) must report it.
PERTURB = {
    "dump-negzero": ("/*SVAL*/", 'if (v === 0) return "0";'),
    "dump-hole": ("/*SKEY*/", 'if ("value" in d && d.value === undefined) continue;'),
    "dump-attrs": ("/*SATTR*/", 'f = "wec";'),
    "mutant-shift-f64-negzero": ("/*PRE*/", """
  var origShift = Array.prototype.shift;
  Array.prototype.shift = function () {   // "DenseF64 fast path of shift returns +0 for -0"
    var f64 = isArr(this) && storage(this) === "DenseF64", v = origShift.call(this);
    return f64 && v === 0 ? 0 : v;
  };"""),
    "mutant-includes-f64-nan": ("/*PRE*/", """
  var origIncludes = Array.prototype.includes;
  Array.prototype.includes = function (x) {   // "DenseF64 fast path of includes compares with ==, so NaN is never found"
    if (isArr(this) && storage(this) === "DenseF64" && x !== x) return false;
    return origIncludes.apply(this, arguments);
  };"""),
    "mutant-reverse-sparse-holes": ("/*PRE*/", """
  var origReverse = Array.prototype.reverse;
  Array.prototype.reverse = function () {   // "reverse on SparseElement storage reads holes as undefined and writes them back"
    if (isArr(this) && storage(this) === "SparseElement" && this.length < 64) {
      try { for (var i = 0; i < this.length; i++) if (!(i in this)) this[i] = undefined; } catch (e) {}
    }
    return origReverse.call(this);
  };"""),
}


def kit_source(perturb=None):
    seeds = ",\n".join("  function(){ %s }" % body for _, _, body in SEEDS)
    ops = ",\n".join('  {rb:%s, tw:"%s", f:function(a){ %s }}' % ("true" if o["rb"] else "false", o["tw"], o["body"]) for o in OPS)
    t = KIT_TEMPLATE
    if perturb:
        mark, code = PERTURB[perturb]
        t = t.replace(mark, code)
    return t.replace("/*SEEDS*/", seeds).replace("/*OPS*/", ops)


KIT_TEMPLATE = r"""
var T, Z;
(function () {
  "use strict";
  var ownKeys = Reflect.ownKeys, gopd = Object.getOwnPropertyDescriptor, defp = Object.defineProperty,
      isExt = Object.isExtensible, isArr = Array.isArray, show = __show, emit = __emit,
      isFrozen = Object.isFrozen, isSealed = Object.isSealed, AP = Array.prototype, create = Object.create,
      pe = Object.preventExtensions;
  var storage = typeof __storage === "function" ? __storage : function () { return "?"; };
  /*PRE*/
  var LOG = null;
  function P() {
    if (LOG === null) return;
    var s = "P";
    for (var i = 0; i < arguments.length; i++) s += " " + show(arguments[i]);
    LOG[LOG.length] = s;
  }
  function G0() { P("get0"); return 9; }
  function G1() { P("get1"); return 8; }
  function S1(v) { P("set1", v); }
  function K(v) { return typeof v === "number" ? (v !== v ? 1e6 : v) : typeof v === "string" ? 2e6 : typeof v === "undefined" ? 4e6 : 3e6; }
  function C(x, y) { return K(y) - K(x); }
  function SP() { var o = {length: 2, 0: "q", 1: 1.5}; o[Symbol.isConcatSpreadable] = true; return o; }
  var SEEDS = [
/*SEEDS*/
  ];
  var OPS = [
/*OPS*/
  ];
  function sval(v) { /*SVAL*/ return show(v); }
  function sdump(a) {   // the STATE dump; identical to dump() unless a sensitivity experiment weakens it
    var ks = ownKeys(a), n = ks.length, s = (isExt(a) ? "" : "!x ") + "{", first = true;
    for (var i = 0; i < n && i < 100; i++) {
      var k = ks[i], d = gopd(a, k), f;
      /*SKEY*/
      s += (first ? "" : ", ") + (typeof k === "symbol" ? "@" + String(k.description) : k) + ":";
      first = false;
      if ("value" in d) {
        f = (d.writable ? "w" : "") + (d.enumerable ? "e" : "") + (d.configurable ? "c" : "");
        /*SATTR*/
        s += sval(d.value) + (f === "wec" ? "" : "/" + f);
      } else {
        s += "<" + (d.get ? "g" : "") + (d.set ? "s" : "") + ">/" + (d.enumerable ? "e" : "") + (d.configurable ? "c" : "");
      }
    }
    if (n > 100) s += ", ...+" + (n - 100);
    return s + "}";
  }
  function dump(a) {
    var ks = ownKeys(a), n = ks.length, s = (isExt(a) ? "" : "!x ") + "{";
    for (var i = 0; i < n && i < 100; i++) {
      var k = ks[i], d = gopd(a, k), f;
      s += (i ? ", " : "") + (typeof k === "symbol" ? "@" + String(k.description) : k) + ":";
      if ("value" in d) {
        f = (d.writable ? "w" : "") + (d.enumerable ? "e" : "") + (d.configurable ? "c" : "");
        s += show(d.value) + (f === "wec" ? "" : "/" + f);
      } else {
        s += "<" + (d.get ? "g" : "") + (d.set ? "s" : "") + ">/" + (d.enumerable ? "e" : "") + (d.configurable ? "c" : "");
      }
    }
    if (n > 100) s += ", ...+" + (n - 100);
    return s + "}";
  }
  function twin(a) {
    var o = create(AP), ks = ownKeys(a);
    defp(o, "length", gopd(a, "length"));
    for (var i = 0; i < ks.length; i++) if (ks[i] !== "length") defp(o, ks[i], gopd(a, ks[i]));
    if (!isExt(a)) pe(o);
    return o;
  }
  function build(s, h) {
    var a = SEEDS[s]();
    for (var i = 0; i < h.length; i++) {
      var op = OPS[h[i]];
      try { var r = op.f(a); if (op.rb && isArr(r)) a = r; } catch (e) {}
    }
    return a;
  }
  var PRE = null, FIN = null;
  function one(s, h, k, mode) {
    LOG = null;
    var a = build(s, h), op = OPS[k];
    if (mode === 0) { var ld = gopd(a, "length"); PRE = {len: ld.value, lenW: ld.writable, ext: isExt(a)}; }
    var subj = mode === 0 ? a : mode === 1 ? new Proxy(a, {}) : twin(a);
    var fin = mode === 2 ? subj : a;
    var lines = LOG = [];
    try {
      var r = op.f(subj);
      if (r === subj) lines[lines.length] = "R <this>";
      else if (isArr(r)) {
        if (op.rb) { fin = r; lines[lines.length] = "R <new array>"; }
        else lines[lines.length] = "R array " + dump(r);
      } else lines[lines.length] = "R " + show(r);
    } catch (e) {
      lines[lines.length] = "E " + (e instanceof Error ? e.name : show(e));
    }
    LOG = null;
    lines[lines.length] = "D " + sdump(fin);
    FIN = fin;
    return lines.join("\n");
  }
  function twinOK(tw) {
    switch (tw) {
      case "y": return true;
      case "n": return false;
      case "g": return (PRE.lenW || !PRE.ext) && PRE.len < 2147483648;
      case "i0": return PRE.len > 0;
      case "i1": return PRE.len > 1;
    }
    return false;
  }
  T = function (s, h, k) {
    var t0 = one(s, h, k, 0);
    emit(t0);
    emit("S " + storage(FIN));
    var t1 = one(s, h, k, 1);
    emit(t1 === t0 ? "P=" : "P! " + t1);
    if (twinOK(OPS[k].tw)) {
      var t2 = one(s, h, k, 2), e0 = t0;
      if (OPS[k].tw === "g" && /(^|\n)E /.test(t0)) {
        // a growing generic algorithm that throws half-way: the array's length has followed the highest index that
        // was written, the array-like's length is only written by the algorithm's final Set -> compare modulo length
        e0 = t0.replace(/length:\d+/g, "length:*"); t2 = t2.replace(/length:\d+/g, "length:*");
      }
      emit(t2 === e0 ? "T=" : "T! " + t2);
    } else emit("T-");
  };
  Z = function (s, h) {
    LOG = null;
    var a = build(s, h);
    emit("D " + sdump(a));
    emit("S " + storage(a));
  };
})();
"""
