"""C17 reference model: cyclic module record loading and evaluation.

A transliteration of ECMA-262 (ES2024) section 16.2.1.5 -- LoadRequestedModules / InnerModuleLoading /
ContinueModuleLoading / FinishLoadingImportedModule, Evaluate, InnerModuleEvaluation,
ExecuteAsyncModule, AsyncModuleExecutionFulfilled, AsyncModuleExecutionRejected,
GatherAvailableAncestors -- over plain Python lists with an explicit FIFO microtask queue.  Link() is
not modelled beyond "it succeeds" (the generated modules always link); GetExportedNames /
ResolveExport are modelled only as far as the generated export forms need (unique export names).

Deliberate readings of the specification text (all three are what V8 / node, JavaScriptCore and
SpiderMonkey do, and the first two are the places where the ES2024 text leaves [[CycleRoot]] empty):

 1. Re-evaluating a module that failed in the *synchronous* phase: Evaluate() step 3 says "set module
    to module.[[CycleRoot]]", but the modules that were still on the stack when the error unwound
    never got a [[CycleRoot]].  Modelled as "the module is its own cycle root" (so the recorded
    rejected promise / the recorded error is returned).
 2. GatherAvailableAncestors step 1.a reads m.[[CycleRoot]].[[EvaluationError]] of an async parent m;
    for a parent that failed in the synchronous phase [[CycleRoot]] is empty.  Modelled as "its own
    root", i.e. the parent's own error decides.
 3. InnerModuleEvaluation step 11.c.v ("if requiredModule.[[AsyncEvaluation]] is true, wait for it"):
    the ES2024 text never resets [[AsyncEvaluation]], which would make an importer wait for an async
    module that has already finished.  Modelled as in ES2025 ([[AsyncEvaluationOrder]] = done after
    completion): a finished module is not waited for.

Cross-validation (authoring time, oracle/c17-node-xval.json): node v20 `vm.SourceTextModule` agrees on 525,016 of 526,012
configurations of the n <= 3 space; V8 aborts on a CHECK on 756; the remaining 240 are one V8 deviation from the text: Evaluate()
of a module that is errored itself but is not the root of its failed cycle is answered by V8 with the module's OWN error, by
the specification (step 3: go to [[CycleRoot]]) -- and by this model -- with the root's error (`perturb="v8err"` is V8's reading).

Module bodies (mirrors `module_source` in harness/crates/vc17/src/main.rs): module X declares
`export let vX = 1`, prints `pre:X` followed by one read of every dependency's live binding
(`TDZ` when the dependency's body has not started), then behaves as
  p  plain:  vX = 2; print post:X <reads>          t  throw 'E_X'
  w  await 0; vX = 2; print post:X <reads>         v  await 0; throw 'E_X'
Edge kinds: n named import, s namespace import, d named import + duplicate namespace import of the same
specifier (read `v/v`), x `export * from`, r `export {vD as X_vD} from`, b bare import (x, r, b read `-`).

`bugs` switches on emulations of known engine defects (used only to classify findings, never as the
expected value); `perturb` deliberately breaks the model (used only to demonstrate sensitivity).
"""
from collections import deque

NAMES = "abcd"
LINKED, EVALUATING, ASYNC, EVALUATED = 0, 1, 2, 3
# file of the emulated engine assertions (only used by the defect emulations); line numbers are stripped from observed panics
# (`canon`) so that unrelated edits of the engine file do not change outcomes
LOC_REJECT = "engine/src/module/source.rs"
LOC_GAA_STATUS = "engine/src/module/source.rs"
LOC_GAA_PENDING = "engine/src/module/source.rs"
LOC_AMEF_1A = "engine/src/module/source.rs"
LOC_AMEF_12A = "engine/src/module/source.rs"
NOTE = [None]     # authoring aid: which emulated engine assertion fired last


class Abrupt(Exception):
    def __init__(self, v):
        self.v = v


class EnginePanic(Exception):
    """raised only by defect emulations"""


class ModelAssert(Exception):
    """a specification assertion failed inside the model (= a bug in the model or in a bug emulation)"""


class Promise:
    __slots__ = ("state", "value", "reactions")

    def __init__(self):
        self.state = "P"
        self.value = None
        self.reactions = []


def _ck(c, what):
    if not c:
        raise ModelAssert(what)


class World:
    def __init__(self, n, imp, kinds, beh, bugs=(), perturb=None):
        self.n = n
        self.imp = [[ord(c) - 97 for c in x] for x in imp]
        self.kinds = list(kinds) if kinds else ["n" * len(x) for x in imp]
        self.beh = beh
        self.tla = [b in "wv" for b in beh]
        self.status = [LINKED] * n
        self.error = [None] * n
        self.dfs = [0] * n
        self.anc = [0] * n
        self.pending = [0] * n
        self.order = [None] * n      # [[AsyncEvaluationOrder]]: None = unset, int, or "done"
        self.parents = [[] for _ in range(n)]
        self.root = [None] * n
        self.cap = [None] * n        # [[TopLevelCapability]]
        self.val = ["TDZ"] * n
        self.ran = [0] * n
        self.lines = []
        self.queue = deque()
        self.counter = 0
        self.bugs = frozenset(bugs)
        self.perturb = perturb

    # ---------------------------------------------------------------- promises / jobs
    def settle(self, p, state, value):
        if p.state != "P":
            return
        p.state = state
        p.value = value
        for on_f, on_r in p.reactions:
            self.queue.append((on_f if state == "F" else on_r, value))
        p.reactions = []

    def then(self, p, on_f, on_r):
        if p.state == "P":
            p.reactions.append((on_f, on_r))
        else:
            self.queue.append((on_f if p.state == "F" else on_r, p.value))

    def drain(self):
        k = 0
        while self.queue:
            f, v = self.queue.popleft()
            k += 1
            if f is not None:
                f(v)
            if k > 100000:
                raise ModelAssert("model livelock")

    # ---------------------------------------------------------------- module bodies
    def reads(self, m):
        out = []
        for d, k in zip(self.imp[m], self.kinds[m]):
            v = self.val[d]
            if k in "ns":
                out.append(" %s=%s" % (NAMES[d], v))
            elif k == "d":
                out.append(" %s=%s" % (NAMES[d], v if v == "TDZ" else "%s/%s" % (v, v)))
            else:
                out.append(" %s=-" % NAMES[d])
        return "".join(out)

    def body_head(self, m):
        self.ran[m] += 1
        self.val[m] = 1
        self.lines.append("pre:" + NAMES[m] + self.reads(m))

    def body_tail(self, m):
        self.val[m] = 2
        self.lines.append("post:" + NAMES[m] + self.reads(m))

    def execute_sync(self, m):
        """module.ExecuteModule() for a module without top-level await"""
        self.body_head(m)
        if self.beh[m] == "t":
            raise Abrupt("E_" + NAMES[m])
        self.body_tail(m)

    def execute_async(self, m):
        """ExecuteAsyncModule(module)"""
        _ck(self.status[m] in (EVALUATING, ASYNC), "ExecuteAsyncModule: status")
        _ck(self.tla[m], "ExecuteAsyncModule: HasTLA")
        cap = Promise()
        self.then(cap, lambda _v, m=m: self.async_fulfilled(m), lambda e, m=m: self.async_rejected(m, e))
        # module.ExecuteModule(capability): AsyncBlockStart runs the body up to the first await
        self.body_head(m)

        def resume(_v, m=m, cap=cap):
            if self.beh[m] == "w":
                self.body_tail(m)
                self.settle(cap, "F", None)
            else:
                self.settle(cap, "R", "E_" + NAMES[m])

        self.queue.append((resume, None))   # `await 0`: one PromiseReactionJob

    # ---------------------------------------------------------------- Evaluate()
    def evaluate(self, m):
        _ck(self.status[m] in (LINKED, ASYNC, EVALUATED), "Evaluate: status")
        if self.perturb == "v8err" and self.status[m] == EVALUATED and self.error[m] is not None:
            # V8's reading (v8::internal::Module::Evaluate, status kErrored): an errored module answers with its own capability or
            # with a fresh promise rejected with ITS OWN error, without going to the cycle root (not the specification's step 3)
            if self.cap[m] is not None:
                return self.cap[m]
            p = Promise()
            self.settle(p, "R", self.error[m])
            return p
        if self.status[m] in (ASYNC, EVALUATED):
            if "nostore" in self.bugs:
                # engine: looks at the capability of the module itself, not of its cycle root
                own = self.cap[m]
                m = self.root[m] if self.root[m] is not None else m
                if own is not None:
                    return own
            else:
                m = self.root[m] if self.root[m] is not None else m      # reading 1
                if self.cap[m] is not None:
                    return self.cap[m]
        elif self.cap[m] is not None:
            return self.cap[m]
        stack = []
        cap = Promise()
        if not ("nostore" in self.bugs and self.status[m] != LINKED):
            self.cap[m] = cap
        try:
            if self.perturb == "rerun" and self.status[m] == EVALUATED and self.error[m] is None:
                self.status[m] = LINKED      # perturbation: forget that the module has been evaluated
                self.order[m] = None
            self.inner(m, stack, 0)
        except Abrupt as a:
            for x in stack:
                _ck(self.status[x] == EVALUATING, "Evaluate 9.a.i")
                self.status[x] = EVALUATED
                self.error[x] = a.v
                if self.root[x] is None:
                    self.root[x] = x
            _ck(self.status[m] == EVALUATED and self.error[m] == a.v, "Evaluate 9.b/c")
            self.settle(cap, "R", a.v)
        else:
            _ck(self.status[m] in (ASYNC, EVALUATED), "Evaluate 10.a")
            _ck(self.error[m] is None, "Evaluate 10.b")
            if self.status[m] == EVALUATED:
                self.settle(cap, "F", None)
            _ck(not stack, "Evaluate 10.d")
        return cap

    def inner(self, m, stack, index):
        """InnerModuleEvaluation(module, stack, index)"""
        st = self.status[m]
        if st in (ASYNC, EVALUATED):
            if self.error[m] is None:
                return index
            raise Abrupt(self.error[m])
        if st == EVALUATING:
            return index
        _ck(st == LINKED, "InnerModuleEvaluation 4")
        self.status[m] = EVALUATING
        self.dfs[m] = index
        self.anc[m] = index
        self.pending[m] = 0
        index += 1
        stack.append(m)
        deps = self.imp[m]
        if self.perturb == "revimports":
            deps = deps[::-1]
        seen = set()
        for rm in deps:
            if rm in seen:
                continue
            seen.add(rm)
            index = self.inner(rm, stack, index)
            _ck(self.status[rm] in (EVALUATING, ASYNC, EVALUATED), "11.c.i")
            _ck((self.status[rm] == EVALUATING) == (rm in stack), "11.c.ii")
            if self.status[rm] == EVALUATING:
                self.anc[m] = min(self.anc[m], self.anc[rm])
            else:
                rm = self.root[rm] if self.root[rm] is not None else rm
                _ck(self.status[rm] in (ASYNC, EVALUATED), "11.c.iv.2")
                if self.error[rm] is not None:
                    raise Abrupt(self.error[rm])
            if isinstance(self.order[rm], int):        # reading 3: "done" is not waited for
                self.pending[m] += 1
                self.parents[rm].append(m)
        if self.pending[m] > 0 or self.tla[m]:
            _ck(self.order[m] is None, "12.a")
            self.counter += 1
            self.order[m] = self.counter
            if self.pending[m] == 0:
                self.execute_async(m)
        else:
            self.execute_sync(m)
        _ck(stack.count(m) == 1, "14")
        _ck(self.anc[m] <= self.dfs[m], "15")
        if self.anc[m] == self.dfs[m]:
            while True:
                rm = stack.pop()
                self.status[rm] = EVALUATED if self.order[rm] is None else ASYNC
                self.root[rm] = m
                if "rootcount" in self.bugs and self.status[rm] == ASYNC:
                    # engine: every member of the component gets the root's dependency count
                    self.pending[rm] = self.pending[m]
                if rm == m:
                    break
        return index

    def engine_assert(self, cond, loc, what):
        """a specification assertion that the engine checks with `debug_assert!(error.is_some())`: under a defect emulation its
        failure is the engine's panic, otherwise it is a failure of the model"""
        if not cond:
            if self.bugs:
                NOTE[0] = what
                raise EnginePanic(loc + " assertion failed: error.is_some()")
            raise ModelAssert(what)

    # ---------------------------------------------------------------- async completion
    def async_fulfilled(self, m):
        if self.status[m] == EVALUATED:
            self.engine_assert(self.error[m] is not None, LOC_AMEF_1A, "AsyncModuleExecutionFulfilled 1.a")
            return
        _ck(self.status[m] == ASYNC and isinstance(self.order[m], int) and self.error[m] is None, "AMEF 2-4")
        self.order[m] = "done"
        self.status[m] = EVALUATED
        if self.cap[m] is not None:
            _ck(self.root[m] == m, "AMEF 7.a")
            self.settle(self.cap[m], "F", None)
        exec_list = []
        self.gather(m, exec_list)
        if self.perturb != "nosort":
            exec_list.sort(key=lambda x: self.order[x])
        for x in exec_list:
            if self.status[x] == EVALUATED:
                self.engine_assert(self.error[x] is not None, LOC_AMEF_12A, "AMEF 12.a.i")
            elif self.tla[x]:
                self.execute_async(x)
            else:
                try:
                    self.execute_sync(x)
                except Abrupt as a:
                    if "rejectwrong" in self.bugs:
                        # engine: AsyncModuleExecutionRejected is called on the module that just
                        # FULFILLED instead of on x -> its "evaluated => has an error" assertion fires
                        raise EnginePanic(LOC_REJECT + " assertion failed: error.is_some()")
                    self.async_rejected(x, a.v)
                else:
                    self.order[x] = "done"
                    self.status[x] = EVALUATED
                    if self.cap[x] is not None:
                        _ck(self.root[x] == x, "AMEF 12.c.iii.3.a")
                        self.settle(self.cap[x], "F", None)

    def gather(self, m, exec_list):
        """GatherAvailableAncestors(module, execList)"""
        for p in self.parents[m]:
            root = self.root[p] if self.root[p] is not None else p      # reading 2
            if p not in exec_list and self.error[root] is None:
                if self.bugs:
                    if self.status[p] != ASYNC:
                        raise EnginePanic(LOC_GAA_STATUS + " internal error: entered unreachable code: i. Assert: m.[[Status]] is evaluating-async.")
                    if self.pending[p] <= 0:
                        raise EnginePanic(LOC_GAA_PENDING + " assertion failed: *pending_async_dependencies > 0")
                _ck(self.status[p] == ASYNC and self.error[p] is None and isinstance(self.order[p], int), "GAA 1.a.i-iii")
                _ck(self.pending[p] > 0, "GAA 1.a.iv")
                self.pending[p] -= 1
                if self.pending[p] == 0:
                    exec_list.append(p)
                    if not self.tla[p]:
                        self.gather(p, exec_list)

    def async_rejected(self, m, err):
        if self.status[m] == EVALUATED:
            self.engine_assert(self.error[m] is not None, LOC_REJECT, "AsyncModuleExecutionRejected 1.a")
            return
        _ck(self.status[m] == ASYNC and isinstance(self.order[m], int) and self.error[m] is None, "AMER 2-4")
        self.error[m] = err
        self.status[m] = EVALUATED
        self.order[m] = "done"
        for p in self.parents[m]:
            self.async_rejected(p, err)
        if self.cap[m] is not None:
            _ck(self.root[m] == m, "AMER 9.a")
            self.settle(self.cap[m], "R", err)

    # ---------------------------------------------------------------- namespaces
    def exported_names(self, m, star_set):
        if m in star_set:
            return []
        star_set.append(m)
        x = NAMES[m]
        names = ["v" + x]
        for d, k in zip(self.imp[m], self.kinds[m]):
            if k == "r":
                nm = "%s_v%s" % (x, NAMES[d])
                if nm not in names:
                    names.append(nm)
        for d, k in zip(self.imp[m], self.kinds[m]):
            if k == "x":
                for nm in self.exported_names(d, star_set):
                    if nm not in names:
                        names.append(nm)
        return names

    def namespace(self, m):
        items = []
        for nm in sorted(self.exported_names(m, [])):
            origin = ord(nm[-1]) - 97
            items.append("%s=%s" % (nm, self.val[origin]))
        return "%s{%s}" % (NAMES[m], ",".join(items))


_PANIC_LOC = __import__("re").compile(r"^(RustPanic \S+?):\d+ ")


def canon(outcome):
    """canonical form of an outcome string reported by vc17: panic locations without the line number"""
    if outcome.startswith("RustPanic"):
        return _PANIC_LOC.sub(r"\1 ", outcome)
    return outcome


def state_str(p):
    if p.state == "R":
        return "R:" + str(p.value)
    return p.state


def parse_hist(hist):
    return [(ord(h[0]) - 97, not h.endswith("!")) for h in hist]


def load_log(n, imp, hist):
    """(referrer>specifier) requests of LoadRequestedModules over the history: every module that becomes
    reachable requests each distinct specifier exactly once. Returns (sorted log, reachable list)."""
    visited = [False] * n
    log = []
    for h in hist:
        todo = [ord(h[0]) - 97]
        while todo:
            m = todo.pop()
            if visited[m]:
                continue
            visited[m] = True
            seen = set()
            for c in imp[m]:
                if c not in seen:
                    seen.add(c)
                    log.append("%s>%s" % (NAMES[m], c))
                    todo.append(ord(c) - 97)
    log.sort()
    return log, visited


def predict(n, imp, kinds, beh, hist, pre=False, bugs=(), perturb=None):
    """Expected compact outcome string (same format as vc17): step#step$final$namespaces$log."""
    w = World(n, imp, kinds, beh, bugs, perturb)
    steps = []
    promises = []
    mark = 0
    h = parse_hist(hist)
    try:
        for m, drain in h:
            p = w.evaluate(m)
            if drain:
                w.drain()
            steps.append("|".join(w.lines[mark:]) + "~" + state_str(p))
            mark = len(w.lines)
            promises.append(p)
        if h and not h[-1][1]:
            w.drain()
            steps.append("|".join(w.lines[mark:]) + "~-")
            mark = len(w.lines)
    except EnginePanic as e:
        return "RustPanic " + str(e) + " @after:" + "|".join(w.lines[mark:])
    log, reach = load_log(n, imp, hist)
    if perturb == "dupload" and log:
        log.append(log[0])
        log.sort()
    ns = " ".join(w.namespace(m) for m in range(n) if reach[m])
    return "%s$%s$%s$%s" % ("#".join(steps), ",".join(state_str(p) for p in promises), ns, ",".join(log))


def ran_counts(outcome):
    """how often each module's body started, from an outcome string"""
    counts = {}
    if outcome.startswith("RustPanic"):
        body = outcome.split("@after:", 1)[-1]
        segs = [body]
    else:
        segs = [s.rsplit("~", 1)[0] for s in outcome.split("$", 1)[0].split("#")]
    for s in segs:
        for line in s.split("|"):
            if line.startswith("pre:"):
                counts[line[4]] = counts.get(line[4], 0) + 1
    return counts


# --------------------------------------------------------------------------------------------------
# loading schedules: number of distinct orders in which the host can complete the pending loads
# --------------------------------------------------------------------------------------------------
def schedule_count(n, imp, hist, pre=False):
    """(number of release orders, maximum number of concurrently pending loads) for the whole history.
    One LoadRequestedModules per history step (per distinct module first when pre); the host holds every
    HostLoadImportedModule until released; after each release the engine runs until it stalls."""
    reqs = []
    for x in imp:
        r = []
        for c in x:
            d = ord(c) - 97
            if d not in r:
                r.append(d)
        reqs.append(r)
    visited = set()
    total = 1
    maxw = 0

    def visit(m, vis, pend):
        # InnerModuleLoading on a module whose requests are not yet in [[LoadedModules]]
        if m in vis:
            return
        vis.add(m)
        for d in reqs[m]:
            pend.add((m, d))

    memo = {}

    def count(vis, pend):
        nonlocal maxw
        if not pend:
            return 1
        key = (vis, pend)
        if key in memo:
            return memo[key]
        maxw = max(maxw, len(pend))
        t = 0
        for rq in sorted(pend):
            v2 = set(vis)
            p2 = set(pend)
            p2.discard(rq)
            visit(rq[1], v2, p2)
            t += count(frozenset(v2), frozenset(p2))
        memo[key] = t
        return t

    for h in hist:
        m = ord(h[0]) - 97
        if m in visited:
            continue
        vis = set(visited)
        pend = set()
        visit(m, vis, pend)
        total *= count(frozenset(vis), frozenset(pend))
        # afterwards everything reachable is visited
        todo = [m]
        while todo:
            x = todo.pop()
            if x in visited:
                continue
            visited.add(x)
            todo.extend(reqs[x])
    return total, maxw


def module_source(x, imp, kinds, beh):
    """mirror of vc17's generator (used for reports, replays by hand and the node cross-validation)"""
    s = ""
    tail = ""
    reads = ""
    for d, k in zip(imp, kinds):
        if k == "n":
            s += "import {v%s as i%s} from '%s';\n" % (d, d, d)
            reads += " + ' %s=' + rd(() => i%s)" % (d, d)
        elif k == "s":
            s += "import * as n%s from '%s';\n" % (d, d)
            reads += " + ' %s=' + rd(() => n%s.v%s)" % (d, d, d)
        elif k == "x":
            s += "export * from '%s';\n" % d
            reads += " + ' %s=-'" % d
        elif k == "r":
            s += "export {v%s as %s_v%s} from '%s';\n" % (d, x, d, d)
            reads += " + ' %s=-'" % d
        elif k == "b":
            s += "import '%s';\n" % d
            reads += " + ' %s=-'" % d
        elif k == "d":
            s += "import {v%s as i%s} from '%s';\n" % (d, d, d)
            tail += "import * as n%s from '%s';\n" % (d, d)
            reads += " + ' %s=' + rd(() => i%s + '/' + n%s.v%s)" % (d, d, d, d)
        else:
            raise ValueError(k)
    s += tail
    s += "export let v%s = 1;\n" % x
    s += "const rd = f => { try { return f(); } catch (e) { return e instanceof ReferenceError ? 'TDZ' : 'ERR'; } };\n"
    s += "print('pre:%s'%s);\n" % (x, reads)
    if beh == "p":
        s += "v%s = 2;\nprint('post:%s'%s);\n" % (x, x, reads)
    elif beh == "t":
        s += "throw 'E_%s';\n" % x
    elif beh == "w":
        s += "await 0;\nv%s = 2;\nprint('post:%s'%s);\n" % (x, x, reads)
    elif beh == "v":
        s += "await 0;\nthrow 'E_%s';\n" % x
    else:
        raise ValueError(beh)
    return s


def sources(n, imp, kinds, beh):
    kinds = kinds or ["n" * len(x) for x in imp]
    return [module_source(NAMES[i], imp[i], kinds[i], beh[i]) for i in range(n)]
