"""Common machinery of every check: build, parallel batch execution on the real engine in child
processes, evidence writer, known-findings matcher, replay files.

Exit codes of a check: 0 held (known findings printed), 1 violation, 2 machinery error.
"""
import hashlib, json, os, re, shutil, subprocess, sys, time, threading
from concurrent.futures import ThreadPoolExecutor

ROOT = os.path.dirname(os.path.dirname(os.path.abspath(__file__)))
HARNESS = os.path.join(ROOT, "harness")
TARGET = os.environ.get("VERIF_TARGET") or os.path.join(ROOT, "target")
VRUN = os.path.join(TARGET, "debug", "vrun")
TARGET_ENUM = os.environ.get("VERIF_TARGET_ENUM") or os.path.join(ROOT, "target-enum")
VRUN_ENUM = os.path.join(TARGET_ENUM, "debug", "vrun")
OUT = os.path.join(ROOT, "out")
NPROC = int(os.environ.get("VERIF_NPROC", "16"))


class MachineryError(Exception):
    pass


def sha12(s):
    if not isinstance(s, (bytes, bytearray)):
        s = (s if isinstance(s, str) else json.dumps(s, sort_keys=True)).encode("utf-8", "surrogatepass")
    return hashlib.sha256(s).hexdigest()[:12]


def cargo_env():
    e = dict(os.environ)
    e["CARGO_NET_OFFLINE"] = "true"
    return e


def build(enum_too=False, packages=("vrun",)):
    """Rebuild the harness against /repo's current working tree (hooks on). packages=None builds the whole workspace."""
    t = time.time()
    if os.environ.get("VERIF_NOBUILD"):  # maintenance only: binaries were built by hand (e.g. against a scratch worktree)
        return 0.0
    lock = os.path.join(HARNESS, "Cargo.lock")
    if not os.path.exists(lock):
        shutil.copy("/repo/Cargo.lock", lock)
    cmd = ["cargo", "build", "--offline"]
    if os.environ.get("VERIF_TARGET"):
        cmd += ["--target-dir", TARGET]
    for p in (packages or []):
        cmd += ["-p", p]
    cmds = [(cmd, {})]
    if enum_too:
        # the enum value representation is a cargo feature of boa_engine: separate invocations and a separate target
        # directory so that features do not unify with the default (NaN-boxed) build
        for pkg in ("vrun", "vc12"):
            cmds.append((["cargo", "build", "--offline", "-p", pkg, "--features", "enum", "--target-dir", TARGET_ENUM], {}))
    for cmd, _ in cmds:
        p = subprocess.run(cmd, cwd=HARNESS, env=cargo_env(), stdout=subprocess.PIPE, stderr=subprocess.STDOUT, text=True)
        if p.returncode != 0:
            sys.stdout.write(p.stdout[-6000:])
            raise MachineryError("harness build failed: " + " ".join(cmd))
    return time.time() - t


_tmp_lock = threading.Lock()
_tmp_n = [0]


def _tmpdir():
    d = os.path.join(OUT, "tmp", str(os.getpid()))
    os.makedirs(d, exist_ok=True)
    return d


def _run_chunk(binary, jobs, env):
    with _tmp_lock:
        _tmp_n[0] += 1
        n = _tmp_n[0]
    d = _tmpdir()
    inp = os.path.join(d, f"in{n}.jsonl")
    outp = os.path.join(d, f"out{n}.jsonl")
    with open(inp, "w") as f:
        for j in jobs:
            f.write(json.dumps(j))
            f.write("\n")
    open(outp, "w").close()
    done = 0
    restarts = 0
    results = []
    while done < len(jobs):
        p = subprocess.run([binary, "batch", inp, outp, str(done)], env=env, stdout=subprocess.PIPE, stderr=subprocess.PIPE)
        with open(outp) as f:
            lines = f.read().split("\n")
        lines = [l for l in lines if l]
        # a line cut short by a crash is dropped
        parsed = []
        for l in lines:
            try:
                parsed.append(json.loads(l))
            except Exception:
                break
        results = parsed
        if p.returncode == 0 and len(results) >= len(jobs):
            break
        if p.returncode in (17, 18):
            done = len(results)
            continue
        # died by signal or unexpectedly: attribute to the next job
        if p.returncode == 0:
            raise MachineryError(f"worker finished but produced {len(results)} of {len(jobs)} results")
        if p.returncode == 101 or p.returncode == 2:
            raise MachineryError(f"worker harness failure rc={p.returncode}: {p.stderr.decode('utf-8','replace')[-2000:]}")
        restarts += 1
        if restarts > 2000:
            raise MachineryError("too many worker crashes")
        sig = -p.returncode if p.returncode < 0 else p.returncode
        crash = {"i": jobs[len(results)].get("i", len(results)), "lines": [], "completion": f"Abort signal={sig}",
                 "stderr": p.stderr.decode("utf-8", "replace")[-300:]}
        # rewrite out file with the crash record appended so that `skip` stays aligned
        with open(outp, "w") as f:
            for r in results:
                f.write(json.dumps(r) + "\n")
            f.write(json.dumps(crash) + "\n")
        results.append(crash)
        done = len(results)
    os.unlink(inp)
    os.unlink(outp)
    return results


def run_jobs(jobs, binary=None, nproc=None, chunk=None, env_extra=None):
    """Execute jobs on the real engine in child processes; results in job order."""
    binary = binary or VRUN
    nproc = nproc or NPROC
    if not jobs:
        return []
    if chunk is None:
        chunk = max(1, min(4000, (len(jobs) + nproc * 4 - 1) // (nproc * 4)))
    env = dict(os.environ)
    if env_extra:
        env.update(env_extra)
    chunks = [jobs[i:i + chunk] for i in range(0, len(jobs), chunk)]
    with ThreadPoolExecutor(max_workers=nproc) as ex:
        parts = list(ex.map(lambda c: _run_chunk(binary, c, env), chunks))
    res = [r for p in parts for r in p]
    if len(res) != len(jobs):
        raise MachineryError(f"result count {len(res)} != job count {len(jobs)}")
    return res


def run_tool(args, binary=None, timeout=None, env_extra=None):
    """Run a vrun sub-command that does its own exploration; returns parsed JSON of its stdout's last line."""
    env = dict(os.environ)
    if env_extra:
        env.update(env_extra)
    p = subprocess.run([binary or VRUN] + args, stdout=subprocess.PIPE, stderr=subprocess.PIPE, text=True, timeout=timeout, env=env)
    if p.returncode != 0:
        raise MachineryError(f"vrun {' '.join(args)} failed rc={p.returncode}: {p.stderr[-3000:]}")
    last = [l for l in p.stdout.split("\n") if l.strip()][-1]
    return json.loads(last)


def trace_of(r):
    """Canonical trace of a result: (lines, completion)."""
    return [r.get("lines", []), r.get("completion")]


BAD_PREFIXES = ("EnginePanic", "RustPanic", "Abort", "Hang")


def is_bad(completion):
    return completion is not None and completion.startswith(BAD_PREFIXES)


# ------------------------------------------------------------------------------------------------
# findings
# ------------------------------------------------------------------------------------------------
class Findings:
    """KNOWN_FINDINGS.txt: lines
         known: property=C04 case=<sha12> observed=<sha12> <free text>
         known-list: property=C04 file=findings/C04-x.list class="..."     (file: '<case sha12> <observed sha12>' per line)
         fixed: property=C07 <commit> <what failed>
       Never written at run time."""

    def __init__(self, prop):
        self.prop = prop
        self.known = {}  # (case, observed) -> text
        self.path = os.path.join(ROOT, "KNOWN_FINDINGS.txt")
        lines = []
        for path in [self.path, os.path.join(ROOT, "findings", prop + ".known")]:
            if os.path.exists(path):
                lines += list(open(path))
        for line in lines:
            line = line.strip()
            if line.startswith("known:"):
                kv = _kv(line[6:])
                if kv.get("property") != prop:
                    continue
                self.known[(kv.get("case"), kv.get("observed"))] = line[6:].strip()
            elif line.startswith("known-list:"):
                kv = _kv(line[11:])
                if kv.get("property") != prop:
                    continue
                cls = kv.get("class", "")
                for l in open(os.path.join(ROOT, kv["file"])):
                    p = l.split()
                    if len(p) >= 2:
                        self.known[(p[0], p[1])] = f'class="{cls}" ' + " ".join(p[2:])

    def lookup(self, case_key, observed_key):
        return self.known.get((case_key, observed_key))


def _kv(s):
    import shlex
    out = {}
    for tok in shlex.split(s):
        if "=" in tok:
            k, v = tok.split("=", 1)
            out[k] = v
    return out


class Check:
    """One run of one property's check."""

    def __init__(self, prop, tier):
        self.prop = prop
        self.tier = tier
        self.seed = int(os.environ.get("VERIF_SEED", "0") or 0)
        self.t0 = time.time()
        self.findings = Findings(prop)
        self.violations = []  # new ones
        self.known_hits = []
        self.cov = {"evaluations": 0, "distinct_nontrivial": 0, "states": 0, "transitions": 0,
                    "traces_validated_against_impl": 0, "samples": [], "rule": "", "exhaustive": True, "caps_hit": [],
                    "distinct_outcomes": 0, "parts": {}}
        self.assumptions = []
        self._seen_known = set()
        # replay files of earlier runs are stale (a run writes one file per violation it reports)
        shutil.rmtree(os.path.join(OUT, "replays", prop, tier), ignore_errors=True)

    # -- bookkeeping helpers
    def add(self, **kw):
        for k, v in kw.items():
            self.cov[k] = self.cov.get(k, 0) + v

    def part(self, name, **kw):
        self.cov["parts"].setdefault(name, {}).update(kw)

    def sample(self, s, limit=6):
        if len(self.cov["samples"]) < limit:
            self.cov["samples"].append(s)

    def violation(self, case, observed, what, replay=None, expected=None):
        """case: JSON-able description of the failing case (stable); observed: JSON-able observation."""
        # panic locations are normalised in the identity (line numbers move with unrelated edits)
        obs_s = observed if isinstance(observed, str) else json.dumps(observed, sort_keys=True)
        ck, ok = sha12(case), sha12(re.sub(r"(\.rs):\d+", r"\1", obs_s))
        known = self.findings.lookup(ck, ok)
        if known is not None:
            if (ck, ok) not in self._seen_known:
                self._seen_known.add((ck, ok))
                self.known_hits.append((ck, ok, what, known))
            return False
        d = os.path.join(OUT, "replays", self.prop, self.tier)
        os.makedirs(d, exist_ok=True)
        path = os.path.join(d, f"{ck}-{ok}.json")
        if not any(v["path"] == path for v in self.violations):
            with open(path, "w") as f:
                json.dump({"property": self.prop, "what": what, "case": case, "replay": replay if replay is not None else case,
                           "expected": expected, "observed": observed, "case_key": ck, "observed_key": ok}, f, indent=1)
            self.violations.append({"path": path, "what": what, "case_key": ck, "observed_key": ok})
        return True

    def finish(self):
        wall = time.time() - self.t0
        # group known findings by their text (class) to keep the output readable
        by = {}
        for ck, ok, what, known in self.known_hits:
            by.setdefault(known.split(" case=")[0] if known.startswith("class=") else known, []).append((ck, ok, what))
        for ck, ok, what, known in self.known_hits[:400]:
            print(f"KNOWN-FINDING: property={self.prop} case={ck} observed={ok} {what[:160]}")
        if len(self.known_hits) > 400:
            print(f"KNOWN-FINDING: property={self.prop} ... and {len(self.known_hits) - 400} more listed inputs")
        for v in self.violations[:200]:
            print(f"VIOLATION property={self.prop} replay={v['path']}  # {v['what'][:200]}")
        if len(self.violations) > 200:
            print(f"... {len(self.violations) - 200} more violations (replay files under {OUT}/replays/{self.prop}/{self.tier})")
        cov = self.cov
        cov["known_findings_matched"] = len(self.known_hits)
        # maintenance aid (not evidence): which listed findings were met by this run, for pruning lists after a fix
        os.makedirs(os.path.join(OUT, "known_hits"), exist_ok=True)
        with open(os.path.join(OUT, "known_hits", f"{self.prop}-{self.tier}.json"), "w") as f:
            json.dump([[ck, ok] for ck, ok, _, _ in self.known_hits], f)
        if not cov["samples"]:
            cov["samples"] = ["<none>"]
        ev = {"property_id": self.prop, "tier": self.tier, "seed": self.seed, "level": "model_checking",
              "coverage": cov, "assumptions": self.assumptions, "wall_s": round(wall, 2),
              "violations": len(self.violations)}
        os.makedirs(os.path.join(ROOT, "evidence"), exist_ok=True)
        with open(os.path.join(ROOT, "evidence", f"{self.prop}.json"), "w") as f:
            json.dump(ev, f, indent=1)
        print(f"[{self.prop} {self.tier}] states={cov['states']} transitions={cov['transitions']} validated={cov['traces_validated_against_impl']} "
              f"distinct_outcomes={cov.get('distinct_outcomes')} known={len(self.known_hits)} violations={len(self.violations)} wall={wall:.1f}s")
        shutil.rmtree(_tmpdir(), ignore_errors=True)
        return 1 if self.violations else 0

    def triage_lines(self):
        """Candidate known: lines for a human to paste (maintenance command)."""
        out = []
        for v in self.violations:
            out.append(f"{v['case_key']} {v['observed_key']} {v['what'][:120]}")
        return out


def confirm(jobs_results, binary=None):
    """Re-execute failing jobs twice in fresh children; all observations must be identical."""
    jobs = [j for j, _ in jobs_results]
    if not jobs:
        return
    for _ in range(2):
        again = run_jobs(jobs, binary=binary, chunk=1)
        for (j, r), r2 in zip(jobs_results, again):
            if strip_volatile(r) != strip_volatile(r2):
                raise MachineryError("nondeterministic replay of a failing case: " + json.dumps(j)[:500] +
                                     "\n first: " + json.dumps(strip_volatile(r))[:500] + "\n again: " + json.dumps(strip_volatile(r2))[:500])


def strip_volatile(r):
    if isinstance(r, dict):
        return {k: strip_volatile(v) for k, v in r.items() if k not in ("stderr", "allocs")}
    if isinstance(r, list):
        return [strip_volatile(x) for x in r]
    return r
