"""Deterministic, bounded-exhaustive program families (E1 alphabets). Every function returns a list of
program texts in a fixed order; nothing here is random."""
import functools, itertools

# ------------------------------------------------------------------------------------------------
# fold / dce (C05; also fed to C03, C19)
# ------------------------------------------------------------------------------------------------
FOLD_LITS = ['2', '0.5', '-0', '0', '2147483647', '-2147483648', '1e21', '""', '"2"', '"a"', '1n', '2n', 'true', 'false',
             'null', 'undefined', 'NaN', 'Infinity']
FOLD_IDS = ['o', 'g', 's', 'n']
FOLD_PRE = ('var o = {valueOf(){ print("vo"); return 3 }, toString(){ print("ts"); return "t" }}; var s = "7"; var n = 5n; '
            'Object.defineProperty(globalThis, "g", {get(){ print("gg"); return 4 }, configurable: true});\n')
BINOPS = ['+', '-', '*', '/', '%', '**', '<<', '>>', '>>>', '&', '|', '^', '<', '<=', '>', '>=', '==', '!=', '===', '!==',
          '&&', '||', '??', ',', 'in', 'instanceof']
UNOPS = ['-', '+', '~', '!', 'typeof ', 'void ', 'delete ']


def _leaf_forms(x):
    """bare and parenthesised renderings of a leaf (strength reduction only fires on bare identifiers)."""
    if x in FOLD_IDS:
        return [x, f'({x})']
    if x.startswith('-'):
        return [f'({x})']
    return [x]


def _wrap_fold(e):
    return FOLD_PRE + f'try {{ print({e}) }} catch (e) {{ print("E", e.name) }}'


def fold_family(depth, tier='quick'):
    progs = []
    leaves = FOLD_LITS + FOLD_IDS
    for op in BINOPS:
        for a in leaves:
            for b in leaves:
                for fa in _leaf_forms(a):
                    for fb in _leaf_forms(b):
                        if op == '**' and fa.startswith(('-', '+', '~', '!')):
                            continue
                        progs.append(_wrap_fold(f'{fa} {op} {fb}'))
    for op in UNOPS:
        for a in leaves:
            for fa in _leaf_forms(a):
                progs.append(_wrap_fold(f'{op}{fa}'))
                for op2 in BINOPS[:6]:
                    for b in ['2', 'o', '"2"']:
                        if op2 == '**':
                            progs.append(_wrap_fold(f'({op}{fa}) {op2} {b}'))
                        else:
                            progs.append(_wrap_fold(f'{op}{fa} {op2} {b}'))
    # compile-time-only contexts: the same expressions as statement completion values and in var initialisers
    for op in BINOPS[:12]:
        for a in ['2', '-0', '0', '2147483647', '-2147483648', '1n', '"2"', 'o']:
            for b in ['2', '-1', '0', '-0', 'NaN', '2n', '"a"', 'o']:
                fa = _leaf_forms(a)[0]
                fb = _leaf_forms(b)[0]
                progs.append(FOLD_PRE + f'var r; try {{ r = {fa} {op} {fb}; }} catch (e) {{ r = "E" + e.name }} print(r); r')
    if depth >= 2:
        l2 = ['2', '-0', '0.5', '2147483647', '"2"', '1n', 'null', 'o', 'g']
        o2 = ['+', '-', '*', '/', '%', '**', '<<', '>>>', '&', '<', '==', '&&', '??', ',']
        for op1 in o2:
            for op2 in o2:
                for a in l2:
                    for b in l2:
                        for c in l2:
                            fa, fb, fc = _leaf_forms(a)[0], _leaf_forms(b)[0], _leaf_forms(c)[0]
                            if not (op1 == '**' and fa.startswith('(')) or True:
                                progs.append(_wrap_fold(f'({fa} {op1} {fb}) {op2} {fc}'))
                            progs.append(_wrap_fold(f'{fa} {op1} ({fb} {op2} {fc})'))
    return list(dict.fromkeys(progs))


def dce_family(tier='quick'):
    conds = ['true', 'false', '1', '0', '!0', '1 < 2', '"a" == "a"', 'null ?? false', '""', '0n', 'void 0', '2 > 1 && 0']
    bodies = ['2;', 'var v = 2;', 'function h(){ return 1 }', 'let l = 2; l;', '{ 3; }', 'L: { break L; }', ';',
              'print("b"); 4;', 'var v = print("i");', 'class K {}', '5; var w;']
    progs = []
    for c in conds:
        cq = c.replace('"', '\\"')
        for b in bodies:
            bq = b.replace('"', '\\"')
            progs.append(f'1; if ({c}) {{ {b} }}')
            progs.append(f'1; while ({c}) {{ {b} break; }}')
            progs.append(f'1; for (;{c};) {{ {b} break; }}')
            progs.append(f'1; for (var q = print("init"); {c};) {{ {b} break; }}')
            progs.append(f'1; do {{ {b} }} while (({c}) && false)')
            progs.append(f'print(eval("1; if ({cq}) {{ {bq} }}"))')
            progs.append(f'print(eval("1; while ({cq}) {{ {bq} break; }}"))')
            progs.append(f'1; L1: if ({c}) {{ {b} }}')
            progs.append(f'1; {c} ? print("t") : print("e");')
            progs.append(f'1; ({c}) && print("and"); ')
            for b2 in bodies[:4]:
                progs.append(f'1; if ({c}) {{ {b} }} else {{ {b2} }}')
                progs.append(f'(function(){{ 1; if ({c}) {{ {b} }} else {{ {b2} }} return typeof v + typeof h + typeof w }})()')
                progs.append(f'print(typeof v, typeof h, typeof w); if ({c}) {{ {b} }} else {{ {b2} }} print(typeof v, typeof h)')
    # code after return / throw / break
    tails = ['print("dead");', 'var dv = 1;', 'function dh(){}', '7;']
    for t in tails:
        progs.append(f'(function(){{ return typeof dv + typeof dh; {t} }})()')
        progs.append(f'(function(){{ try {{ throw 1; {t} }} catch (e) {{ return typeof dv + typeof dh }} }})()')
        progs.append(f'1; for (;;) {{ 2; break; {t} }}')
        progs.append(f'1; L: {{ 2; break L; {t} }}')
        progs.append(f'3; switch (1) {{ case 1: 4; break; {t} case 2: 5; }}')
    return list(dict.fromkeys(progs))
