"""Deterministic, bounded-exhaustive program families (E1 alphabets). Every function returns a list of
program texts in a fixed order; nothing here is random."""
import functools, itertools

# ------------------------------------------------------------------------------------------------
# fold / dce (C05; also fed to C03, C19)
# ------------------------------------------------------------------------------------------------
FOLD_LITS = ['2', '0.5', '-0', '0', '2147483647', '-2147483648', '1e21', '""', '"2"', '"a"', '1n', '2n', 'true', 'false',
             'null', 'undefined', 'NaN', 'Infinity']
FOLD_IDS = ['o', 'g', 's', 'n']
FOLD_PRE = ('var o = {valueOf(){ print("vo"); return 3 }, toString(){ print("ts"); return "t" }}; var s = "7"; var n = 5n; '
            'Object.defineProperty(globalThis, "g", {get(){ print("gg"); return 4 }, configurable: true});\n')
BINOPS = ['+', '-', '*', '/', '%', '**', '<<', '>>', '>>>', '&', '|', '^', '<', '<=', '>', '>=', '==', '!=', '===', '!==',
          '&&', '||', '??', ',', 'in', 'instanceof']
UNOPS = ['-', '+', '~', '!', 'typeof ', 'void ', 'delete ']


def _leaf_forms(x):
    """bare and parenthesised renderings of a leaf (strength reduction only fires on bare identifiers)."""
    if x in FOLD_IDS:
        return [x, f'({x})']
    if x.startswith('-'):
        return [f'({x})']
    return [x]


def _wrap_fold(e):
    return FOLD_PRE + f'try {{ print({e}) }} catch (e) {{ print("E", e.name) }}'


def fold_family(depth, tier='quick'):
    progs = []
    leaves = FOLD_LITS + FOLD_IDS
    for op in BINOPS:
        for a in leaves:
            for b in leaves:
                for fa in _leaf_forms(a):
                    for fb in _leaf_forms(b):
                        if op == '**' and fa.startswith(('-', '+', '~', '!')):
                            continue
                        progs.append(_wrap_fold(f'{fa} {op} {fb}'))
    for op in UNOPS:
        for a in leaves:
            for fa in _leaf_forms(a):
                progs.append(_wrap_fold(f'{op}{fa}'))
                for op2 in BINOPS[:6]:
                    for b in ['2', 'o', '"2"']:
                        if op2 == '**':
                            progs.append(_wrap_fold(f'({op}{fa}) {op2} {b}'))
                        else:
                            progs.append(_wrap_fold(f'{op}{fa} {op2} {b}'))
    # compile-time-only contexts: the same expressions as statement completion values and in var initialisers
    for op in BINOPS[:12]:
        for a in ['2', '-0', '0', '2147483647', '-2147483648', '1n', '"2"', 'o']:
            for b in ['2', '-1', '0', '-0', 'NaN', '2n', '"a"', 'o']:
                fa = _leaf_forms(a)[0]
                fb = _leaf_forms(b)[0]
                progs.append(FOLD_PRE + f'var r; try {{ r = {fa} {op} {fb}; }} catch (e) {{ r = "E" + e.name }} print(r); r')
    if depth >= 2:
        l2 = ['2', '-0', '0.5', '2147483647', '"2"', '1n', 'null', 'o', 'g']
        o2 = ['+', '-', '*', '/', '%', '**', '<<', '>>>', '&', '<', '==', '&&', '??', ',']
        for op1 in o2:
            for op2 in o2:
                for a in l2:
                    for b in l2:
                        for c in l2:
                            fa, fb, fc = _leaf_forms(a)[0], _leaf_forms(b)[0], _leaf_forms(c)[0]
                            if not (op1 == '**' and fa.startswith('(')) or True:
                                progs.append(_wrap_fold(f'({fa} {op1} {fb}) {op2} {fc}'))
                            progs.append(_wrap_fold(f'{fa} {op1} ({fb} {op2} {fc})'))
    return list(dict.fromkeys(progs))


REF_PRE = (FOLD_PRE + 'o.f = function () { "use strict"; return this === o ? "T:o" : "T:" + String(this) }; o.k = 1; var qq = "global"; '
           'function tag(s) { "use strict"; return this === o ? "tag:o" : "tag:" + String(this) } o.tag = tag;\n')
REF_OPERANDS = ['o.f', 'o["f"]', 'o?.f', '(o.f)', 'eval', '(eval)', 'unresolvable', 'o.k', 'o.tag', 'tag']
REF_CONTEXTS = ['(@)()', '(@)("qq")', 'delete (@)', 'typeof (@)', '(@)`t`', 'new (@)', '(@)?.()', '(function () { var qq = "local"; return (@)("qq") })()',
                '[(@)()]', 'void (@)()', 'delete @', 'typeof @', '(@).name']


def ref_family():
    """Operators that hand one of their operands through (comma, logical, conditional, grouping) x operands that are References x contexts in
    which a Reference behaves differently from its value (callee: this / direct eval, delete, typeof of an unresolvable name, tag)."""
    progs = []
    lits = FOLD_LITS + ['o', 's']
    for r in REF_OPERANDS:
        shapes = [r]
        for l in lits:
            fl = _leaf_forms(l)[0]
            shapes += [f'{fl}, {r}', f'{fl} && {r}', f'{fl} || {r}', f'{fl} ?? {r}', f'{fl} ? {r} : 0', f'{fl} ? 0 : {r}', f'({fl}, {r})', f'{fl}, {fl}, {r}']
        for sh in shapes:
            for c in REF_CONTEXTS:
                progs.append(REF_PRE + 'try { print(' + c.replace('@', sh) + ') } catch (e) { print("E", e.name) } print(o.k, typeof o.f);')
    return list(dict.fromkeys(progs))


def dce_family(tier='quick'):
    conds = ['true', 'false', '1', '0', '!0', '1 < 2', '"a" == "a"', 'null ?? false', '""', '0n', 'void 0', '2 > 1 && 0']
    bodies = ['2;', 'var v = 2;', 'function h(){ return 1 }', 'let l = 2; l;', '{ 3; }', 'L: { break L; }', ';',
              'print("b"); 4;', 'var v = print("i");', 'class K {}', '5; var w;']
    progs = []
    for c in conds:
        cq = c.replace('"', '\\"')
        for b in bodies:
            bq = b.replace('"', '\\"')
            progs.append(f'1; if ({c}) {{ {b} }}')
            progs.append(f'1; while ({c}) {{ {b} break; }}')
            progs.append(f'1; for (;{c};) {{ {b} break; }}')
            progs.append(f'1; for (var q = print("init"); {c};) {{ {b} break; }}')
            progs.append(f'1; do {{ {b} }} while (({c}) && false)')
            progs.append(f'print(eval("1; if ({cq}) {{ {bq} }}"))')
            progs.append(f'print(eval("1; while ({cq}) {{ {bq} break; }}"))')
            progs.append(f'1; L1: if ({c}) {{ {b} }}')
            progs.append(f'1; {c} ? print("t") : print("e");')
            progs.append(f'1; ({c}) && print("and"); ')
            for b2 in bodies[:4]:
                progs.append(f'1; if ({c}) {{ {b} }} else {{ {b2} }}')
                progs.append(f'(function(){{ 1; if ({c}) {{ {b} }} else {{ {b2} }} return typeof v + typeof h + typeof w }})()')
                progs.append(f'print(typeof v, typeof h, typeof w); if ({c}) {{ {b} }} else {{ {b2} }} print(typeof v, typeof h)')
    # conditions that only become literals by folding (NaN, -0, infinities, strings, null/undefined), brace-less branches, and
    # var declarations in every position that hoists out of a removed branch
    conds2 = conds + ['0 / 0', '"a" * 2', '-"x"', '0 * -1', '1 / 0', '-1 / 0', '"0"', '"" + ""', 'null', 'undefined', '0.0', '1e-320', '!1', '-0', '+""', '~-1', '0n * 1n',
                      '"a" && 0', '0 || ""', 'null ?? 0', 'typeof 1', 'void 0 ?? 1', '2 ** -1075']
    single = ['print("t");', 'var v = print("i");', '3;', 'for (var k in {a: 1});', 'for (var k of []);', 'for (var k = 0; false;);', 'try {} catch { var k }',
              'switch (0) { case 0: var k }', 'L: var k;', 'do var k; while (false)', 'if (print("n")) var k;', ';']
    for c in conds2:
        cq = c.replace('"', '\\"')
        for b in single:
            progs.append(f'1; if ({c}) {b}\ntry {{ print(k) }} catch (e) {{ print("Ek", e.name) }} try {{ print(v) }} catch (e) {{ print("Ev", e.name) }}')
            progs.append(f'1; if ({c}) {b} else print("e");\ntry {{ print(k) }} catch (e) {{ print("Ek", e.name) }} try {{ print(v) }} catch (e) {{ print("Ev", e.name) }}')
            progs.append(f'1; if ({c}) print("t"); else {b}\ntry {{ print(k) }} catch (e) {{ print("Ek", e.name) }} try {{ print(v) }} catch (e) {{ print("Ev", e.name) }}')
            progs.append(f'(function(){{ 1; if ({c}) {b} else {{ print("e") }}\nvar out = []; try {{ out.push(k) }} catch (e) {{ out.push("Ek") }} try {{ out.push(v) }} catch (e) {{ out.push("Ev") }} return out.join() }})()')
            progs.append(f'(function(){{ 1; if ({c}) {{ print("t") }} else {b}\nvar out = []; try {{ out.push(k) }} catch (e) {{ out.push("Ek") }} try {{ out.push(v) }} catch (e) {{ out.push("Ev") }} return out.join() }})()')
        progs.append(f'1; while ({c}) break;')
        progs.append(f'1; for (;{c};) break;')
        progs.append(f'2; do 1; while (({c}) && false)')
        progs.append(f'({c}) ? print("t") : print("e")')
        progs.append(f'print(({c}) ? "t" : "e", !({c}), !!({c}))')
        progs.append(f'print(({c}) && "and", ({c}) || "or", ({c}) ?? "nn")')
        if '"' not in c or True:
            progs.append(f'print(eval("1; if ({cq}) 2; else 3;"))')
    # code after return / throw / break
    tails = ['print("dead");', 'var dv = 1;', 'function dh(){}', '7;', 'for (var dv in {});', 'for (var dv of []);']
    for t in tails:
        progs.append(f'(function(){{ try {{ dv }} catch (e) {{ return "Edv" }} try {{ dh }} catch (e) {{ return "Edh" }} return typeof dv + typeof dh; {t} }})()')
        progs.append(f'(function(){{ try {{ throw 1; {t} }} catch (e) {{ return typeof dv + typeof dh }} }})()')
        progs.append(f'1; for (;;) {{ 2; break; {t} }}')
        progs.append(f'1; L: {{ 2; break L; {t} }}')
        progs.append(f'3; switch (1) {{ case 1: 4; break; {t} case 2: 5; }}')
    return list(dict.fromkeys(progs))


# ------------------------------------------------------------------------------------------------
# op (C01, C04): operators x operand alphabet x operand forms
# ------------------------------------------------------------------------------------------------
OP_VALS = ['0', '-0', '1', '-1', '2147483647', '-2147483648', '4294967296', '0.5', 'NaN', 'Infinity', '""', '"5"', '"a"', 'true', 'null',
           'undefined', '1n', '-2n',
           '({valueOf(){print("vo");return 3}})', '({toString(){print("ts");return "7"}})',
           '({[Symbol.toPrimitive](h){print("tp",h);return 2}})', '[]', '[2]', 'Symbol("s")', '({valueOf(){print("vt");throw 8}})']
OP_VALS_QUICK = [v for i, v in enumerate(OP_VALS) if i in (0, 1, 2, 3, 5, 7, 8, 10, 11, 12, 14, 15, 16, 18, 19, 23)]
OP_BIN = ['+', '-', '*', '/', '%', '**', '<<', '>>', '>>>', '&', '|', '^', '<', '<=', '>', '>=', '==', '!=', '===', '!==', '&&', '||', '??',
          'in', 'instanceof', ',']
OP_UN = ['-', '+', '~', '!', 'typeof ', 'void ']
OP_ASSIGN = ['=', '+=', '-=', '*=', '/=', '%=', '**=', '<<=', '>>=', '>>>=', '&=', '|=', '^=', '&&=', '||=', '??=']
_TC = 'try {{ {} }} catch (e) {{ print("E", e.name) }}'


def op_family(tier='quick'):
    progs = []
    vals = OP_VALS if tier == 'thorough' else OP_VALS_QUICK
    for op in OP_BIN:
        for a in vals:
            for b in vals:
                e = f'(a {op} b)'
                progs.append(f'(function(){{ let a = {a}, b = {b}; ' + _TC.format(f'print({e})') + ' })()')
                progs.append(f'var a = {a}, b = {b}; ' + _TC.format(f'print({e})'))
                progs.append(_TC.format(f'print(({a}) {op} ({b}))'))
                if tier == 'thorough':
                    progs.append(f'(function(){{ let a = {a}, b = {b}; let f = () => [a, b]; ' + _TC.format(f'print({e})') + ' })()')
                    progs.append(f'var o = {{a: {a}, b: {b}}}, k = "b"; ' + _TC.format(f'print(o.a {op} o[k])'))
    for op in OP_UN:
        for a in vals:
            progs.append(f'(function(){{ let a = {a}; ' + _TC.format(f'print({op}a)') + ' })()')
            progs.append(_TC.format(f'print({op}({a}))'))
            progs.append(f'var a = {a}; ' + _TC.format(f'print({op}a)'))
    rhs = ['1', '"5"', 'undefined', '1n', '({valueOf(){print("vo");return 3}})']
    for op in OP_ASSIGN:
        for a in vals:
            for b in rhs:
                progs.append(f'(function(){{ let a = {a}; try {{ print(a {op} {b}, a) }} catch (e) {{ print("E", e.name, a) }} }})()')
                progs.append(f'var a = {a}; try {{ print(a {op} {b}, a) }} catch (e) {{ print("E", e.name, a) }}')
                progs.append(f'var o = {{a: {a}}}; try {{ print(o.a {op} {b}, o.a) }} catch (e) {{ print("E", e.name, o.a) }}')
                progs.append(f'(function(){{ let a = {a}; try {{ print(a + (a {op} {b}), a) }} catch (e) {{ print("E", e.name, a) }} }})()')
                progs.append(f'(function(){{ let a = {a}; let f = () => a; try {{ print(a + (a {op} {b}), a, f()) }} catch (e) {{ print("E", e.name, a) }} }})()')
                progs.append(f'var a = {a}; var v; try {{ v = "x" + (a {op} {b}); print(v, a) }} catch (e) {{ print("E", e.name, a, v) }}')
                progs.append(f'(function(a){{ try {{ print(a {op} {b}, a, arguments[0]) }} catch (e) {{ print("E", e.name, a) }} }})({a})')
    for a in vals:
        for u in ['a++', 'a--', '++a', '--a']:
            progs.append(f'(function(){{ let a = {a}; try {{ print({u}, a) }} catch (e) {{ print("E", e.name, a) }} }})()')
            progs.append(f'(function(){{ let a = {a}; try {{ print(typeof ({u}), a) }} catch (e) {{ print("E", e.name, a) }} }})()')
            progs.append(f'(function(){{ let a = {a}; let f = () => a; try {{ print({u}, a, f()) }} catch (e) {{ print("E", e.name, a) }} }})()')
            progs.append(f'var a = {a}; try {{ print({u}, a) }} catch (e) {{ print("E", e.name, a) }}')
            progs.append(f'var o = {{a: {a}}}; var k="a"; try {{ print({u.replace("a", "o[k]")}, o.a) }} catch (e) {{ print("E", e.name, o.a) }}')
            progs.append(f'var o = {{a: {a}}}; try {{ print({u.replace("a", "o.a")}, o.a) }} catch (e) {{ print("E", e.name, o.a) }}')
            progs.append(f'(function(){{ let a = {a}; try {{ print(a + ({u}), ({u}) + a, a) }} catch (e) {{ print("E", e.name, a) }} }})()')
    return list(dict.fromkeys(progs))


# ------------------------------------------------------------------------------------------------
# ctl (C01, C03, C04): all statement trees by node count
# ------------------------------------------------------------------------------------------------
CTL_LEAVES = ['P', 'Break', 'BreakL', 'Continue', 'ContinueL', 'Return', 'Throw', 'Decl', 'Yield']
CTL_UN = ['While', 'DoWhile', 'For', 'ForOf', 'ForIn', 'Lab', 'Block1', 'IfT']
CTL_BIN = ['If', 'Seq', 'Try', 'TryF', 'Switch']
CTL_TER = ['TryCF']


@functools.lru_cache(None)
def ctl_trees(n):
    out = []
    if n == 1:
        return [(l,) for l in CTL_LEAVES]
    for u in CTL_UN:
        for c in ctl_trees(n - 1):
            out.append((u, c))
    for b in CTL_BIN:
        for k in range(1, n - 1):
            for c1 in ctl_trees(k):
                for c2 in ctl_trees(n - 1 - k):
                    out.append((b, c1, c2))
    for t in CTL_TER:
        for k1 in range(1, n - 2):
            for k2 in range(1, n - 1 - k1):
                k3 = n - 1 - k1 - k2
                if k3 < 1:
                    continue
                for c1 in ctl_trees(k1):
                    for c2 in ctl_trees(k2):
                        for c3 in ctl_trees(k3):
                            out.append((t, c1, c2, c3))
    return out


class _St:
    def __init__(s):
        s.n = 0
        s.loops = 0


def _ctl_emit(t, st, inloop, inlab, kind):
    k = t[0]

    def pid():
        st.n += 1
        return st.n
    if k == 'P':
        return f'print({pid()});'
    if k == 'Decl':
        return f'let d{pid()} = () => c; print(typeof d{st.n});'
    if k == 'Break':
        return 'break;' if inloop else f'print("nb{pid()}");'
    if k == 'Continue':
        return 'continue;' if inloop == 2 else f'print("nc{pid()}");'
    if k == 'BreakL':
        return 'break L;' if inlab else f'print("nbl{pid()}");'
    if k == 'ContinueL':
        return 'continue L;' if inlab == 2 else f'print("ncl{pid()}");'
    if k == 'Return':
        return f'return {pid()};'
    if k == 'Throw':
        return f'throw {pid()};'
    if k == 'Yield':
        if kind == 'gen':
            return f'print("y", yield {pid()});'
        if kind == 'async':
            return f'print("aw", await {pid()});'
        return f'print("ny{pid()}");'

    def sub(c, il=inloop, ib=inlab):
        return _ctl_emit(c, st, il, ib, kind)
    if k in ('While', 'DoWhile', 'For', 'ForOf', 'ForIn'):
        st.loops += 1
        v = f'i{st.loops}'
        body = sub(t[1], 2)
        if k == 'While':
            return f'{{ let {v}=0; while ({v}++ < 2) {{ c++; {body} }} }}'
        if k == 'DoWhile':
            return f'{{ let {v}=0; do {{ c++; {body} }} while ({v}++ < 1); }}'
        if k == 'For':
            return f'for (let {v}=0; {v} < 2; {v}++) {{ c++; let z = () => {v}; {body} }}'
        if k == 'ForOf':
            return f'for (const {v} of it()) {{ c++; {body} }}'
        if k == 'ForIn':
            return f'for (var {v} in {{x:1,y:2}}) {{ c++; {body} }}'
    if k == 'Lab':
        st.loops += 1
        v = f'i{st.loops}'
        if inlab:
            return f'{{ {sub(t[1])} }}'
        return f'L: for (let {v}=0; {v} < 2; {v}++) {{ c++; {_ctl_emit(t[1], st, 2, 2, kind)} }}'
    if k == 'Block1':
        return f'{{ let b{pid()} = c; {sub(t[1])} }}'
    if k == 'IfT':
        return f'if (c % 2 == 0) {{ {sub(t[1])} }}'
    if k == 'If':
        return f'if (c++ % 2 == 0) {{ {sub(t[1])} }} else {{ {sub(t[2])} }}'
    if k == 'Seq':
        return f'{sub(t[1])} {sub(t[2])}'
    if k == 'Try':
        return f'try {{ {sub(t[1])} }} catch (e) {{ print("c", e); {sub(t[2])} }}'
    if k == 'TryF':
        return f'try {{ {sub(t[1])} }} finally {{ print("f"); {sub(t[2])} }}'
    if k == 'TryCF':
        return f'try {{ {sub(t[1])} }} catch (e) {{ print("c", e); {sub(t[2])} }} finally {{ print("f"); {sub(t[3])} }}'
    if k == 'Switch':
        il = inloop if inloop == 2 else 1
        return f'switch (c % 2) {{ case 0: {_ctl_emit(t[1], st, il, inlab, kind)} case 1: {_ctl_emit(t[2], st, il, inlab, kind)} }}'
    raise Exception(k)


CTL_IT = ('function it() { var n = 0; return { [Symbol.iterator]() { return this }, next() { n++; return n > 2 ? {done: true} : {value: n * 10, done: false} }, '
          'return(v) { print("it.return"); return {done: true} } } }\n')


def _has(t, name):
    return t[0] == name or any(isinstance(c, tuple) and _has(c, name) for c in t[1:])


def ctl_program(t, kind='fn'):
    st = _St()
    body = _ctl_emit(t, st, 0, 0, kind)
    pre = 'var c = 0; ' + CTL_IT
    if kind == 'fn':
        return pre + f'function f() {{ {body} print("end"); return "r"; }} try {{ print("ret", f()); }} catch (e) {{ print("thrown", e); }} print("c", c);'
    if kind == 'top':
        # script top level: no return
        return pre + f'try {{ (function(){{ {body} }})() }} catch (e) {{ print("thrown", e) }} print("c", c);'
    if kind == 'gen':
        return pre + (f'function* f() {{ {body} print("end"); return "r"; }} var g = f(); '
                      'try { print("n1", g.next("a")); print("n2", g.next("b")); print("rt", g.return("R")); print("n3", g.next("c")); } '
                      'catch (e) { print("thrown", e); try { print("n4", g.next()) } catch (e2) { print("thrown2", e2) } } print("c", c);')
    if kind == 'gen-throw':
        return pre + (f'function* f() {{ {body} print("end"); return "r"; }} var g = f(); '
                      'try { print("n1", g.next("a")); print("th", g.throw("T")); print("n2", g.next("b")); } '
                      'catch (e) { print("thrown", e); try { print("n4", g.next()) } catch (e2) { print("thrown2", e2) } } print("c", c);')
    if kind == 'async':
        return pre + (f'async function f() {{ {body} print("end"); return "r"; }} '
                      'f().then(v => print("ret", v), e => print("thrown", e)).then(() => print("c", c)); print("sync-end");')
    raise Exception(kind)


def ctl_family(n_max, kinds=('fn',)):
    progs = []
    for kind in kinds:
        for n in range(1, n_max + 1):
            for t in ctl_trees(n):
                if kind == 'fn' and _has(t, 'Yield'):
                    continue
                if kind != 'fn' and not _has(t, 'Yield') and n == n_max and n >= 4:
                    continue  # largest size without yield/await is covered by 'fn'
                progs.append(ctl_program(t, 'gen' if kind == 'gen' else kind))
    return list(dict.fromkeys(progs))


# ------------------------------------------------------------------------------------------------
# scope (C01, C04): declarations x parameter lists x uses
# ------------------------------------------------------------------------------------------------
def _decls(n):
    return [f'var {n};', f'var {n} = 1;', f'let {n} = 2;', f'const {n} = 3;', f'function {n}(){{ return 4 }}', f'class {n} {{}}',
            f'{{ let {n} = 5; print("blk", {n}); }}', f'try {{ throw 6 }} catch ({n}) {{ print("ct", {n}); }}',
            f'for (let {n} = 0; {n} < 1; {n}++) {{ print("fl", {n}); }}', '']


def _uses(n):
    return [f'print("r", {n});', f'{n} = 50; print("w", {n});', f'print("t", typeof {n});', f'print("cr", (() => {n})());',
            f'(() => {{ {n} = 60 }})(); print("cw", {n});', f'print("d", delete {n});', f'print("ev", eval("{n}"));',
            f'with ({{{n}: 9}}) {{ print("wi", {n}); }}', f'print("ty", typeof {n} === "function" ? {n}() : {n});',
            f'{n}++; print("u", {n});', f'eval("var {n} = 70"); print("evv", {n});']


SCOPE_PARAMS = [('a', '7'), ('a=1', ''), ('a,b=a', '7'), ('a=b,b', 'undefined,8'), ('a,b=()=>a', '7'), ('{a}', '{a:7}'), ('[a]', '[7]'),
                ('...a', '7,8'), ('a,a', '7,8'), ('a=eval("x")', ''), ('a, b = function(){ return a }', '7'), ('a = () => x, x', 'undefined, 8')]


def scope_family(tier='quick'):
    progs = []

    def wrap(params, args, body, strict):
        s = '"use strict"; ' if strict else ''
        return f'function f({params}) {{ {s}{body} }} try {{ print("ret", f({args})) }} catch (e) {{ print("E", e.name) }}'
    D, U = _decls('x'), _uses('x')
    for d1 in D:
        for d2 in D:
            for ui, u in enumerate(U):
                tu = 'try { ' + u + ' } catch (e) { print("E1", e.name) }'
                for pos in range(3):
                    parts = [d1, d2]
                    parts.insert(pos, tu)
                    body = ' '.join(parts) + ' return typeof x;'
                    for strict in (False, True):
                        if tier == 'quick' and strict and ui not in (0, 1, 5, 6):
                            continue
                        progs.append(wrap('p', '1', body, strict))
    D, U = _decls('a'), _uses('a')
    for params, args in SCOPE_PARAMS:
        for d in D:
            for u in U:
                tu = 'try { ' + u + ' } catch (e) { print("E1", e.name) }'
                for pos in range(2):
                    parts = [d]
                    parts.insert(pos, tu)
                    body = ' '.join(parts) + ' return typeof b === "function" ? [typeof a, b()] : typeof a;'
                    for strict in ((False, True) if tier == 'thorough' else (False,)):
                        progs.append(wrap(params, args, body, strict))
    # top-level (global) declarations: two scripts' worth of declarations in one script
    D, U = _decls('x'), _uses('x')
    for d1 in D:
        for d2 in D:
            for u in U[:8]:
                progs.append(f'{d1} {d2} try {{ {u} }} catch (e) {{ print("E1", e.name) }} typeof x')
    return list(dict.fromkeys(progs))


# ------------------------------------------------------------------------------------------------
# destr (C01)
# ------------------------------------------------------------------------------------------------
DESTR_PATTERNS = ['{a}', '{a=1}', '{a:b}', '{a:{b}}', '{a:[b]}', '{[k()]:a}', '{a,...r}', '{a:{b},...r}', '{a:b=k()}', '[a]', '[a=1]', '[,a]',
                  '[a,...r]', '[[a]]', '[{a}]', '[a,b=a]', '{a,b=a}', '[...[a,b]]', '{}', '[]', '[a=k(),b=k()]', '{a:{b}={b:k()}}', '[a,,b]',
                  '{a,a:b}', '[...{length:a}]']
DESTR_SOURCES = ['{a:1,b:2,c:3}', '{a:{b:5},x:1}', '{a:[6],y:2}', '[1,2,3]', '[[7,8],9]', '[{a:9}]', '"xy"', 'iter()', 'null', 'undefined',
                 '{get a(){print("ga");return 4}, get b(){print("gb");return undefined}}', '[undefined,null]', '7']
DESTR_PRE = ('function k(){ print("k"); return "a" } function iter(){ var n=0; return {[Symbol.iterator](){return this}, next(){ n++; print("nx", n); return {value:n, done:n>3} }, '
             'return(){ print("it.return"); return {} }} }\n'
             'function show(){ var o = []; try { o.push(a) } catch (e) { o.push("!a") } try { o.push(b) } catch (e) { o.push("!b") } try { o.push(r) } catch (e) { o.push("!r") } print.apply(null, o) }\n')


def destr_family(tier='quick'):
    progs = []
    for p in DESTR_PATTERNS:
        for s in DESTR_SOURCES:
            body = []
            body.append(f'(function(){{ try {{ var {p} = {s}; print(typeof a, typeof b, typeof r, typeof a == "undefined" ? 0 : a, typeof b == "undefined" ? 0 : b, typeof r == "undefined" ? 0 : r) }} catch (e) {{ print("E", e.name) }} }})()')
            body.append(f'(function(){{ try {{ let {p} = {s}; print(typeof a == "undefined" ? 0 : a, typeof b == "undefined" ? 0 : b, typeof r == "undefined" ? 0 : r) }} catch (e) {{ print("E", e.name) }} }})()')
            body.append(f'(function(){{ function g({p}) {{ print(typeof a == "undefined" ? 0 : a, typeof b == "undefined" ? 0 : b, typeof r == "undefined" ? 0 : r, arguments.length) }} try {{ g({s}) }} catch (e) {{ print("E", e.name) }} }})()')
            body.append(f'(function(){{ var a, b, r; try {{ print(({p} = {s}) === undefined); print(a, b, r) }} catch (e) {{ print("E", e.name, a, b, r) }} }})()')
            body.append(f'(function(){{ try {{ for (const {p} of [{s}]) {{ print(typeof a == "undefined" ? 0 : a, typeof b == "undefined" ? 0 : b, typeof r == "undefined" ? 0 : r) }} }} catch (e) {{ print("E", e.name) }} }})()')
            body.append(f'(function(){{ try {{ try {{ throw {s} }} catch ({p}) {{ print(typeof a == "undefined" ? 0 : a, typeof b == "undefined" ? 0 : b, typeof r == "undefined" ? 0 : r) }} }} catch (e) {{ print("E", e.name) }} }})()')
            body.append(f'var a, b, r; try {{ [{p} = {s}] = []; print(a, b, r) }} catch (e) {{ print("E", e.name, a, b, r) }}')
            body.append(f'try {{ var {p} = {s}; print(typeof a == "undefined" ? 0 : a, typeof b == "undefined" ? 0 : b, typeof r == "undefined" ? 0 : r) }} catch (e) {{ print("E", e.name) }}')
            for b in body:
                progs.append(DESTR_PRE + b)
    return list(dict.fromkeys(progs))


# ------------------------------------------------------------------------------------------------
# class (C01)
# ------------------------------------------------------------------------------------------------
CLASS_ELEMS = ['f = print("f") || 1;', 'static s = print("s") || 2;', 'm() { return "m" + (this.f|0) }', 'get g() { return "g" } set g(v) { print("set", v) }',
               '#p = print("p") || 3; rp() { return this.#p }', '#pm() { return "pm" } cpm() { return this.#pm() }', 'static { print("sb", typeof this, this.s) }',
               '[print("ck") || "c"]() { return "cv" }', 'static sm() { return "sm" + typeof this.s }', 'f = this.constructor.name;', '"quoted" = 9;', 'static #sp = 4; static rsp() { return C.#sp }']
CLASS_HERITAGE = ['', 'extends Base', 'extends null', 'extends (print("her") || Base)']
CLASS_CTORS = ['', 'constructor() { print("ctor"); }', 'constructor() { super(); print("ctor", this.f); }', 'constructor() { print(typeof this); super(); }',
               'constructor() { super(); return {alien: 1}; }', 'constructor(x = print("arg")) { super(); }']
CLASS_PRE = 'class Base { constructor() { print("base", new.target === Base); this.b = 1 } bm() { return "bm" } static bs() { return "bs" } }\n'
CLASS_USE = ('try { var o = new C(); print(o); print(typeof o.m == "function" ? o.m() : 0, o.g, typeof o.rp == "function" ? o.rp() : 0, typeof o.cpm == "function" ? o.cpm() : 0, '
             'typeof o.c == "function" ? o.c() : 0, typeof C.sm == "function" ? C.sm() : 0, C.s, typeof o.bm, typeof C.bs, Object.getOwnPropertyNames(C.prototype).join(), typeof C.rsp == "function" ? C.rsp() : 0); o.g = 1 } '
             'catch (e) { print("E", e.name) } try { C() } catch (e) { print("E2", e.name) }')


def class_family(tier='quick'):
    progs = []
    n_el = 3 if tier == 'thorough' else 2
    combos = [()]
    for n in range(1, n_el + 1):
        combos += list(itertools.product(range(len(CLASS_ELEMS)), repeat=n))
    for combo in combos:
        body = ' '.join(CLASS_ELEMS[i] for i in combo)
        for h in CLASS_HERITAGE:
            for c in CLASS_CTORS:
                if len(combo) == 3 and (h == CLASS_HERITAGE[3] or c in CLASS_CTORS[4:]):
                    continue
                progs.append(CLASS_PRE + f'try {{ var C = class C {h} {{ {c} {body} }}; }} catch (e) {{ print("E0", e.name) }} ' + CLASS_USE)
    return list(dict.fromkeys(progs))


# ------------------------------------------------------------------------------------------------
# gen (C01): generator bodies x resume scripts
# ------------------------------------------------------------------------------------------------
GEN_BODIES = [
    'var x = yield 1; print("x", x); var y = yield 2; print("y", y); return 3;',
    'try { yield 1; yield 2; } finally { print("fin"); }',
    'try { yield 1; } finally { yield 2; print("fin2"); }',
    'try { yield 1; } catch (e) { print("caught", e); yield 2; } finally { print("fin"); } yield 3;',
    'try { yield 1; } finally { return 9; }',
    'for (var i = 0; i < 3; i++) { try { yield i; } finally { print("f", i); if (i == 1) continue; } }',
    'yield* [1, 2];  return 5;',
    'var r = yield* inner(); print("r", r); yield 7;',
    'yield* objit(true, true); yield 8;',
    'yield* objit(true, false); yield 8;',
    'yield* objit(false, false); yield 8;',
    'yield* objit(false, true); yield 8;',
    'try { yield* inner(); } catch (e) { print("outer caught", e); yield 6; }',
    'L: for (var v of it()) { try { yield v; } finally { print("f"); break L; } }',
    'for (var v of it()) { yield v; }',
    'var [a, b] = [yield 1, yield 2]; print(a, b);',
    'var o = {[yield 1]: yield 2}; print(o);',
    'print(yield (yield 1)); ',
    'yield; yield undefined; yield* [];',
    'function* nested() { yield "n" } for (var q of nested()) yield q; return arguments.length;',
    'try { try { yield 1; } finally { print("in"); } } finally { print("out"); yield 2; }',
    'while (true) { try { yield 1; break; } finally { print("wf"); } }',
    'switch (yield 1) { case "a": yield "A"; case "b": yield "B"; break; default: yield "D"; }',
    'var t = `${yield 1}-${yield 2}`; print(t);',
    'return yield 1;',
    'throw (yield 1);',
]
GEN_PRE = ('var c = 0; ' + CTL_IT + 'function* inner() { try { var x = yield "i1"; print("ix", x); yield "i2"; return "ir"; } finally { print("ifin"); } }\n'
           'function objit(hasReturn, hasThrow) { var n = 0; var o = {[Symbol.iterator]() { return this }, next(v) { n++; print("o.next", v); return {value: "o" + n, done: n > 2} }}; '
           'if (hasReturn) o.return = function(v) { print("o.return", v); return {value: "oret", done: true} }; if (hasThrow) o.throw = function(e) { print("o.throw", e); return {value: "othr", done: false} }; return o }\n')
GEN_RESUMES = ['next("A")', 'throw("T")', 'return("R")']


def gen_family(tier='quick'):
    progs = []
    bodies = list(GEN_BODIES)
    nmax = 3
    for n in range(1, nmax + 1):
        for t in ctl_trees(n):
            if _has(t, 'Yield'):
                st = _St()
                bodies.append(_ctl_emit(t, st, 0, 0, 'gen') + ' print("end"); return "r";')
    depth = 3
    scripts = []
    for n in range(1, depth + 1):
        scripts += list(itertools.product(GEN_RESUMES, repeat=n))
    for bi, b in enumerate(bodies):
        for sc in scripts:
            if tier == 'quick' and bi >= len(GEN_BODIES) and len(sc) == 3 and sc[0] != 'next("A")':
                continue
            steps = ' '.join(f'try {{ print("{r[:2]}", g.{r}) }} catch (e) {{ print("thrown", e) }}' for r in sc)
            progs.append(GEN_PRE + f'function* f() {{ {b} }} var g = f(); {steps} try {{ print("last", g.next("Z")) }} catch (e) {{ print("thrown", e) }} print("c", c);')
    return list(dict.fromkeys(progs))


# ------------------------------------------------------------------------------------------------
# pair (C01, C04): every ordered pair (outer construct, inner snippet) x function kinds
# ------------------------------------------------------------------------------------------------
PAIR_OUTERS = [
    '{ @ }', 'if (t) { @ }', 'if (!t) {} else { @ }', 'while (n++ < 2) { @ }', 'do { @ } while (n++ < 1);', 'for (var i = 0; i < 2; i++) { @ }',
    'for (let i = 0; i < 2; i++) { let cl = () => i; @ }', 'for (var k in {p: 1, q: 2}) { @ }', 'for (let v of [1, 2]) { @ }', 'for (const v of it()) { @ }',
    'L1: { @ }', 'L1: for (var z1 = 0; z1 < 2; z1++) { @ break L1; }', 'switch (1) { case 1: @ }', 'switch (2) { case 1: default: @ }', 'switch (1) { case 1: { @ } case 2: print("ft"); }',
    'try { @ } catch (e) { print("oc", e) }', 'try { @ } finally { print("of") }', 'try { throw 1 } catch (e) { @ }', 'try { } finally { @ }',
    'try { throw 1 } catch ({}) { @ } finally { print("of2") }', 'with ({w: 1}) { @ }', '(function () { @ })();', '(() => { @ })();',
    '(function* () { @ })().next();', '(async function () { @ })().then(v => print("av", v), e => print("ae", e));', 'new (class { constructor() { @ } })();',
    '({ m() { @ } }).m();', '({ get g() { @ } }).g;', 'class K { static { @ } }', '[1].forEach(function (el) { @ });', 'eval("@Q");', '(0, eval)("@Q");',
    'new Function("@Q")();', 'var fx = function (p = (() => { @ })()) {}; fx();', 'label2: if (t) { @ }', '(function (a, b) { "use strict"; @ })(1, 2);',
    'for (var i = 0, fns = []; i < 2; i++) { fns.push(() => i); @ } print(fns.map(f => f()));', '{ let tdz1 = 1; { @ } }', 'if (t) @S', 'while (n++ < 1) @S',
    'for (let [x1, y1] of [[1, 2]]) { @ }', 'try { try { @ } finally { print("if") } } catch (e) { print("oc2", e) }', '(function () { try { @ } finally { print("rf") } })();',
    '(function () { for (var j = 0; j < 2; j++) { try { @ } finally { print("lf", j) } } })();', 'void async function () { await 0; @ }();',
]
PAIR_INNERS = [
    'print("s");', 'var v1 = 1; print(v1);', 'let l1 = 2; print(l1);', 'const c1 = 3; print(c1);', 'function fd() { return "fd" } print(fd());', 'class CD {} print(typeof CD);',
    'print(typeof tdzv); let tdzv = 1;', 'try { print(tdzl); } catch (e) { print("E", e.name) } let tdzl = 1;', 'break;', 'continue;', 'break L1;', 'return 5;', 'throw "T";',
    'if (t) { print("it") } else { print("ie") }', 'for (var q = 0; q < 2; q++) print("q", q);', 'for (let q of [1]) { print((() => q)()); }', 'for (var kk in {z: 1}) print(kk);',
    'while (false) {}', 'do { print("d"); } while (false);', 'switch (t) { case true: print("ct"); break; default: print("cd"); }', 'try { throw 2 } catch (e2) { print("ic", e2) }',
    'try { print("tb") } finally { print("if2") }', 'try { throw 3 } catch (e3) { print("ic3") } finally { print("if3") }', 'try { return 6 } finally { print("rf6") }',
    'try { break; } finally { print("bf") }', 'try { continue; } finally { print("cf") }', 'try { throw 4 } finally { print("tf") }', 'L2: { print("l2"); break L2; }',
    'with ({wv: 1}) { print(wv); }', 'print(this === undefined, typeof this);', 'print(typeof arguments);', 'print(new.target === undefined);', 'var af = () => this; print(typeof af());',
    'print(eval("1+1"));', 'eval("var ev = 1"); print(typeof ev);', 'print((function () { return typeof arguments })());', 'var {da, db = 2} = {da: 1}; print(da, db);',
    'var [aa, ...ar] = [1, 2, 3]; print(aa, ar);', 'print(`t${n}`);', 'print(n++, ++n, n--);', 'n += 2; print(n);', 'n ??= 5; n ||= 6; n &&= 7; print(n);', 'print(t ? "y" : "n");',
    'print(typeof undef, typeof n);', 'print(delete globalThis.nope);', 'var ob = {a: 1, get b() { return 2 }, [n]: 3}; print(ob);', 'print([1, , 3].length, [...[1, 2]]);',
    'print((function* () { yield 1 })().next());', 'yield 1;', 'await 1;', 'print(await 2);', 'print(yield 2);', 'label3: for (;;) { break label3; }',
    'var cnt = 0; outer: for (var a1 = 0; a1 < 2; a1++) { for (var b1 = 0; b1 < 2; b1++) { cnt++; if (b1) continue outer; } } print(cnt);',
    'function rec(d) { return d ? rec(d - 1) + 1 : 0 } print(rec(3));', 'print((() => { try { return "a" } finally { print("f") } })());', 'print(((a, b = a) => a + b)(1));',
    'var sym = Symbol("s"); print(sym);', 'print(1n + 2n, typeof 1n);', 'print(null ?? "d", undefined?.x, ({a: 1})?.a);', 'print(/a/.test("a"));', 'super.x;', 'print(new (class A { #p = 1; g() { return this.#p } })().g());',
    'print([1, 2, 3].map(x => x * 2));', 'var gl = "g"; print(globalThis.gl);', 'let dup; let dup;', 'var vd; let vd;', 'const cc = 1; try { cc = 2 } catch (e) { print("E", e.name) }',
    'debugger;', ';', '"use strict"; print("dir");', 'print(typeof fh); function fh() {}', 'i = 9; print(i);', 'print(typeof i, typeof v, typeof k, typeof el);',
]
PAIR_KINDS = [('script', '@'), ('function', '(function () { @ })();'), ('strict-function', '(function () { "use strict"; @ })();'), ('generator', 'for (var gv of (function* () { @ })()) print("g", gv);'),
              ('async', '(async function () { @ })().then(v => print("fv", v), e => print("fe", e));')]
PAIR_PRE = 'var t = true, n = 0; ' + CTL_IT


def pair_family(tier='quick'):
    progs = []
    kinds = PAIR_KINDS if tier == 'thorough' else PAIR_KINDS[:2] + PAIR_KINDS[3:4]
    for kn, kw in kinds:
        for o in PAIR_OUTERS:
            for i in PAIR_INNERS:
                if '@Q' in o:
                    body = o.replace('@Q', i.replace('\\', '\\\\').replace('"', '\\"'))
                elif '@S' in o:
                    if i.startswith('function '):
                        continue
                    body = o.replace('@S', i)
                else:
                    body = o.replace('@', i)
                progs.append(PAIR_PRE + 'try { ' + kw.replace('@', body) + ' } catch (e) { print("top", e) } print("n", n);')
    return list(dict.fromkeys(progs))


# ------------------------------------------------------------------------------------------------
# place (C04): constructs whose compilation depends on binding placement, const caching, loop hoisting, fused branches
# ------------------------------------------------------------------------------------------------
PLACE_VALS = ['0', '-0', '1', '2', 'NaN', 'undefined', 'null', '"1"', '"a"', '1n', 'true', '2147483647', '0.5',
              '({valueOf(){print("vo");return 1}})', '({toString(){print("ts");return "2"}})', 'Infinity']
PLACE_CMP = ['<', '<=', '>', '>=', '==', '!=', '===', '!==']


def place_family(tier='quick', operand_order=True):
    progs = []
    vals = PLACE_VALS if tier == 'thorough' else PLACE_VALS[:2] + PLACE_VALS[3:11] + PLACE_VALS[13:14]
    # (1) comparisons in branch positions (fused compare-and-branch), operands in registers / environments / globals / literals
    forms = ['if (A OP B) print("t"); else print("f");', 'while (A OP B) { print("w"); break; }', 'var n = 0; do { print("d"); } while (A OP B && n++ < 1);',
             'for (; A OP B;) { print("fo"); break; }', 'print(A OP B ? 1 : 2);', 'if (!(A OP B)) print("nt"); else print("nf");',
             'if (A OP B && B OP A) print("tt"); else print("ff");', 'if (A OP B || print("rhs")) print("o");']
    for op in PLACE_CMP:
        for fi, form in enumerate(forms):
            for a in vals:
                for b in vals:
                    if tier == 'quick' and fi >= 5 and (vals.index(a) + vals.index(b)) % 3:
                        continue
                    body = form.replace('OP', op)
                    progs.append(f'(function(){{ let a = {a}, b = {b}; try {{ ' + body.replace('A', 'a').replace('B', 'b') + ' } catch (e) { print("E", e.name) } })()')
                    progs.append(f'(function(){{ let a = {a}, b = {b}; let f = () => [a, b]; try {{ ' + body.replace('A', 'a').replace('B', 'b') + ' } catch (e) { print("E", e.name) } })()')
                    if fi < 5:
                        progs.append(f'var a = {a}, b = {b}; try {{ ' + body.replace('A', 'a').replace('B', 'b') + ' } catch (e) { print("E", e.name) }')
                        progs.append(f'(function(){{ let a = {a}; try {{ ' + body.replace('A', 'a').replace('B', f'({b})') + ' } catch (e) { print("E", e.name) } })()')
                        progs.append(f'(function(){{ const a = {a}; let g = () => a; let b = {b}; try {{ ' + body.replace('A', 'a').replace('B', 'b') + ' } catch (e) { print("E", e.name) } })()')
    # (2) loop conditions whose operand changes (or has side effects) during the loop: hoisting must not be observable
    nforms = [('let n = 3;', 'n', ['n--;', 'n = 1;', '']), ('let n = 3; let dec = () => { n-- };', 'n', ['dec();', 'n = 1;', '']),
              ('var o = {n: 3};', 'o.n', ['o.n--;', 'o = {n: 1};', '']), ('var arr = [1, 2, 3];', 'arr.length', ['arr.pop();', 'arr.length = 1;', 'arr = [];', '']),
              ('const n = 3;', 'n', ['']), ('let n = {valueOf(){ print("vo"); return 2 }};', 'n', ['', 'n = 1;']),
              ('let n = "3";', 'n', ['n = "1";', '']), ('let n = 3n;', 'n', ['n--;', '']), ('let n; n = 3;', 'n', ['n--;']),
              ('var n = 3; function dec(){ n-- }', 'n', ['dec();', 'eval("n = 1");', ''])]
    loops = ['for (let i = 0; i < N; i++) { c++; print(i); BODY }', 'for (let i = 0; N > i; i++) { c++; BODY }', 'let i = 0; while (i < N) { i++; c++; BODY }',
             'let i = 0; do { i++; c++; BODY } while (i < N);', 'for (let i = 5; i >= N; i--) { c++; BODY if (c > 8) break; }',
             'for (let i = 0; i < N; i++) { c++; let cl = () => i; BODY }', 'for (var i = 0; i <= N; i++) { c++; BODY if (c > 8) break; }',
             'for (let i = 0, m = N; i < m; i++) { c++; BODY }', 'L: for (let i = 0; i < N; i++) { for (let j = 0; j < N; j++) { c++; BODY if (c > 12) break L; } }']
    for decl, nexpr, bodies in nforms:
        for body in bodies:
            for loop in loops:
                src = loop.replace('N', nexpr).replace('BODY', body)
                progs.append(f'(function(){{ var c = 0; {decl} try {{ {src} }} catch (e) {{ print("E", e.name) }} print("c", c); }})()')
                progs.append(f'var c = 0; {decl} try {{ {src} }} catch (e) {{ print("E", e.name) }} print("c", c);')
    # (3) const / let placement, caching and TDZ
    # operand order: a local is read as an operand and assigned somewhere INSIDE a later operand - directly, or nested in an assignment to
    # something else, a property key, an argument, an array / object / template literal, a conditional, a destructuring default, a closure call
    later = ['(x = V)', '(y = (x = V))', '(y = x = V)', '(o.p = (x = V))', '(o[x = V] = 1)', '[x = V][0]', 'id(x = V)', '(x = V, 1)', '(y += x++)', '(y = ++x)', '(t ? x = V : 0)',
             '`${x = V}`', '(() => x = V)()', '({k: x = V}).k', '([y = (x = V)] = [])[0]', '({y = (x = V)} = {}, y)', '(y ??= (x = V))', '(o.p ||= (x = V))', 'id(...[x = V])',
             'new C(x = V).v', '(x += V)', '(y = (x += V))', 'x++', '(y = x--)', '[x, x = V, x][2]', '(x = V) + x', 'o[(x = V, "q")]']
    olds = ['+', '-', '*', '<', '==', '&', '**', ',', '&&', '??']
    for lt in (later if operand_order else []):
        for op in olds:
            for v0, v in (('1', '5'), ('"s"', '7'), ('0', '"z"')):
                e = f'x {op} ' + lt.replace('V', v)
                pre = 'var y, t = true, o = {p: 0, q: 4}; function id(a) { return a } function C(a) { this.v = a }'
                progs.append(f'(function () {{ {pre} let x = {v0}; try {{ print({e}); }} catch (e) {{ print("E", e.name) }} print(x, y, o.p); }})()')
                progs.append(f'(function (x) {{ {pre} try {{ print({e}); }} catch (e) {{ print("E", e.name) }} print(x, y, o.p); }})({v0})')
                progs.append(f'(function () {{ {pre} var x = {v0}; try {{ print([{e}, x][0]); }} catch (e) {{ print("E", e.name) }} print(x, y, o.p); }})()')
                progs.append(f'(function () {{ {pre} let x = {v0}; try {{ print(id(x, {lt.replace("V", v)}), o[x] = {lt.replace("V", v)}); }} catch (e) {{ print("E", e.name) }} print(x, y, JSON.stringify(o)); }})()')
    decls = ['const K = 1;', 'let K = 1;', 'var K = 1;', 'const K = {v: 1};', 'const K = print("init") || 5;', 'class K { static v = 1 }', 'function K() { return 1 }']
    uses = ['print(typeof K, K === K);', 'function g() { return typeof K === "function" ? 1 : K } print(g(), g());', 'try { K = 2 } catch (e) { print("E", e.name) } print(typeof K);',
            'try { K++ } catch (e) { print("E", e.name) } print(typeof K);', '{ let K = 9; print(K); } print(typeof K);', 'for (let i = 0; i < 2; i++) { print(typeof K); }',
            'var fs = []; for (let i = 0; i < 2; i++) fs.push(() => K); print(fs.map(f => typeof f()).join());', 'with ({K: 7}) { print(K); }', 'print(eval("typeof K"));',
            'switch (1) { case 0: let q = 7; case 1: try { print(q) } catch (e) { print("E", e.name) } }',
            'switch (1) { case 0: const q = 7; case 1: try { print(q) } catch (e) { print("E", e.name) } }',
            'for (var sw = 0; sw < 2; sw++) switch (sw) { case 1: try { print(q, r()) } catch (e) { print("E", e.name) } break; case 0: const q = K; let r = () => q; print(q); }',
            'switch (0) { case 0: try { q = 1 } catch (e) { print("E", e.name) } case 1: let q = 2; print(q); }', 'try { print(typeof K, (() => K)()) } catch (e) { print("E", e.name) }',
            'label: { if (typeof K) break label; }  print(K === undefined);', 'try { [K] = [3] } catch (e) { print("E", e.name) } print(typeof K);']
    wraps = ['@', '(function(){ @ })();', '(function(){ "use strict"; @ })();', '{ @ }', 'if (true) { @ }', 'for (var once = 0; once < 1; once++) { @ }',
             'try { @ } finally { print("fin") }', '(() => { @ })();', '(function*(){ @ })().next();', 'switch (0) { default: @ }',
             '(function(p = (() => typeof K)()) { print(p); @ })();', 'class W { static { @ } }']
    for d in decls:
        for u in uses:
            for w in wraps:
                for order in (0, 1, 2):
                    if order == 0:
                        body = f'{d} {u}'
                    elif order == 1:
                        body = f'try {{ {u} }} catch (e) {{ print("E0", e.name) }} {d} {u}'
                    else:
                        body = f'function h() {{ {u} }} try {{ h() }} catch (e) {{ print("E0", e.name) }} {d} h();'
                    if tier == 'quick' and order == 2 and wraps.index(w) % 3:
                        continue
                    progs.append('try { ' + w.replace('@', body) + ' } catch (e) { print("top", e.name) }')
    return list(dict.fromkeys(progs))


# ------------------------------------------------------------------------------------------------
# completion (C01): completion values of statement lists at script level and in eval
# ------------------------------------------------------------------------------------------------
COMPLETION_STMTS = ['1;', 'var q = f();', 'f();', 'if (t) 2;', 'if (!t) 3;', '{}', ';', 'var v;', 'let l@ = f();', 'for (var i = 0; i < 2; i++) 4;', 'for (var j = 0; j < 1; j++) { f(); }',
                    'try { 5 } finally { f() }', 'try { throw 6 } catch (e) { f(); }', 'do { 7; break; } while (0);', 'L@: { 8; break L@; }', 'function g@() {}', 'switch (1) { case 1: 9 }',
                    'with ({}) 10;', 'eval("11; var ev = f();");', 'o.m();', 'new C();', 'x = f();', 'f(), 12;', 'while (false) 13;', 'class K@ {}', 'o.p = f();', 'void f();', '`${f()}`;', 'x ||= f();']
COMPLETION_PRE = 'var t = true, x = 0; function f() { return "fv" } var o = {m() { return "mv" }}; function C() { this.c = 1 }\n'


def completion_family(tier='quick'):
    progs = []
    n = len(COMPLETION_STMTS)
    depth = 3
    for d in range(1, depth + 1):
        for combo in itertools.product(range(n), repeat=d):
            if d == 3 and tier == 'quick' and (combo[0] * 7 + combo[1] * 3 + combo[2]) % 4:
                continue
            body = ' '.join(COMPLETION_STMTS[c].replace('@', str(k)) for k, c in enumerate(combo))
            progs.append(COMPLETION_PRE + body)
            if d <= 2:
                progs.append(COMPLETION_PRE + 'print(eval(' + repr(body).replace("'", '"') + '));' if '"' not in body else COMPLETION_PRE + "print(eval('" + body.replace('\\', '\\\\').replace("'", "\\'") + "'));")
                progs.append(COMPLETION_PRE + '(function () { print(eval(' + "'" + body.replace('\\', '\\\\').replace("'", "\\'") + "'" + ')); })();')
    return list(dict.fromkeys(progs))


# ------------------------------------------------------------------------------------------------
# capt (C01, C03, C04): loop bindings captured by closures x every way of leaving an iteration x wrappers
# ------------------------------------------------------------------------------------------------
# (head with optional label slot @, expression over the loop bindings, statement that mutates the binding or '')
CAPT_HEADS = [
    ('for (let i = 0; i < 3; i++)', 'i', 'i += 0;'),
    ('for (let i = 0, j = 9; i < 3; i++, j--)', 'i + j * 10', 'j++;'),
    ('for (let i = 0, g = () => i; i < 3; i++)', 'i + "/" + g()', ''),
    ('for (let i = 0; fs.push(() => "t" + i), i < 3; i++)', 'i', ''),
    ('for (let i = 0; i < 3; fs.push(() => "u" + i), i++)', 'i', 'ms.push(() => ++i);'),
    ('for (let x of [1, 2, 3])', 'x', 'x += 10;'),
    ('for (const x of [1, 2, 3])', 'x', ''),
    ('for (let k in {a: 1, b: 2, c: 3})', 'k', 'k += "!";'),
    ('for (let [p, q = p] of [[1, 2], [3], [5, 6]])', 'p + q * 10', 'q++;'),
    ('for (var v = 0; v < 3; v++)', 'v', ''),
    ('var w = 0; @while (w++ < 3)', 'w', ''),
    ('var d = 0; @do', 'd', ''),          # closed by `while (++d < 3)`
]
# ways of leaving the iteration after the closures were created (c counts iterations from 0; OUT labels the loop itself)
CAPT_EXITS = [
    ('plain', ''),
    ('cont', 'if (c++ % 2 == 0) continue;'),
    ('break', 'if (c++ == 1) break;'),
    ('ret', 'if (c++ == 1) return "r";'),
    ('cont-fin', 'try { if (c++ % 2 == 0) continue; } finally { print("f", c) }'),
    ('ret-fin', 'try { if (c++ == 1) return "r" } finally { print("f", c) }'),
    ('ret-fin-scope', 'try { if (c++ == 1) return "r" } finally { let z = c * 100; fs.push(() => z); }'),
    ('brk-fin-scope', 'try { if (c++ == 1) break } finally { let z = c * 100; fs.push(() => z); }'),
    ('switch', 'switch (c++) { case 0: continue; case 1: { let s = 5; fs.push(() => s); break } default: }'),
    ('inner-cont-out', 'for (let n = 0; n < 2; n++) { fs.push(() => "n" + n); if (n == 1) continue OUT; }'),
    ('inner-ret', 'for (let n of [7, 8]) { fs.push(() => "n" + n); if (c++ == 2) return "ri"; }'),
    ('inner-brk-out', 'for (let n of [7, 8]) { fs.push(() => "n" + n); if (c++ == 2) break OUT; }'),
    ('label', 'L: { if (c++ == 0) break L; print("in") }'),
    ('throw', 'try { if (c++ == 1) throw "t" } catch (e) { fs.push(() => e + c); continue }'),
]
# wrappers around the whole loop (LOOP) inside the function
CAPT_WRAPS = [
    ('none', 'LOOP'),
    ('fin', 'try { LOOP } finally { print("F") }'),
    ('fin-scope', 'try { LOOP } finally { let t = 1; fs.push(() => "t" + t++) }'),
    ('catch', 'try { LOOP } catch (e) { print("C", e) }'),
    ('switch', 'switch (1) { case 1: let sw = 4; fs.push(() => "sw" + sw); LOOP }'),
    ('block', '{ let b = 7; fs.push(() => "b" + b++); LOOP }'),
    ('fin2', 'try { try { LOOP } finally { print("F1") } } finally { print("F2") }'),
    ('fin-override', 'for (let r = 0; r < 2; r++) { fs.push(() => "r" + r); try { LOOP } finally { if (r == 0) continue; } }'),
    ('of-wrap', 'for (let o of [1, 2]) { fs.push(() => "o" + o); try { LOOP } finally { let y2 = o; fs.push(() => "y" + y2) } }'),
]
CAPT_CTX = [
    ('fn', 'function f() { BODY return "end" } print(f());'),
    ('gen', 'function* f() { yield 0; BODY return "end" } var it = f(); for (var st = it.next(); !st.done; st = it.next()) print("y", st.value); print(st.value);'),
    ('async', 'async function f() { await 0; BODY return "end" } f().then(v => { print(v); show() }, e => print("rej", e));'),
    ('arrow', 'var f = () => { BODY return "end" }; print(f());'),
    ('method', 'class K { static m() { BODY return "end" } } print(K.m());'),
]


def capt_family(tier='quick'):
    progs = []
    show = 'function show() { print(fs.map(g => g()).join(" ")); ms.forEach(m => m()); print(fs.map(g => g()).join(" ")) }'
    for hi, (head, expr, mut) in enumerate(CAPT_HEADS):
        for en, ex in CAPT_EXITS:
            for wn, wrap in CAPT_WRAPS:
                for cn, ctx in CAPT_CTX:
                    if tier == 'quick':
                        # quick: every (head, exit, wrap) in the plain function context; the other contexts on a third of the product
                        if cn != 'fn' and (hi + len(en) + len(wn)) % 3 != len(cn) % 3:
                            continue
                    pause = {'gen': 'yield c;', 'async': 'await c;'}.get(cn, '')
                    body = '{ let y = c; fs.push(() => [' + expr + ', y].join(":")); ' + mut + ' ' + pause + ' ' + ex + ' print("after", ' + expr + '); }'
                    if '@' in head:
                        loop = head.replace('@', 'OUT: ') + ' ' + body + (' while (++d < 3);' if head.endswith('do') else '')
                    else:
                        loop = 'OUT: ' + head + ' ' + body
                    inner = 'var c = 0; ' + wrap.replace('LOOP', loop)
                    p = 'var fs = [], ms = [];\n' + show + '\n' + ctx.replace('BODY', inner)
                    if cn != 'async':
                        p += '\nshow();'
                    progs.append(p)
    return list(dict.fromkeys(progs))


# ------------------------------------------------------------------------------------------------
# prec: every expression kind in every expression / statement context (C19: printer parenthesisation, spacing, ASI)
# ------------------------------------------------------------------------------------------------
PREC_PRE = ('var a = function () { print("call a"); return a }; a.valueOf = function () { print("va"); return 2 }; a.toString = function () { return "A" }; a.b = 3; a.a = a; '
            'var b = {valueOf() { print("vb"); return 3 }, toString() { return "B" }, b: 23, a: 19}; var c = {valueOf() { print("vc"); return 5 }, toString() { return "C" }, b: 29}; '
            'var x = 1, o = {b: 1, k: 2, f() { return this === o }}, f = function () { return arguments.length }; a[Symbol.iterator] = b[Symbol.iterator] = c[Symbol.iterator] = function* () { yield 1; yield 2 };\n')
# inner expressions (each is an expression that parses on its own)
PREC_INNERS = ['a', '1', '-1', '1.5', '"s"', '`t${a}u`', '/r/g', 'this', 'a, b', 'x = b', 'x += b', 'a ? b : c', 'a ?? b', 'a || b', 'a && b', 'a | b', 'a ^ b', 'a & b',
               'a == b', 'a < b', 'a in b', 'a instanceof f', 'a << b', 'a + b', 'a - b', 'a * b', 'a / b', 'a % b', 'a ** b', '-a', '+a', '!a', '~a', 'typeof a', 'void a',
               'delete o.k', 'x++', 'x--', '++x', '--x', 'new a', 'new a()', 'new a.a()', 'new (a())', 'new (a.a)', 'a()', 'a.b', 'a[b]', 'a?.b', 'a?.()', 'a?.[b]', 'a`t`',
               'function () { return 7 }', 'function* () {}', 'async function () {}', 'class {}', 'class extends a {}', '() => a', 'q => q', 'async () => a', 'async q => q',
               '() => ({})', '() => { }', '{}', '{b: 1}', '{a, b}', '{[a]: 1}', '{...a}', '[]', '[a]', '[, a]', '[...a]', 'new.target', 'o.f()', '(0, o.f)()', 'a.a.a', 'a().a',
               'a``.a', '1 .b', '1.5.b', '1e3.b', '0x10.b', '1n', 'a ? b : c ? a : b', 'a ?? (b || c)', '(a || b) ?? c', 'a - -b', 'a + +b', 'a - --x', 'a + ++x', 'x-- - a',
               'x++ + a', '- -a', '+ +a', '- --x', '+ ++x', '!!a', 'typeof typeof a', 'a / /r/.lastIndex', 'a ** -b', '(-a) ** b', '(a, b)', '((a))', 'yield', 'await', 'async', 'let', 'of',
               'static', 'get', 'a.in', 'a.class', 'o?.b.k', '(o?.b).k', 'import.meta']
# outer expression contexts (@ = hole)
PREC_OUTERS = ['@', '-@', '+@', '!@', 'typeof @', 'void @', 'delete @', '@ ** b', 'a ** @', '@ * b', 'a * @', '@ / b', 'a / @', '@ + b', 'a + @', '@ - b', 'a - @', '@ << b', 'a << @',
               '@ < b', 'a < @', '@ in b', 'a in @', '@ instanceof f', '@ == b', 'a == @', '@ & b', 'a | @', '@ && b', 'a && @', '@ || b', 'a || @', '@ ?? b', 'a ?? @',
               '@ ? b : c', 'a ? @ : c', 'a ? b : @', 'x = @', 'x += @', 'x ??= @', '@, b', 'a, @', 'f(@)', 'f(...@)', 'f(@, @)', 'new @', 'new @()', 'new @.a()', '@()', '@.b', '@[b]', 'a[@]',
               '@?.b', '@?.()', '@`t`', '`t${@}u`', '[@]', '[...@]', '[@, @]', '({k: @})', '({[@]: 1})', '({...@})', '() => @', 'q => @', 'async () => @', '@++', '++@', '(@)',
               '(@).b', '(@)()', '@ ? @ : @', '@ + @', '@ ** @', '@ = b', '[@] = [b]', '({b: @} = o)']
# statement contexts; the completion value / prints of the script are the observation
PREC_STMTS = ['@;', '@\nb;', 'b\n@;', 'if (@) print(1); else print(2);', 'if (x) @; else @;', 'for (@; ; ) break;', 'for (var y = @; ; ) break;', 'for (var y of @) break;', 'for (var y in @) break;',
              'for (x of @) break;', 'for (; @; ) break;', 'for (; ; @) break;', 'while (@) break;', 'do @; while (0);', 'do @\nwhile (0);', 'L: @;', 'switch (@) { case @: print(3) }',
              'try { throw @ } catch (e) { print(e) }', '(function () { return @ })();', '(function () { return (@) })();', '(function* () { yield @ })().next();', '(function* () { yield* @ })().next();',
              '(async function () { await @ })();', 'var y = @;', 'var y = @, z = @;', 'let [p = @] = [];', 'let {q = @} = {};', '(function (p = @) { return p })();', '((p = @) => p)();',
              'class K extends @ {}', 'class K { [@]() {} }', 'class K { static s = @; }', 'class K { f = @\n g = 1 }', 'x = @', '{ @ }', 'with (o) @;', 'throw @;', 'export_default']


def _prec_prog(text):
    return PREC_PRE + text


def prec_family(tier='quick'):
    """outer x inner, inner bare and parenthesised; quick: expression contexts with R = (outer) and statement contexts; thorough: + outer x outer x inner."""
    out = []
    outers = [o for o in PREC_OUTERS]
    for o in outers:
        for i in PREC_INNERS:
            for inner in (i, '(' + i + ')'):
                e = o.replace('@', inner)
                out.append(_prec_prog('var R = ' + e + '; print(typeof R, String(R));'))
                out.append(_prec_prog('try { print(String(' + e + ')) } catch (e) { print("E", e.name) }'))
    for s in PREC_STMTS:
        if s == 'export_default':
            continue
        for i in PREC_INNERS:
            for inner in (i, '(' + i + ')'):
                out.append(_prec_prog(s.replace('@', inner)))
    if tier == 'thorough':
        inn = [i for k, i in enumerate(PREC_INNERS) if k % 2 == 0]
        for o1 in outers:
            for o2 in outers:
                if o1 == '@' or o2 == '@':
                    continue
                for i in inn:
                    out.append(_prec_prog('try { print(String(' + o1.replace('@', o2.replace('@', i)) + ')) } catch (e) { print("E", e.name) }'))
                    out.append(_prec_prog('try { print(String(' + o1.replace('@', '(' + o2.replace('@', i) + ')') + ')) } catch (e) { print("E", e.name) }'))
    return list(dict.fromkeys(out))
