"""Maintenance tool (never run by a check): turn the replay files of the last run of a property into known-list files,
grouped by a diff signature, and print the `known-list:` lines to paste into findings/<Cxx>.known.

usage: python3 -m vlib.mkknown C01 [label-map.json]
The label map gives a class name per signature; unknown signatures are named sig-<hash> so they can be inspected first.
"""
import glob, json, os, sys
from . import core


def sig_of(rep):
    e, o = rep.get("expected"), rep.get("observed")
    try:
        el = e[0] + [e[1]]
        ol = o[0] + [o[1]]
        i = 0
        while i < min(len(el), len(ol)) and el[i] == ol[i]:
            i += 1
        return "exp=%s obs=%s" % (str(el[i:i + 1])[:60], str(ol[i:i + 1])[:60])
    except Exception:
        return "what=" + rep["what"][:40]


def main():
    prop = sys.argv[1]
    labels = json.load(open(sys.argv[2])) if len(sys.argv) > 2 else {}
    groups = {}
    for f in sorted(glob.glob(os.path.join(core.OUT, "replays", prop, "*", "*.json"))):
        r = json.load(open(f))
        groups.setdefault(sig_of(r), []).append(r)
    lines = []
    for sig, rs in sorted(groups.items(), key=lambda kv: -len(kv[1])):
        name = labels.get(sig, "sig-" + core.sha12(sig)[:6])
        path = os.path.join(core.ROOT, "findings", f"{prop}-{name}.list")
        existing = set()
        if os.path.exists(path):
            existing = set(l.rstrip("\n") for l in open(path))
        new = set(f"{r['case_key']} {r['observed_key']} {json.dumps(r['case'])[:100]}" for r in rs)
        with open(path, "w") as f:
            for l in sorted(existing | new):
                f.write(l + "\n")
        rs.sort(key=lambda r: len(json.dumps(r["case"])))
        print(f"{len(rs):6d} {name}: {sig}\n         e.g. {json.dumps(rs[0]['case'])[:300]}")
        lines.append(f'known-list: property={prop} file=findings/{prop}-{name}.list class="{name}: {sig[:80].replace(chr(34), chr(39))}"')
    print("\n".join(lines))


if __name__ == "__main__":
    main()
