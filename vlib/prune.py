"""Maintenance tool (never run by a check): after a repair in /repo, drop the known-list entries that no run meets any more.
usage: python3 -m vlib.prune C15     (needs out/known_hits/C15-quick.json and C15-thorough.json from fresh runs of BOTH tiers)
Entries of findings/C15*.list and `known:` lines of findings/C15.known that were not met by either tier are removed;
empty list files are deleted together with their known-list line."""
import json, os, re, sys
from . import core


def main():
    prop = sys.argv[1]
    tiers = sys.argv[2:] or ["quick", "thorough"]
    hits = set()
    for t in tiers:
        p = os.path.join(core.OUT, "known_hits", f"{prop}-{t}.json")
        if not os.path.exists(p):
            sys.exit(f"missing {p}: run ./check {prop} {t} first")
        hits |= set(tuple(x) for x in json.load(open(p)))
    fdir = os.path.join(core.ROOT, "findings")
    known = os.path.join(fdir, prop + ".known")
    removed_files = set()
    for fn in sorted(os.listdir(fdir)):
        if fn.startswith(prop + "-") and fn.endswith(".list"):
            path = os.path.join(fdir, fn)
            lines = [l for l in open(path) if l.strip()]
            keep = [l for l in lines if tuple(l.split()[:2]) in hits]
            print(f"{fn}: {len(lines)} -> {len(keep)}")
            if keep:
                open(path, "w").writelines(keep)
            else:
                os.unlink(path)
                removed_files.add("findings/" + fn)
    if os.path.exists(known):
        out = []
        for l in open(known):
            if l.startswith("known-list") and any(f"file={rf}" in l for rf in removed_files):
                continue
            m = re.match(r"known:.*case=(\w+) observed=(\w+)", l)
            if m and (m.group(1), m.group(2)) not in hits:
                continue
            out.append(l)
        open(known, "w").writelines(out)


if __name__ == "__main__":
    main()
