"""Regenerates MANIFEST.json from the table below (run by hand: python3 -m vlib.manifest_gen)."""
import json, os, subprocess
ROOT = os.path.dirname(os.path.dirname(os.path.abspath(__file__)))

# id -> (technique, level text, level note, design ref)   (only for checks that exist)
CHECKS = {
 "C01": ("bounded-exhaustive enumeration of program families (operators x operand forms, statement trees by node count, scopes, destructuring, classes, generators x resume scripts, construct pairs) executed on the real engine, compared with committed V8-derived golden traces and across entry modes",
         "Every program of eight finite program families is executed in a fresh context (plus, for a hash-selected subset, as UTF-16 input, through hand-polled evaluate_async_with_budget(1) and as a host call of a wrapped function) and its trace must equal the committed golden trace; the family is enumerated completely, nothing is sampled.",
         "Trusts V8 11.3 as stand-in for the specification on the families (deviations go to oracle/overrides.jsonl), the shared rendering prelude, and C20 (determinism).", "DESIGN.md §3 C01"),
 "C03": ("exhaustive exploration of the abstract state graph (pc x environment stack x binding-reference depth x argument depth, with exception edges) of every code block compiled for the corpora, plus structural operand/target checks; the per-opcode effect model is bound to the VM by a step-by-step conformance replay (cfg boa_verif observers)",
         "Every code block that the engine compiles while running the corpus programs (including nested function constants and code created by eval) is decoded and checked by rules R1-R6: operands inside their tables and of the right kind, jump/handler targets on instruction boundaries, and — over ALL control-flow paths including exception edges — non-negative depths, agreement at merges, and handler environment counts within the open environments.",
         "The effect table is the model of the VM; every step the real VM takes on the corpus must be a member of the abstract state set of its pc, which is checked on every run.", "DESIGN.md §3 C03"),
 "C04": ("bounded-exhaustive enumeration of program families x subsets of the compile-time shortcut switches (cfg boa_verif hooks), differential on the real engine",
         "Every program of the place/scope/ctl/pair (thorough: + op/ctlgen/destr) families is executed with all shortcuts on and with the listed subsets of {force-escape, no const cache, no loop hoist, no fused branch} (thorough: all 16 subsets on the place family); all traces must be equal.",
         "Trusts that the hooks only force existing conservative paths (cross-checked against the C01 golden tables, which are produced with everything on).", "DESIGN.md §3 C04"),
 "C05": ("bounded-exhaustive enumeration of fold/dce program families x optimizer option sets, differential on the real engine",
         "Every program of the stated expression/dead-code families is executed under every listed optimizer option set and must give the trace of the empty option set; the whole finite space is enumerated, nothing sampled.",
         "Trusts: evaluation with the empty optimizer option set is the reference; harness prelude/rendering; determinism (C20).", "DESIGN.md §3 C05"),
 "C09": ("explicit-state breadth-first search over GC operation histories (alloc/link/weak/ephemeron/weak-map/collect/resurrection) replayed on the real boa_gc, compared with a reachability reference model on every transition",
         "All operation histories up to the stated depth over <=3 (thorough <=4) nodes are explored with state merging on the canonical model state; every transition is a fresh replay on the real collector and is compared with the reference model (finalize/drop counts, canaries, weak upgrades, ephemeron values, weak-map contents, heap statistics).",
         "Trusts the reference model (boring sets + fix-point) and that merged histories have equal futures (merged histories are still cross-compared).", "DESIGN.md §3 C09"),
 "C10": ("deviation-bounded schedule exploration: a collection forced at every single allocation index (thorough: every pair), periodic schedules, and during context creation, on the real engine via the allocator hook; trace equality with the no-collection run plus heap-residue check",
         "For every program the schedules with 0, 1 (thorough: 2) forced collections at every possible allocation index are ALL executed; traces must equal the no-collection trace (weak observations masked and checked by predicates) and the heap must return to its baseline after dropping the context and one collection.",
         "Trusts the allocation hook to be the only place where a collection can start; premature frees that are never touched are not observable (no quarantine hook).", "DESIGN.md §3 C10"),
 "C11": ("bounded-exhaustive enumeration of code-unit sequences x constructions x operations on the real boa_string, compared with a Vec<u16> reference model and pairwise across representations",
         "All sequences up to length 3 (thorough 4) over the unit alphabet are built through every available construction (all six representations) and every operation is compared with the plain code-unit model and across constructions; a JS-visible half does the same through script-level routes.",
         "Trusts the Vec<u16> model operations.", "DESIGN.md §3 C11"),
 "C13": ("bounded-exhaustive enumeration of a structured set of doubles/texts x conversion operations x radixes/digit counts on the real engine, compared with an exact integer-arithmetic reference",
         "Every value of the structured set is pushed through every conversion of the grid (String, Number, literals, parseFloat, parseInt/toString(radix), toFixed/toExponential/toPrecision for all digit counts) and compared with exact rational arithmetic; the grid is enumerated completely.",
         "Trusts the exact reference (cross-validated against V8 on the whole grid at authoring time and against an independent slow transliteration at run time).", "DESIGN.md §3 C13"),
 "C15": ("explicit-state search over typed-array/buffer/DataView operation histories replayed on the real engine, merged on the byte-model state, compared with a byte-array reference model after every step",
         "All histories up to the stated depth over 515 buffer/view worlds are executed; after every step every live view and the raw bytes must equal the Python byte model (exact modular conversions, IEEE rounding, endianness, bounds/detach rules).",
         "Trusts the byte model (cross-validated against V8 at authoring time; documented V8 deviations follow the spec text).", "DESIGN.md §3 C15"),
 "C16": ("bounded-exhaustive enumeration of promise-actor compositions x exhaustive schedule parameters (every budget, every drain mode, every cut set) with hand-polled futures on the real engine; all schedules must agree and equal the committed V8-derived order",
         "Every composition of <=3 (thorough <=4) actors from a 31-actor alphabet is run under every listed budget / drain mode / split; all schedules of a program must give one trace, equal to the golden order, every callback id exactly once.",
         "Trusts V8 as the spec order for <=3 actors and the FIFO merge model (re-checked against every golden entry each run) beyond.", "DESIGN.md §3 C16"),
 "C02": ("bounded-exhaustive enumeration of byte strings, token strings, nesting depths, iterator-x-mutation programs and reuse pairs, each parsed/evaluated on the real engine in child processes; outcome-class oracle",
         "All byte strings <=2, all strings over a 27-element byte alphabet and a 66-token alphabet up to the tier's length, 27 nestable constructs x depths 1..64, every (re-entering builtin, mutating callback) pair, every Map/Set iteration x short sequence of collection mutations inside the callback, and every ordered pair of a reuse pool on one context are executed; every outcome must be a value, a JavaScript exception or a RuntimeLimit (never a panic, abort, EnginePanic or hang).",
         "Debug assertions and overflow checks are on in the harness build; a crash of a child process is an observation (Abort).", "DESIGN.md §3 C02"),
 "C06": ("stateless enumeration of all operation histories (object/prototype mutations interleaved with access-site invocations) up to a depth, each executed on the real engine with inline caches on and off (cfg boa_verif switch); trace equality",
         "Every history over the named alphabets at the stated depths whose last operation is an access-site invocation runs with caches on and with caches off; values read, accessor calls, errors and a final structural dump must be equal.",
         "Trusts the caches-off switch (InlineCache::get returns None / set is a no-op) to give the uncached semantics.", "DESIGN.md §3 C06"),
 "C07": ("stateless enumeration of all sequences of host entries (eval, call, construct, generator resume, run_jobs, modules, async evaluation; 90 entry kinds) up to a depth on one context; VM depth invariant after every entry plus differential probe",
         "After EACH host entry of every enumerated sequence the frame depth, value-stack length, pending exception, host-call depth, environment depth and binding-stack length must equal their values before the entry, and a fixed probe script must afterwards behave as on a context that only ran the successful entries.",
         "Uses the vm_depths hook (cfg boa_verif).", "DESIGN.md §3 C07"),
 "C08": ("full finite product of limit triples x loop forms x activation kinds x re-entry routes x try/catch/finally wrappers executed on the real engine; limit-specific predicates",
         "Every runaway variant must end in the RuntimeLimit of the right kind reported to the host entry or to run_jobs, with no catch/finally/after line of the stopped activation chain and bounded work (tick counter <= L+2, frame depth <= R); every under-limit variant must give the trace it gives without limits or stop cleanly on a tighter limit.",
         "The loop limit is the documented per-frame cumulative counter (docs/vm.md); an exact model of it is checked on 14.8k accounting cases.", "DESIGN.md §3 C08"),
 "C12": ("exhaustive round trips of all i32 (thorough) / boundary i32 and a structured 2^20+ set of f64 bit patterns through JsValue in two builds (NaN-boxed, enum) with digest comparison; program traces compared across the builds",
         "Every value of the stated sets is wrapped in JsValue and must keep its type (exactly one predicate), payload bits (NaNs stay numbers), equality and reader results; the two value-representation builds must produce identical observation digests and identical traces for bit-pattern-manufacturing scripts and family programs.",
         "The enum representation is the reference for program traces.", "DESIGN.md §3 C12"),
 "C14": ("explicit-state search over array operation histories from 51 seeds, merged on (logical dump, storage kind via the storage hook); storage-independence, Proxy / array-like twins and committed V8-derived golden on every transition",
         "All histories up to the stated depth are executed; any two states with the same logical dump must give the same observation for every next operation whatever their storage form, the same operation through a forwarding Proxy and on an array-like twin must agree, and every (state, operation) equals the V8-derived golden (+ 2 documented overrides).",
         "Main search runs with inline caches off (a separate warm-cache family covers caches on).", "DESIGN.md §3 C14"),
 "C17": ("bounded-exhaustive enumeration of module graphs (all graphs on <=3 modules with ordered import lists, 4-module edge sets) x behaviours x entry/re-evaluation histories x every loader completion order, executed on the real engine with a controllable loader; compared with a transliteration of the spec algorithm",
         "Every configuration's print trace, promise states at quiescence, namespaces and loader request log must equal the reference model's prediction and must not depend on the order in which pending loads complete.",
         "Reference model = ES2024 16.2.1.5 transliteration, cross-validated against node's vm.SourceTextModule on 526k configurations.", "DESIGN.md §3 C17"),
 "C18": ("bounded-exhaustive enumeration of JSON texts (all texts <= L characters over 33 characters, all token sequences <= K tokens), nesting depths, small values x replacers x indents, all code units, executed on the real engine and compared with an own ECMA-404 recogniser/evaluator and a transliterated JSON.stringify",
         "Accept/reject, parsed value (canonical dump), reviver walk, stringify output and parse(stringify(v)) are compared with the reference for every enumerated case.",
         "Reference cross-validated against Python's json on every run and against V8 on the whole thorough space at authoring time; the reviver's `context.source` argument (proposal) is not part of the verdict.", "DESIGN.md §3 C18"),
 "C19": ("bounded-exhaustive enumeration of token strings (<= K of 66 tokens), family programs and their single token-level mutants through parse -> print -> parse -> print on the real parser, plus evaluation of text and printed form",
         "For every text the parser must return an AST or an error positioned inside the text without interning foreign strings; for every accepted text the printed form must re-parse, print identically (twice), not grow the interner and evaluate to the same trace as the original.",
         "AST equality is judged through the printed form.", "DESIGN.md §3 C19"),
 "C20": ("explicit enumeration of (program, prior-history) pairs: each history is replayed in one process on the real engine; byte-identical traces required; realm sabotage and cross-realm intrinsic probes inside one context",
         "A pool of programs is evaluated after each of nine prior histories on the same thread (other programs, the program itself, a script that sabotages every reachable intrinsic, 100 dropped contexts, GC-heavy and interning-heavy programs), in a second process, and in realms of one context whose other realm was sabotaged; every trace must equal the fresh-process trace; cross-realm objects must report their own realm's intrinsics.",
         "Premise of all self-differential checks; two OS threads in one process are not exercised.", "DESIGN.md §3 C20"),
}
PENDING_REASON = "check not built yet in this round (design in DESIGN.md §3); will be claimed when its machinery exists"

def main():
    hooks = subprocess.run(["git", "-C", "/repo", "log", "--format=%H %s", "--grep=^verif hooks"], capture_output=True, text=True).stdout.split("\n")
    hooks = [h.split()[0] for h in hooks if h.strip()]
    props = [json.loads(l)["id"] for l in open(os.path.join(ROOT, "properties.jsonl"))]
    checks = []
    for pid in props:
        if pid not in CHECKS:
            continue
        tech, text, note, ref = CHECKS[pid]
        checks.append({
            "property_id": pid, "quick_cmd": f"./check {pid} quick", "thorough_cmd": f"./check {pid} thorough",
            "evidence_file": f"/verif/evidence/{pid}.json", "replay_cmd_template": "./check replay {path}",
            "engine": "boa-mc", "level_claimed": {"category": "model_checking", "text": text, "design_ref": ref},
            "level_note": note, "technique": tech})
    m = {
        "version": 1,
        "setup_cmd": "./check setup",
        "hooks": {"guard": "--cfg boa_verif", "enable": "RUSTFLAGS=--cfg boa_verif via /verif/harness/.cargo/config.toml (path dependencies on /repo/core/*)",
                  "baseline_off_cmd": "cd /repo && cargo nextest run --workspace --no-fail-fast --tool-config-file pb:/w/lib/nextest.toml --profile pb --test-threads 8 --offline",
                  "source_commits": hooks, "add_only": True},
        "engines": [{"name": "boa-mc", "path": "/verif/check", "serves_properties": [c["property_id"] for c in checks],
                     "kind_free_text": "hand-rolled bounded-exhaustive explorers (product enumeration, history BFS with replay, deviation-bounded schedule exploration, bytecode abstract-state graph) driving the real engine in child processes"}],
        "checks": checks,
        "not_applicable": [{"property_id": p, "reason": PENDING_REASON} for p in props if p not in CHECKS],
        "notes": "See DESIGN.md. Exit codes: 0 held, 1 violation, 2 machinery error.",
    }
    json.dump(m, open(os.path.join(ROOT, "MANIFEST.json"), "w"), indent=1)
    print("checks:", [c["property_id"] for c in checks])

if __name__ == "__main__":
    main()
