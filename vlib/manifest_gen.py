"""Regenerates MANIFEST.json from the table below (run by hand: python3 -m vlib.manifest_gen)."""
import json, os, subprocess
ROOT = os.path.dirname(os.path.dirname(os.path.abspath(__file__)))

# id -> (technique, level text, level note, design ref)   (only for checks that exist)
CHECKS = {
 "C05": ("bounded-exhaustive enumeration of fold/dce program families x optimizer option sets, differential on the real engine",
         "Every program of the stated expression/dead-code families is executed under every listed optimizer option set and must give the trace of the empty option set; the whole finite space is enumerated, nothing sampled.",
         "Trusts: evaluation with the empty optimizer option set is the reference; harness prelude/rendering; determinism (C20).", "DESIGN.md §3 C05"),
}
PENDING_REASON = "check not built yet in this round (design in DESIGN.md §3); will be claimed when its machinery exists"

def main():
    hooks = subprocess.run(["git", "-C", "/repo", "log", "--format=%H %s", "--grep=^verif hooks"], capture_output=True, text=True).stdout.split("\n")
    hooks = [h.split()[0] for h in hooks if h.strip()]
    props = [json.loads(l)["id"] for l in open(os.path.join(ROOT, "properties.jsonl"))]
    checks = []
    for pid in props:
        if pid not in CHECKS:
            continue
        tech, text, note, ref = CHECKS[pid]
        checks.append({
            "property_id": pid, "quick_cmd": f"./check {pid} quick", "thorough_cmd": f"./check {pid} thorough",
            "evidence_file": f"/verif/evidence/{pid}.json", "replay_cmd_template": "./check replay {path}",
            "engine": "boa-mc", "level_claimed": {"category": "model_checking", "text": text, "design_ref": ref},
            "level_note": note, "technique": tech})
    m = {
        "version": 1,
        "setup_cmd": "./check setup",
        "hooks": {"guard": "--cfg boa_verif", "enable": "RUSTFLAGS=--cfg boa_verif via /verif/harness/.cargo/config.toml (path dependencies on /repo/core/*)",
                  "baseline_off_cmd": "cd /repo && cargo nextest run --workspace --no-fail-fast --tool-config-file pb:/w/lib/nextest.toml --profile pb --test-threads 8 --offline",
                  "source_commits": hooks, "add_only": True},
        "engines": [{"name": "boa-mc", "path": "/verif/check", "serves_properties": [c["property_id"] for c in checks],
                     "kind_free_text": "hand-rolled bounded-exhaustive explorers (product enumeration, history BFS with replay, deviation-bounded schedule exploration, bytecode abstract-state graph) driving the real engine in child processes"}],
        "checks": checks,
        "not_applicable": [{"property_id": p, "reason": PENDING_REASON} for p in props if p not in CHECKS],
        "notes": "See DESIGN.md. Exit codes: 0 held, 1 violation, 2 machinery error.",
    }
    json.dump(m, open(os.path.join(ROOT, "MANIFEST.json"), "w"), indent=1)
    print("checks:", [c["property_id"] for c in checks])

if __name__ == "__main__":
    main()
