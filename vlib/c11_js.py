"""C11, JS-visible half: script generators and the Python-side expectations (plain lists of code units)."""

ALPHA_QUICK = [0x41, 0x20, 0x00, 0x7F, 0xE9, 0xFF, 0x03C0, 0xD83D, 0xDE00]


def sequences(alpha, maxlen):
    out = [[]]
    frontier = [[]]
    for _ in range(maxlen):
        nxt = [s + [a] for s in frontier for a in alpha]
        out += nxt
        frontier = nxt
    return out


def well_formed(u):
    i = 0
    while i < len(u):
        c = u[i]
        if 0xD800 <= c < 0xDC00:
            if i + 1 < len(u) and 0xDC00 <= u[i + 1] < 0xE000:
                i += 2
                continue
            return False
        if 0xDC00 <= c < 0xE000:
            return False
        i += 1
    return True


def hexs(u):
    return ",".join("%x" % c for c in u)


def esc(u):
    return "".join("\\u%04x" % c for c in u)


# Route names, in the order the script pushes them. Routes marked wf only exist for well-formed sequences
# (JSON.parse / encodeURIComponent reject lone surrogates: that is C18's and the URI functions' business, not C11's).
ROUTES = ["fromCharCode", "literal", "template", "halves", "unit-by-unit", "slice", "substring", "slice-tail", "Object.keys",
          "Reflect.ownKeys", "for-in", "String(new String)", "map-join", "split-join", "Array.from-join", "template-subst",
          "concat-empty", "padEnd-slice", "double-slice", "repeat-substring", "Symbol.description", "toString", "getOwnPropertyNames",
          "Object.entries", "charAt-join"]
ROUTES_WF = ["JSON.parse", "JSON.parse(JSON.stringify)", "decodeURIComponent(encodeURIComponent)"]

# pair sub-checks, first failing one is reported by its letter
PAIR_CHECKS = "abcdefghijklmnopqrstuv"

PRELUDE_ROUTES = r"""
var fcc = String.fromCharCode;
function hex(s){ var o=[]; for (var i=0;i<s.length;i++) o.push(s.charCodeAt(i).toString(16)); return o.join(","); }
function pair(a, b, m, st, oo) {
  if (!(a === b)) return "a";
  if (!(a == b)) return "b";
  if (!Object.is(a, b)) return "c";
  if (a < b) return "d";
  if (a > b) return "e";
  if (!(a <= b)) return "f";
  if (!(a >= b)) return "g";
  if (a.length !== b.length) return "h";
  if (m.get(b) !== 1) return "i";
  if (!st.has(b)) return "j";
  if (oo[b] !== 1) return "k";
  if (!Object.prototype.hasOwnProperty.call(oo, b)) return "l";
  if (a.indexOf(b) !== 0) return "m";
  if (!a.startsWith(b)) return "n";
  if (!a.endsWith(b)) return "o";
  if (!a.includes(b)) return "p";
  if ((a + "x") !== (b + "x")) return "q";
  if ([a].indexOf(b) !== 0) return "r";
  if (![a].includes(b)) return "s";
  switch (a) { case b: break; default: return "t"; }
  if (a.lastIndexOf(b) !== 0) return "u";
  if (typeof a !== "string" || typeof b !== "string") return "v";
  return ".";
}
function T(idx, u, lit, tpl, jt) {
  var n = u.length, s0 = fcc.apply(null, u), i;
  var R = [s0, lit, tpl];
  var k = n >> 1;
  R.push(fcc.apply(null, u.slice(0, k)) + fcc.apply(null, u.slice(k)));
  var acc = ""; for (i = 0; i < n; i++) acc += fcc(u[i]); R.push(acc);
  R.push(("X" + s0 + "π").slice(1, 1 + n));
  R.push(("X" + s0 + "Y").substring(1, 1 + n));
  R.push(("ππ" + s0).slice(2));
  var o = {}; o[s0] = 1;
  R.push(Object.keys(o)[0]);
  R.push(Reflect.ownKeys(o)[0]);
  for (var kk in o) R.push(kk);
  R.push(String(new String(s0)));
  R.push(u.map(function (c) { return fcc(c); }).join(""));
  R.push(s0.split("").join(""));
  R.push(Array.from(s0).join(""));
  R.push(`${s0}`);
  R.push(s0.concat(""));
  R.push(s0.padEnd(n + 1, "Z").slice(0, n));
  R.push((s0 + s0).slice(n));
  R.push(s0.repeat(2).substring(0, n));
  R.push(Symbol(s0).description);
  R.push(s0.toString());
  R.push(Object.getOwnPropertyNames(o)[0]);
  R.push(Object.entries(o)[0][0]);
  acc = ""; for (i = 0; i < n; i++) acc = acc + s0.charAt(i); R.push(acc);
  if (jt !== null) {
    R.push(JSON.parse(jt));
    R.push(JSON.parse(JSON.stringify(s0)));
    R.push(decodeURIComponent(encodeURIComponent(s0)));
  }
  var hs = [], ps = "";
  for (i = 0; i < R.length; i++) hs.push(hex(R[i]));
  for (i = 0; i < R.length; i++) {
    var a = R[i], m = new Map([[a, 1]]), st = new Set([a]), oo = {}; oo[a] = 1;
    for (var j = 0; j < R.length; j++) ps += pair(a, R[j], m, st, oo);
  }
  __emit(idx + "|" + hs.join(";") + "|" + ps);
}
"""


def routes_job(batch):
    """batch: list of (index, units). Returns (job, expected_lines)."""
    src = [PRELUDE_ROUTES]
    exp = []
    for idx, u in batch:
        wf = well_formed(u)
        jt = "'\"%s\"'" % esc(u).replace("\\", "\\\\") if wf else "null"
        src.append("T(%d,[%s],\"%s\",`%s`,%s);" % (idx, ",".join(str(c) for c in u), esc(u), esc(u), jt))
        nr = len(ROUTES) + (len(ROUTES_WF) if wf else 0)
        exp.append("%d|%s|%s" % (idx, ";".join([hexs(u)] * nr), "." * (nr * nr)))
    return {"src": "\n".join(src), "cfg": {"loop": None}}, exp


def route_names(u):
    return ROUTES + (ROUTES_WF if well_formed(u) else [])


PRELUDE_CROSS = r"""
var fcc = String.fromCharCode;
function mk(u) { return fcc.apply(null, u); }
function hex(s){ var o=[]; for (var i=0;i<s.length;i++) o.push(s.charCodeAt(i).toString(16)); return o.join(","); }
var A = U.map(mk);
var B = U.map(function (u) { return ("X" + mk(u) + "π").slice(1, 1 + u.length); });
var D = U.map(function (u) { var a = ""; for (var i = 0; i < u.length; i++) a += fcc(u[i]); return a; });
"""


def _u_decl(seqs):
    return "var U=[" + ",".join("[" + ",".join(str(c) for c in u) + "]" for u in seqs) + "];\n" + \
           "var C=[" + ",".join('"' + esc(u) + '"' for u in seqs) + "];\n"


def _cmp_code(a, b):
    if a < b:
        return "1"
    if a > b:
        return "2"
    return "c"


CROSS_OTHERS = ["slice", "literal", "unit-by-unit"]


def cross_job(seqs, lo, hi):
    """Rows lo..hi of the all-pairs table: A[i] (fromCharCode) against B/C/D[j] (slice / literal / unit concatenation)."""
    src = _u_decl(seqs) + PRELUDE_CROSS + r"""
for (var i = %d; i < %d; i++) {
  var a = A[i];
  var others = [B, C, D];
  for (var t = 0; t < 3; t++) {
    var X = others[t], row = "";
    for (var j = 0; j < X.length; j++) { var b = X[j]; row += ((a < b ? 1 : 0) + (a > b ? 2 : 0) + (a === b ? 4 : 0) + (Object.is(a, b) ? 8 : 0)).toString(16); }
    __emit(i + ":" + t + ":" + row);
  }
}
""" % (lo, hi)
    exp = []
    for i in range(lo, hi):
        row = "".join(_cmp_code(seqs[i], w) for w in seqs)
        for t in range(3):
            exp.append("%d:%d:%s" % (i, t, row))
    return {"src": src, "cfg": {"loop": None}}, exp


def member_job(seqs):
    """One Map / Set / object keyed by every sequence (route A), probed through the other routes; key order; default sort."""
    src = _u_decl(seqs) + PRELUDE_CROSS + r"""
var M = new Map(), S = new Set(), O = {};
for (var i = 0; i < A.length; i++) { M.set(A[i], i); S.add(A[i]); O[A[i]] = i; }
__emit("sizes:" + M.size + "," + S.size + "," + Object.keys(O).length);
var others = [A, B, C, D];
for (var t = 0; t < 4; t++) {
  var X = others[t], row = "";
  for (var j = 0; j < X.length; j++) {
    var b = X[j];
    row += ((M.get(b) === j ? 1 : 0) + (S.has(b) ? 2 : 0) + (O[b] === j ? 4 : 0) + (Object.prototype.hasOwnProperty.call(O, b) ? 8 : 0)).toString(16);
  }
  __emit("probe:" + t + ":" + row);
}
__emit("keys:" + Object.keys(O).map(hex).join(";"));
var it = []; M.forEach(function (v, k) { it.push(hex(k)); }); __emit("mapkeys:" + it.join(";"));
__emit("sortA:" + A.slice().sort().map(hex).join(";"));
__emit("sortB:" + B.slice().reverse().sort().map(hex).join(";"));
__emit("sortC:" + C.slice().sort(function (x, y) { return x < y ? -1 : x > y ? 1 : 0; }).map(hex).join(";"));
"""
    n = len(seqs)
    exp = ["sizes:%d,%d,%d" % (n, n, n)]
    for t in range(4):
        exp.append("probe:%d:%s" % (t, "f" * n))
    allhex = ";".join(hexs(u) for u in seqs)
    exp.append("keys:" + allhex)
    exp.append("mapkeys:" + allhex)
    srt = ";".join(hexs(u) for u in sorted(seqs))
    exp += ["sortA:" + srt, "sortB:" + srt, "sortC:" + srt]
    return {"src": src, "cfg": {"loop": None}}, exp
