"""C19 — parsing is total; printing an AST and re-parsing it is the identity.

E1: every string of <= K tokens over a 66-token alphabet (quick K=4: 19 M strings; thorough K=5: 1.3 x 10^9), every program of the
C01 families, and every single token-level mutation (delete / duplicate / swap / replace by each alphabet token) of the
shortest family programs goes through parse -> print -> parse -> print -> parse on the real parser (binary `vtok`):
the parser must return (no panic) an AST or an error positioned inside the text; it must not intern strings that do not occur
in the text; the printed form must parse, print identically again (twice) and must not grow the interner; and every accepted
text and its printed form are both evaluated on the real engine and must give the same trace.
"""
import json, os, subprocess
from concurrent.futures import ThreadPoolExecutor
from .. import core
from .. import families as F

NTOK_EXPR = 40  # size of vtok's TOKENS_EXPR alphabet
NTOK = 66  # size of vtok's TOKENS alphabet (harness/crates/vtok/src/main.rs)

PACKAGES = ("vrun", "vtok")
# failure kinds that belong to C02 (reported there), all others are C19's
C02_KINDS = ("parser-panic", "engine-failure")


def vtok(args):
    p = subprocess.run([os.path.join(core.TARGET, "debug", "vtok")] + args, capture_output=True, text=True)
    if p.returncode != 0:
        return {"total": 0, "accepted": 0, "rejected": 0, "evaluated": 0, "outcomes": {}, "failure_count": 1,
                "failures": [{"kind": "process-died", "src": " ".join(args), "detail": f"rc={p.returncode} {p.stderr[-300:]}"}]}
    return json.loads([l for l in p.stdout.split("\n") if l.strip()][-1])


def run_shards(cmds):
    with ThreadPoolExecutor(max_workers=core.NPROC) as ex:
        return list(ex.map(vtok, cmds))


def merge(results):
    tot = {"total": 0, "accepted": 0, "rejected": 0, "evaluated": 0, "failure_count": 0}
    outcomes = {}
    fails = []
    for r in results:
        for k in tot:
            tot[k] += r[k]
        for k, v in r["outcomes"].items():
            outcomes[k] = outcomes.get(k, 0) + v
        fails += r["failures"]
    return tot, outcomes, fails


def write_programs(name, progs):
    d = os.path.join(core.OUT, "tmp", "c19-%d" % os.getpid())
    os.makedirs(d, exist_ok=True)
    paths = []
    n = max(1, (len(progs) + core.NPROC * 2 - 1) // (core.NPROC * 2))
    for i in range(0, len(progs), n):
        p = os.path.join(d, f"{name}-{i}.jsonl")
        with open(p, "w") as f:
            for s in progs[i:i + n]:
                f.write(json.dumps(s) + "\n")
        paths.append(p)
    return paths


def report(chk, fails, kinds_filter, prop_kinds_exclude=()):
    for f in fails:
        if kinds_filter(f["kind"]):
            chk.violation({"kind": f["kind"], "src": f["src"]}, f["kind"], f"[{f['kind']}] {f['src']!r}: {f['detail'][:200]}",
                          replay={"src": f["src"], "bytes": f.get("bytes")}, expected="round trip holds")


def run(chk):
    tier = chk.tier
    K = 5 if tier == "thorough" else 4
    res = run_shards([["tokens", str(K), str(i), str(i + 1), "eval"] for i in range(NTOK)])
    tot, outcomes, fails = merge(res)
    chk.part("tokens", K=K, **tot)
    # second alphabet (operators, keyword operators, division / regular expression, number-dot, line breaks), `a` and `b` bound to values
    # that tell groupings and evaluation orders apart; one token deeper than it would be affordable for the big alphabet
    KE = 5 if tier == "thorough" else 4
    rese = run_shards([["exprtokens", str(KE), str(i), str(i + 1), "eval"] for i in range(NTOK_EXPR)])
    tote, oute, failse = merge(rese)
    chk.part("expression_tokens", K=KE, alphabet=NTOK_EXPR, **tote)
    for k in tot:
        tot[k] += tote[k]
    for k, v in oute.items():
        outcomes[k] = outcomes.get(k, 0) + v
    fails = fails + failse
    fam = []
    fam += F.ctl_family(4 if tier == "thorough" else 3, ("fn",)) + F.ctl_family(3, ("gen", "async")) + F.pair_family("quick") + F.class_family("quick")
    fam += F.destr_family("quick") + F.gen_family("quick")[::2] + F.scope_family("quick")[::3] + F.op_family("quick")[::7] + F.fold_family(1)[::5] + F.dce_family()
    # every expression kind in every expression / statement context, bare and parenthesised (thorough: two contexts deep)
    prec = F.prec_family(tier)
    fam = list(dict.fromkeys(fam + prec))
    res2 = run_shards([["file", p] for p in write_programs("fam", fam)])
    t2, o2, f2 = merge(res2)
    chk.part("family_programs", programs=len(fam), of_which_prec=len(prec), **t2)
    shortest = sorted(fam, key=lambda s: (len(s), s))[: (2000 if tier == "thorough" else 400)]
    res3 = run_shards([["file", p, "mutate"] for p in write_programs("mut", shortest)])
    t3, o3, f3 = merge(res3)
    chk.part("token_mutants", base_programs=len(shortest), **t3)
    report(chk, fails + f2 + f3, lambda k: k not in C02_KINDS)
    for k, v in o2.items():
        outcomes[k] = outcomes.get(k, 0) + v
    total = tot["total"] + t2["total"] + t3["total"]
    accepted = tot["accepted"] + t2["accepted"] + t3["accepted"]
    chk.add(evaluations=total, states=total, transitions=total + 2 * (tot["evaluated"] + t2["evaluated"]),
            traces_validated_against_impl=accepted + tot["evaluated"] + t2["evaluated"], distinct_nontrivial=accepted)
    chk.cov["distinct_outcomes"] = len(outcomes)
    chk.cov["outcome_classes_of_accepted_texts"] = outcomes
    chk.cov["rule"] = ("E1: all strings of <= %d tokens over the 66-token alphabet + all strings of <= %d tokens over the 40-token expression alphabet (identifiers bound) + all programs of the listed families + all single token-level mutations of the "
                       "shortest programs; states = texts parsed, transitions = parses + evaluations (text and printed form); non-trivial = accepted by the parser "
                       "(and therefore printed, re-parsed twice and evaluated twice)" % (K, KE))
    chk.sample({"tokens": "a ?. ( )"})
    chk.sample({"expression_tokens": "a - -- b"})
    chk.sample({"program": fam[len(fam) // 3][:200]})
    chk.sample({"mutant_of": shortest[0][:200]})
    chk.assumptions += ["token alphabet of 66 tokens (three numeric literal kinds: small integer, fraction, integer beyond i32; BigInt), separated by single spaces", "AST equality is judged through the printed form (print(parse(p)) == p three times), not through PartialEq on spans"]
    import shutil
    shutil.rmtree(os.path.join(core.OUT, "tmp", "c19-%d" % os.getpid()), ignore_errors=True)


def replay(rep):
    r = rep["replay"]
    d = os.path.join(core.OUT, "tmp", "c19-replay")
    os.makedirs(d, exist_ok=True)
    p = os.path.join(d, "one.jsonl")
    open(p, "w").write(json.dumps(r["src"]) + "\n")
    out = vtok(["file", p])
    print(json.dumps(out, indent=1)[:3000])
    return 1 if out["failure_count"] else 0
