"""C03 — every compiled code block is well-formed on all of its paths.

E4: for every program of the corpora (C01 / C04 / C05 families and the programs of C10 / C20 / C02-hostile) the binary `vc03`
runs the program on the real engine with the step observer (cfg boa_verif), dumps every code block that was executed together
with all nested function constants (decoded instructions with typed operands, tables, handlers), and for each block
 R1 decodes it end to end; R2 checks every register / constant / binding / inline-cache / scope operand against its table and kind;
 R3 checks every jump, jump-table and handler address to be an instruction start and handler ranges to nest;
 R4 explores the abstract state graph (pc, environment stack as scope ids, binding-reference depth, argument depth) EXHAUSTIVELY —
    fall-through, every branch target, and an exception edge from every instruction that can throw to the handler the VM would
    pick (with the VM's two look-up keys for call-like instructions) — requiring depths >= 0, one state per pc (agreement at
    merges) and handler.environment_count <= open environments;
 R5 checks Stack(i) binding locators against the captured chain (top-down through function constants);
 R6 requires both look-up keys of a call-like instruction to select the same handler.
The effect table (the model of the VM) is bound to the implementation by a conformance replay: every step the real VM took
(code block, pc, env depth, binding-stack length, values above the registers) must be a member of the abstract state set.
"""
import json, os, subprocess
from concurrent.futures import ThreadPoolExecutor
from .. import core
from .. import families as F

PACKAGES = ("vrun", "vc03")


def corpus(tier):
    t = tier == "thorough"
    progs = []
    progs += F.ctl_family(4 if t else 3, ("fn",)) + F.ctl_family(4 if t else 3, ("gen", "gen-throw", "async"))
    progs += F.pair_family("thorough" if t else "quick") + F.class_family("quick") + F.destr_family() + F.gen_family("thorough" if t else "quick")
    progs += F.scope_family(tier) + F.completion_family(tier)[:: (1 if t else 2)] + F.capt_family(tier)
    progs += F.op_family("quick")[:: (1 if t else 6)] + F.place_family(tier, operand_order=False)[:: (1 if t else 4)] + F.fold_family(1)[:: (1 if t else 4)] + F.dce_family()
    from . import c10, c20, c02
    progs += c10.STRONG + c10.WEAK + c20.ORDER_HEAVY + c02.hostile_programs()[:: (1 if t else 5)] + [p for _, _, p in c02.nest_programs()][:: (2 if t else 8)]
    return list(dict.fromkeys(progs))


def run(chk):
    progs = corpus(chk.tier)
    d = os.path.join(core.OUT, "tmp", "c03-%d" % os.getpid())
    os.makedirs(d, exist_ok=True)
    nshard = core.NPROC * 3
    n = max(1, (len(progs) + nshard - 1) // nshard)
    paths = []
    for i in range(0, len(progs), n):
        p = os.path.join(d, f"s{i}.jsonl")
        with open(p, "w") as f:
            for s in progs[i:i + n]:
                f.write(json.dumps(s) + "\n")
        paths.append(p)

    def one(p):
        r = subprocess.run([os.path.join(core.TARGET, "debug", "vc03"), "check", p], capture_output=True, text=True)
        if r.returncode != 0:
            return {"crash": p, "stderr": r.stderr[-400:], "rc": r.returncode}
        return json.loads([l for l in r.stdout.split("\n") if l.strip()][-1])
    with ThreadPoolExecutor(max_workers=core.NPROC) as ex:
        res = list(ex.map(one, paths))
    tot = {k: 0 for k in ("programs", "blocks", "instructions", "states", "transitions", "steps_checked")}
    by_rule = {}
    fails = []
    maxs = 0
    for r in res:
        if "crash" in r:
            fails.append({"rule": "explorer-crash", "src": r["crash"], "block": "", "detail": f"rc={r['rc']} {r['stderr']}"})
            continue
        for k in tot:
            tot[k] += r[k]
        maxs = max(maxs, r["max_states_per_pc"])
        for k, v in r["by_rule"].items():
            by_rule[k] = by_rule.get(k, 0) + v
        fails += r["failures"]
    for f in fails:
        # identity: rule + program + the rule-specific detail with code-block ids stripped
        import re
        detail = re.sub(r"#\d+", "", f["detail"])
        if f["rule"] == "R4-handler-env":
            # identity without the pc: a change of the code layout elsewhere must not turn a listed finding into a new one
            detail = re.sub(r" at \d+", "", detail)
        chk.violation({"rule": f["rule"], "src": f["src"]}, detail[:200], f"[{f['rule']}] block {f['block']}: {f['detail'][:220]} :: {f['src'][-160:]}",
                      replay={"src": f["src"]}, expected="well-formed")
    chk.add(evaluations=tot["programs"], states=tot["states"], transitions=tot["transitions"], traces_validated_against_impl=tot["steps_checked"],
            distinct_nontrivial=tot["blocks"])
    chk.cov.update({"code_blocks": tot["blocks"], "instructions": tot["instructions"], "programs": tot["programs"], "max_abstract_states_per_pc": maxs,
                    "violations_by_rule": by_rule, "distinct_outcomes": len(by_rule) + 1})
    chk.cov["rule"] = ("E4: every code block compiled while running the corpus (incl. blocks created at run time by eval / Function and all nested function constants) "
                       "is explored exhaustively: states = abstract states (pc, environment stack, binding-reference depth, argument depth) visited, transitions = "
                       "edges incl. exception edges; traces_validated_against_impl = VM steps checked to be members of the abstract state sets; distinct_nontrivial = code blocks")
    chk.sample({"program": progs[0][:200]})
    chk.sample({"program": progs[len(progs) // 2][:200]})
    chk.sample({"program": progs[-1][:200]})
    chk.assumptions += ["the per-opcode effect table is the model; it is validated against the VM step by step on every run (conformance)",
                        "value-level properties of registers and the iterator stack are not modelled; R5 is relative for code created by eval (dynamic base)"]
    import shutil
    shutil.rmtree(d, ignore_errors=True)


def replay(rep):
    d = os.path.join(core.OUT, "tmp", "c03-replay")
    os.makedirs(d, exist_ok=True)
    p = os.path.join(d, "one.jsonl")
    open(p, "w").write(json.dumps(rep["replay"]["src"]) + "\n")
    r = subprocess.run([os.path.join(core.TARGET, "debug", "vc03"), "check", p], capture_output=True, text=True)
    print(r.stdout[-3000:])
    out = json.loads([l for l in r.stdout.split("\n") if l.strip()][-1])
    return 1 if out["failures"] else 0
