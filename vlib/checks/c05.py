"""C05 — the AST optimizer preserves semantics.

E1: every program of the `fold` and `dce` families x every optimizer option set; oracle: trace under
option set O == trace under the empty set (same build, same process, fresh context each).
"""
from .. import core
from ..families import fold_family, dce_family, ref_family

# bits: CONSTANT_FOLDING=2, STRENGTH_REDUCTION=4, DEAD_CODE_ELIMINATION=8
ALL_SETS = [0, 2, 4, 8, 6, 10, 12, 14]


def cases(tier):
    progs = []
    progs += [("fold", p) for p in fold_family(2 if tier == "thorough" else 1, tier)]
    progs += [("dce", p) for p in dce_family(tier)]
    progs += [("ref", p) for p in ref_family()]
    return progs


def run(chk):
    tier = chk.tier
    progs = cases(tier)
    sets = ALL_SETS if tier == "thorough" else [0, 14, 2, 4, 8]
    jobs = [{"i": i, "src": p, "multi": [{"opt": s} for s in sets]} for i, (_, p) in enumerate(progs)]
    res = core.run_jobs(jobs)
    outcomes = set()
    distinct = set()
    nontrivial = 0
    bad = []
    for (fam, p), j, r in zip(progs, jobs, res):
        ms = r["multi"]
        base = core.trace_of(ms[0])
        h = core.sha12(p)
        if h not in distinct:
            distinct.add(h)
            if base[0] or not str(base[1]).startswith("Value undefined"):
                nontrivial += 1
        outcomes.add(core.sha12(base))
        for s, m in zip(sets[1:], ms[1:]):
            t = core.trace_of(m)
            if t != base:
                bad.append((j, r, fam, p, s, base, t))
    # confirm before believing
    core.confirm([(j, r) for j, r, *_ in bad])
    for j, r, fam, p, s, base, t in bad:
        chk.violation({"src": p, "opt": s}, t, f"optimizer set {s:#x} changes trace of `{p[-120:]}`: {base} -> {t}",
                      replay={"src": p, "multi": [{"opt": 0}, {"opt": s}]}, expected=base)
    chk.add(evaluations=len(progs) * len(sets), states=len(distinct), transitions=len(progs) * len(sets),
            traces_validated_against_impl=len(progs) * (len(sets) - 1), distinct_nontrivial=nontrivial)
    chk.cov["distinct_outcomes"] = len(outcomes)
    chk.cov["rule"] = ("E1: all programs of families fold(depth), dce and ref (reference-preserving operators x Reference operands x reference-sensitive contexts) x optimizer option sets %s; states = distinct program texts, "
                       "transitions = executions (program x option set) on the real engine in fresh contexts; non-trivial = printed a line or "
                       "completed with something other than undefined under the empty option set" % sets)
    chk.cov["option_sets"] = sets
    for fam, p in progs[:: max(1, len(progs) // 5)]:
        chk.sample({"family": fam, "src": p})
    chk.assumptions += ["empty optimizer option set is the reference semantics", "programs outside the three families are not decided"]


def replay(rep):
    job = dict(rep["replay"])
    r = core.run_jobs([job], chunk=1)[0]
    ts = [core.trace_of(m) for m in r["multi"]]
    print("case:", rep["case"])
    print("expected (optimizer off):", ts[0])
    print("observed:", ts[1])
    return 0 if ts[0] == ts[1] else 1
