"""C17 — module graphs evaluate each module once, in dependency order.

Every configuration (graph with ordered import lists, edge kinds, per-module behaviour, history of
evaluate calls) is executed on the real engine by the `vc17` binary (controllable ModuleLoader) and
compared with the reference model `vlib/c17_model.py` (ES2024 16.2.1.5 transliterated).  The compared
outcome string holds: print trace per evaluate call, promise state after each call and at the end,
namespaces (live bindings incl. re-exports) of all loaded modules, sorted loader request log.
"""
import hashlib, itertools, json, os
from multiprocessing import Pool

from .. import core
from .. import c17_model as M

PACKAGES = ("vc17",)
VC17 = os.path.join(core.TARGET, "debug", "vc17")
ALT_KINDS = "sdxrb"
BEH = "ptwv"
MAX_NEW_REPORTED = 300
ENV = {"VERIF_CASE_CAP_MS": "180000"}   # a job is a whole graph x all behaviours x all loader orders; polls are bounded inside vc17
REUSE = 8     # consecutive runs of one job share a context (fresh modules + loader each run); family `fresh` and replays use 1


# --------------------------------------------------------------------------------------------------
# enumeration
# --------------------------------------------------------------------------------------------------
def ordered_subsets(names):
    out = []
    for k in range(len(names) + 1):
        for c in itertools.permutations(names, k):
            out.append("".join(c))
    return out


def graphs(n):
    """every assignment of an ordered import list (ordered subset of all n modules incl. itself) to each module"""
    sb = ordered_subsets(M.NAMES[:n])
    return [list(g) for g in itertools.product(sb, repeat=n)]


def kind_variants(imp):
    """default kinds plus: one edge at a time changed to each alternative kind"""
    base = ["n" * len(x) for x in imp]
    out = [base]
    for i, x in enumerate(imp):
        for j in range(len(x)):
            for k in ALT_KINDS:
                v = list(base)
                v[i] = base[i][:j] + k + base[i][j + 1:]
                out.append(v)
    return out


def all_behs(n, letters=BEH):
    return ["".join(b) for b in itertools.product(letters, repeat=n)]


def behs_max_nonplain(n, k):
    return [b for b in all_behs(n) if sum(c != "p" for c in b) <= k]


def all_reachable(n, imp, roots):
    seen = set()
    todo = [ord(r[0]) - 97 for r in roots]
    while todo:
        m = todo.pop()
        if m in seen:
            continue
        seen.add(m)
        todo.extend(ord(c) - 97 for c in imp[m])
    return len(seen) == n


def job(n, imp, behs, hist, kinds=None, pre=False, api="steps", sched="imm", fam="", reuse=REUSE):
    return {"kind": "g", "n": n, "imp": imp, "kinds": kinds or ["n" * len(x) for x in imp], "behs": behs,
            "hist": hist, "pre": pre, "api": api, "sched": sched, "fam": fam, "reuse": reuse}


def families(tier):
    """list of (family name, description, jobs)"""
    fams = []
    thorough = tier == "thorough"

    # F1: n <= 2 complete: graphs x kind variants x all behaviours x history [a,a,b,b] (the mirror history is the same space after
    # renaming), every loader release order; both APIs for the default kinds
    jobs = []
    for n in (1, 2):
        hist = ["a", "a"] if n == 1 else ["a", "a", "b", "b"]
        for imp in graphs(n):
            for k, kinds in enumerate(kind_variants(imp)):
                jobs.append(job(n, imp, all_behs(n), hist, kinds, sched="all", fam="small"))
                if k == 0:
                    jobs.append(job(n, imp, all_behs(n), hist, kinds, api="lle", sched="all", fam="small"))
    fams.append(("small", "n<=2: all graphs x default+one-edge-varied kinds x 4^n behaviours x history [a,a,b,b] (load/link/evaluate; for the default "
                 "kinds also load_link_evaluate) x EVERY loader release order", jobs))

    # F1b: control for context sharing: n <= 2, default kinds, immediate loader, a FRESH context for every run
    jobs = []
    for n in (1, 2):
        hist = ["a", "a"] if n == 1 else ["a", "a", "b", "b"]
        for imp in graphs(n):
            jobs.append(job(n, imp, all_behs(n), hist, fam="fresh", reuse=1))
    fams.append(("fresh", "control: n<=2 all graphs x 4^n behaviours, default kinds, immediate loader, one fresh Context per execution "
                 "(all other families let up to %d consecutive executions of one graph share a Context)" % REUSE, jobs))

    # F2: overlapping evaluate calls (second evaluate before the job queue is drained), n <= 2 (thorough: n = 3 default kinds)
    jobs = []
    for n in (1, 2, 3):
        names = M.NAMES[:n]
        hists = [[a + "!", b] for a in names for b in names]
        if n == 3:
            hists = [["a!", "a"], ["a!", "b"], ["b!", "a"]] if thorough else [["a!", "b"]]
        for imp in graphs(n):
            for hist in hists:
                if n == 3 and not all_reachable(n, imp, hist):
                    continue
                behs = all_behs(n) if n < 3 else (all_behs(n, "ptw") if thorough else [b for b in all_behs(n, "ptw") if b.count("w") == 1])
                jobs.append(job(n, imp, behs, hist, pre=True, fam="overlap"))
    fams.append(("overlap", "second evaluate() issued before the job queue is drained (modules loaded+linked first): n<=2 all graphs x 4^n "
                 "behaviours x all (x!,y)" + ("; n=3 all graphs whose modules are all reachable x {p,t,w}^3 x {(a!,a),(a!,b),(b!,a)}" if thorough else
                                              "; n=3 all graphs whose modules are all reachable x the 12 behaviours of {p,t,w}^3 with exactly one awaiting module x (a!,b)"), jobs))

    # F3: n = 3, every graph with ordered import lists in which a and b together reach every module, history [a,a,b,b], immediate loader
    g3 = [imp for imp in graphs(3) if all_reachable(3, imp, ["a", "b"])]
    behs3 = all_behs(3) if thorough else all_behs(3, "pt") + ["wpp", "pwp", "ppw"]
    jobs = [job(3, imp, behs3, ["a", "a", "b", "b"], fam="n3") for imp in g3]
    fams.append(("n3", "n=3: all %d ordered-import-list graphs in which the history entries reach every module (of 4096; the others are n<=2 "
                 "configurations plus a dead module) x %s x history [a,a,b,b] (entry a then b w.l.o.g.: the space is closed under renaming), "
                 "immediate loader" % (len(g3), "4^3 behaviours" if thorough else "the 11 behaviours {p,t}^3 + {wpp,pwp,ppw}"), jobs))

    # F4: n = 3 edge kinds (thorough): every graph x one edge varied x behaviours {ppp, pwp}
    if thorough:
        jobs = []
        for imp in g3:
            for kinds in kind_variants(imp)[1:]:
                jobs.append(job(3, imp, ["ppp", "pwp"], ["a", "a", "b", "b"], kinds, fam="n3kinds"))
        fams.append(("n3kinds", "n=3: the same graphs x one edge at a time changed to each of {s,d,x,r,b} x behaviours {ppp,pwp}, immediate loader", jobs))

    # F5: loader release orders for n = 3: every graph whose number of release orders is <= bound, every order
    bound = 280 if thorough else 24
    jobs = []
    for imp in graphs(3):
        c, _w = M.schedule_count(3, imp, ["a"])
        if 1 < c <= bound:
            jobs.append(job(3, imp, ["ppp"], ["a"], sched="all", fam="n3sched"))
    fams.append(("n3sched", "n=3: every graph with 2..%d loader release orders (model count), entry a, plain bodies, EVERY release order" % bound, jobs))

    # F6: n = 4 (thorough): every edge set, canonical (alphabetical) import order, history [a,a];
    #     <= 1 non-plain module on all edge sets, exactly 2 non-plain modules on the edge sets without self-imports
    if thorough:
        behs1 = behs_max_nonplain(4, 1)
        behs2 = [b for b in behs_max_nonplain(4, 2) if b not in behs1]
        jobs1, jobs2 = [], []
        total = 0
        for bits in range(1 << 16):
            imp = ["".join(M.NAMES[j] for j in range(4) if bits >> (4 * i + j) & 1) for i in range(4)]
            total += 1
            if all_reachable(4, imp, ["a"]):
                jobs1.append(job(4, imp, behs1, ["a", "a"], fam="n4"))
                if not any(M.NAMES[i] in imp[i] for i in range(4)):
                    jobs2.append(job(4, imp, behs2, ["a", "a"], fam="n4pairs"))
        fams.append(("n4", "n=4: all %d edge sets enumerated; the %d in which every module is reachable from the entry a are executed (the others "
                     "are n<=3 configurations plus dead modules) x the %d behaviours with <= 1 non-plain module x history [a,a], "
                     "alphabetical import order, immediate loader" % (total, len(jobs1), len(behs1)), jobs1))
        fams.append(("n4pairs", "n=4: the %d of those edge sets that have no self-import x the %d behaviours with exactly 2 non-plain modules "
                     "(self-imports are no-ops for evaluation and are covered for n<=3 and in part n4)" % (len(jobs2), len(behs2)), jobs2))
    return fams


# --------------------------------------------------------------------------------------------------
# execution + comparison (in worker processes)
# --------------------------------------------------------------------------------------------------
def _h(s):
    return hashlib.blake2b(s.encode(), digest_size=8).digest()


def expected_of(j, beh, perturb=None):
    try:
        return M.predict(j["n"], j["imp"], j["kinds"], beh, j["hist"], j["pre"], perturb=perturb)
    except M.ModelAssert as e:
        if perturb is None:
            raise
        return "ModelAssert " + str(e)


CLASSES = [("rejectwrong",), ("rootcount",), ("nostore",), ("rejectwrong", "rootcount"), ("rootcount", "nostore"),
           ("rejectwrong", "nostore"), ("rejectwrong", "rootcount", "nostore")]


def classify(j, beh, observed, perturb=None):
    """which emulated engine defect(s) reproduce the observation EXACTLY (None = unexplained)"""
    for bugs in CLASSES:
        try:
            if M.predict(j["n"], j["imp"], j["kinds"], beh, j["hist"], j["pre"], bugs=bugs, perturb=perturb) == observed:
                return "+".join(bugs)
        except M.ModelAssert:
            continue
    return None


def _work(args):
    jobs, perturb = args
    wire = []
    for i, j in enumerate(jobs):
        w = {k: v for k, v in j.items() if k != "fam"}
        w["i"] = i
        wire.append(w)
    res = core.run_jobs(wire, binary=VC17, nproc=1, chunk=len(wire), env_extra=ENV)
    try:
        os.rmdir(core._tmpdir())
    except OSError:
        pass
    stats = {"cases": 0, "runs": 0, "cmp": 0, "nontrivial": 0, "unsettled_expected": 0}
    outcomes = set()
    bad = []     # (index of the job in this chunk, beh, observed, expected, count, first choices, class)
    for ji, (j, r) in enumerate(zip(jobs, res)):
        if "r" not in r:
            # the whole job died (abort / hang): every behaviour of it is a mismatch
            for beh in j["behs"]:
                bad.append((ji, beh, str(r.get("completion")), expected_of(j, beh, perturb), None, None, None))
            continue
        sc = M.schedule_count(j["n"], j["imp"], j["hist"], j["pre"])[0] if j["sched"] == "all" else None
        for beh, o in zip(j["behs"], r["r"]):
            if isinstance(o, str):
                o = M.canon(o)
            else:
                o["outs"] = merge_outs([[c, f, M.canon(x)] for c, f, x in o["outs"]])
            exp = expected_of(j, beh, perturb)
            stats["cases"] += 1
            outcomes.add(_h(exp))
            if "|" in exp.split("$", 1)[0]:
                stats["nontrivial"] += 1
            # model self-checks: every body at most once, every promise settled at quiescence
            if perturb is None and any(v > 1 for v in M.ran_counts(exp).values()):
                raise core.MachineryError("model runs a body twice: %s %s" % (j, beh))
            if "$" in exp and "P" in exp.split("$")[1].split(","):
                stats["unsettled_expected"] += 1
            if isinstance(o, str):
                stats["runs"] += 1
                stats["cmp"] += 1
                if o != exp:
                    bad.append((ji, beh, o, exp, None, None, classify(j, beh, o, perturb)))
            else:
                stats["runs"] += o["runs"]
                stats["cmp"] += o["runs"]
                if o["capped"]:
                    bad.append((ji, beh, "schedule cap hit after %d runs" % o["runs"], exp, None, None, None))
                if o["runs"] != sc:
                    bad.append((ji, beh, "loader release orders explored: %d" % o["runs"], "model: %d orders" % sc, None, None, None))
                for cnt, first, out in o["outs"]:
                    if out != exp:
                        bad.append((ji, beh, out, exp, cnt, first, classify(j, beh, out, perturb)))
    return stats, outcomes, bad


def merge_outs(outs):
    m = []
    for c, f, x in outs:
        for e in m:
            if e[2] == x:
                e[0] += c
                break
        else:
            m.append([c, f, x])
    return m


def single_job(j, beh, first=None):
    s = dict(j)
    s["behs"] = [beh]
    s["reuse"] = 1
    if first is not None:
        s["sched"] = list(first)
    s.pop("fam", None)
    return s


def case_of(j, beh):
    return {"n": j["n"], "imp": j["imp"], "kinds": j["kinds"], "beh": beh, "hist": j["hist"], "pre": j["pre"]}


def bucket_of(cls, j, beh, obs, exp):
    """Known engine defects are recorded per (defect class, n, behaviours, history) x (kind of deviation), not per graph: a
    mismatch only gets here when the defect emulation of `cls` reproduces the observed outcome string exactly."""
    case = {"class": cls, "n": j["n"], "beh": beh, "hist": j["hist"], "pre": j["pre"]}
    if obs.startswith("RustPanic"):
        o = obs.split(" @after:")[0]
    else:
        a, b = obs.split("$"), exp.split("$")
        names = ["steps", "final", "namespaces", "log", "late"]
        diff = [names[i] for i in range(min(len(names), max(len(a), len(b)))) if (a[i] if i < len(a) else None) != (b[i] if i < len(b) else None)]
        o = "differs:" + ",".join(diff) + " final=" + (a[1] if len(a) > 1 else "?")
    return case, o


def describe(j, beh):
    parts = []
    for i in range(j["n"]):
        deps = ",".join(d + ("" if k == "n" else ":" + k) for d, k in zip(j["imp"][i], j["kinds"][i]))
        parts.append("%s[%s]<-(%s)" % (M.NAMES[i], beh[i], deps))
    return " ".join(parts) + " hist=" + ",".join(j["hist"]) + (" pre" if j["pre"] else "") + (" lle" if j.get("api") == "lle" else "")


def explore(chk, perturb=None, collect=None):
    """Run every family; mismatches go to chk.violation (or, for the authoring tools, to `collect`)."""
    fams = families(chk.tier)
    only = os.environ.get("C17_FAMILIES")       # development aid: restrict to some families (the run is then not exhaustive)
    if only:
        fams = [f for f in fams if f[0] in only.split(",")]
        chk.cov["exhaustive"] = False
        chk.cov["caps_hit"].append("C17_FAMILIES=" + only)
    nproc = core.NPROC
    all_outcomes = set()
    new_reported = 0
    unreported = 0
    classes = {}
    with Pool(nproc) as pool:
        for name, desc, jobs in fams:
            per = max(1, min(64, len(jobs) // (nproc * 6) + 1))
            chunks = [(jobs[i:i + per], perturb) for i in range(0, len(jobs), per)]
            stats = {"cases": 0, "runs": 0, "cmp": 0, "nontrivial": 0, "unsettled_expected": 0}
            bad = []
            fam_outcomes = set()
            for (st, outs, b), (cjobs, _p) in zip(pool.imap(_work, chunks), chunks):
                for k in stats:
                    stats[k] += st[k]
                fam_outcomes |= outs
                bad += [(cjobs[x[0]],) + x[1:] for x in b]
            all_outcomes |= fam_outcomes
            if stats["unsettled_expected"] and perturb is None:
                raise core.MachineryError("the model leaves %d promises pending at quiescence" % stats["unsettled_expected"])
            keyed = []
            fresh = []
            known = new = 0
            for j, beh, obs, exp, cnt, first, cls in bad:
                classes[cls or "unexplained"] = classes.get(cls or "unexplained", 0) + 1
                if cls is None:
                    case, o = case_of(j, beh), obs
                else:
                    case, o = bucket_of(cls, j, beh, obs, exp)
                is_known = chk.findings.lookup(core.sha12(case), core.sha12(o)) is not None
                keyed.append((case, o, is_known))
                if is_known:
                    known += 1
                else:
                    new += 1
                    fresh.append((j, beh, obs, first))
            if collect is not None:
                for (j, beh, obs, exp, cnt, first, cls), (case, o, _k) in zip(bad, keyed):
                    collect.append({"class": cls, "case": case, "obs_key": o, "what": describe(j, beh), "observed": obs, "expected": exp,
                                    "replay": single_job(j, beh, first), "family": name})
            else:
                # confirm (a bounded number of) new mismatches alone in clean processes before believing them
                conf = [f for f in fresh if not f[2].startswith(("loader release", "schedule cap"))][:MAX_NEW_REPORTED]
                if conf and perturb is None:
                    cj = [single_job(j, beh, first) for j, beh, _o, first in conf]
                    for _ in range(2):
                        again = core.run_jobs(cj, binary=VC17, chunk=1)
                        for (j, beh, obs, first), r in zip(conf, again):
                            got = r.get("r", [r.get("completion")])[0]
                            if isinstance(got, dict):
                                got = got["outs"][0][2]
                            if M.canon(got) != obs:
                                raise core.MachineryError("nondeterministic replay of %s: %r vs %r" % (describe(j, beh), obs, got))
                for (j, beh, obs, exp, cnt, first, cls), (case, o, is_known) in zip(bad, keyed):
                    if not is_known:
                        if new_reported >= MAX_NEW_REPORTED:
                            unreported += 1
                            continue
                        new_reported += 1
                    what = "[%s] %s: observed %s expected %s" % (cls or "unexplained", describe(j, beh), obs, exp)
                    chk.violation(case, o, what, replay=dict(single_job(j, beh, first), config=case_of(j, beh)), expected=exp)
            chk.part(name, description=desc, graph_jobs=len(jobs), configurations=stats["cases"], executions=stats["runs"],
                     compared=stats["cmp"], nontrivial=stats["nontrivial"], distinct_expected_outcomes=len(fam_outcomes),
                     mismatches=len(bad), mismatches_known=known, mismatches_new=new)
            chk.add(evaluations=stats["runs"], states=stats["cases"], transitions=stats["runs"],
                    traces_validated_against_impl=stats["cmp"], distinct_nontrivial=stats["nontrivial"])
    chk.cov["distinct_outcomes"] = len(all_outcomes)
    chk.cov["mismatch_classes"] = {k: classes[k] for k in sorted(classes)}
    if unreported:
        chk.cov["unreported_new_violations"] = unreported
        print("... %d further new mismatches not written as replay files" % unreported)
    return fams


def selftest():
    """the Python mirror of the module generator (reports, node cross-validation) must produce vc17's sources"""
    jobs = []
    for kinds in kind_variants(["ab", "ba"]):
        for beh in ("pt", "wv"):
            jobs.append(dict(job(2, ["ab", "ba"], [beh], ["a"], kinds), src=True, i=len(jobs)))
    for j, r in zip(jobs, core.run_jobs([{k: v for k, v in j.items() if k != "fam"} for j in jobs], binary=VC17, env_extra=ENV)):
        if r.get("src") != M.sources(j["n"], j["imp"], j["kinds"], j["behs"][0]):
            raise core.MachineryError("module source generators disagree for %s" % describe(j, j["behs"][0]))


def run(chk):
    perturb = os.environ.get("C17_PERTURB") or None
    selftest()
    fams = explore(chk, perturb=perturb)
    chk.cov["rule"] = (
        "E1 graphs x behaviours x edge kinds x evaluate histories, E3 loader release orders (families in `parts`, each complete as described); "
        "states = distinct (graph, kinds, behaviours, history, API) configurations, transitions = executions on the real engine "
        "(configuration x loader order), traces_validated = executions whose whole outcome string (print trace per evaluate call, promise "
        "states after each call and at quiescence, namespaces of all loaded modules, sorted loader log) was compared with the reference model; "
        "non-trivial = at least two lines printed in the first evaluation")
    if perturb:
        chk.cov["perturbed_model"] = perturb
    for name, desc, jobs in fams:
        if jobs:
            j = jobs[len(jobs) // 2]
            beh = j["behs"][len(j["behs"]) // 2]
            chk.sample({"family": name, "config": describe(j, beh), "sources": M.sources(j["n"], j["imp"], j["kinds"], beh),
                        "expected": expected_of(j, beh)}, limit=8)
    chk.assumptions += [
        "reference model = ES2024 16.2.1.5 with three documented readings ([[CycleRoot]] of sync-failed modules = itself, twice; finished async "
        "modules are not waited for), cross-validated against node vm.SourceTextModule at authoring time (oracle/c17-node-xval.json)",
        "module bodies are the generated pre/post bodies with `await 0` as the only await; errors are thrown strings",
        "n=3 uses entry a then b only (space closed under renaming); n=4 uses alphabetical import order, <= 2 non-plain modules, and for exactly 2 "
        "non-plain modules only the edge sets without self-imports (cost: thorough must stay below 20 min)",
        "loader release orders: complete for n<=2 and for the n=3 graphs listed in part n3sched; all other families use the immediate loader",
        "up to %d consecutive executions of one graph job share a Context (fresh modules and loader state; fresh Context after a panic); family "
        "`fresh` is the control with one Context per execution; new mismatches are re-executed alone in clean processes before being reported" % REUSE,
        "a mismatch is matched against the known-findings lists per (defect class, n, behaviours, history, kind of deviation) and only if the "
        "emulation of that engine defect in the model reproduces the observed outcome string exactly; anything else is reported per configuration",
    ]


def replay(rep):
    j = {k: v for k, v in rep["replay"].items() if k != "config"}
    case = rep["replay"].get("config") or rep["case"]
    exp = M.predict(case["n"], case["imp"], case["kinds"], case["beh"], case["hist"], case["pre"])
    r = core.run_jobs([j], binary=VC17, chunk=1)[0]
    got = r.get("r", [r.get("completion")])[0]
    print("case:", describe(j, case["beh"]))
    for i, s in enumerate(M.sources(case["n"], case["imp"], case["kinds"], case["beh"])):
        print("--- module %s\n%s" % (M.NAMES[i], s), end="")
    print("expected:", exp)
    if isinstance(got, dict):
        ok = all(M.canon(o[2]) == exp for o in got["outs"]) and not got["capped"]
        for cnt, first, out in got["outs"]:
            print("observed (%d loader orders, first %s): %s" % (cnt, first, out))
    else:
        ok = M.canon(got) == exp
        print("observed:", got)
    return 0 if ok else 1
