"""C02 — no input makes the engine fail internally (no panic, abort, EnginePanic or debug-assertion failure).

E1, everything executed in child processes so that a crash is an observation:
 1. all byte strings of length <= 2 over all 256 bytes; all strings of <= L elements of a 27-element byte alphabet chosen one
    per lexer branch (incl. the bytes of U+2028, Latin-1 letters, invalid UTF-8, NUL) — parsed, and evaluated when accepted;
 2. all strings of <= K tokens over the 66-token alphabet — parsed, and evaluated when accepted;
 3. nesting: 24 nestable constructs x every depth 1..64;
 4. hostile programs: every pair (builtin that iterates or re-enters) x (callback that mutates what is being iterated);
 5. reuse: every ordered pair from a pool of inputs (one per outcome class) evaluated on ONE context.
Oracle: the outcome is a value, a JavaScript exception or a documented RuntimeLimit error — never RustPanic, EnginePanic,
Abort (signal) or Hang.
"""
import json, os, subprocess
from .. import core
from .c19 import run_shards, merge, C02_KINDS, NTOK

PACKAGES = ("vrun", "vtok")

NEST = [
    ("paren", "(", "1", ")"), ("array", "[", "1", "]"), ("object", "({a:", "1", "})"), ("block", "{", ";", "}"), ("func", "(function(){", "", "})()"),
    ("arrow", "(()=>", "1", ")()"), ("if", "if(1)", ";", ""), ("while", "while(0)", ";", ""), ("for", "for(;0;)", ";", ""), ("try", "try{", "", "}finally{}"),
    ("label", "L@:", ";", ""), ("template", "`${", "1", "}`"), ("unary", "- ", "1", ""), ("not", "!", "1", ""), ("typeof", "typeof ", "1", ""),
    ("ternary", "1?", "1", ":1"), ("call", "f(", "1", ")"), ("new", "new ", "Object", ""), ("member", "", "o", ".a"), ("index", "o[", "0", "]"),
    ("class", "(class{static{", "", "}})"), ("arrpat", "var [", "a", "]=[]"), ("objpat", "var {a:", "b", "}={}"), ("comma", "(0,", "1", ")"),
    ("await", "await ", "1", ""), ("spread", "[...", "[]", "]"), ("gen", "(function*(){yield ", "1", "})().next()"),
]

ITERATORS = [
    "a.forEach(cb)", "a.map(cb)", "a.filter(cb)", "a.some(cb)", "a.every(cb)", "a.reduce(cb, 0)", "a.reduceRight(cb, 0)", "a.find(cb)", "a.findIndex(cb)", "a.findLast(cb)",
    "a.sort(cb)", "a.flatMap(cb)", "Array.from(a, cb)", "a.toSorted(cb)", "a.splice(0, 1, {valueOf: cb})", "a.fill({valueOf: cb}, {valueOf: cb})", "a.indexOf({}, {valueOf: cb})",
    "a.join({toString: cb})", "a.concat({get length() { return cb() }, [Symbol.isConcatSpreadable]: true})", "a.copyWithin({valueOf: cb}, 1)", "a.slice({valueOf: cb})",
    "a.includes(1, {valueOf: cb})", "a.lastIndexOf(1, {valueOf: cb})", "a.flat({valueOf: cb})", "a.at({valueOf: cb})", "a.with({valueOf: cb}, 1)",
    "for (var x of a) cb(x)", "for (var k in a) cb(k)", "[...a].length; var [p, q, ...r] = {[Symbol.iterator]() { var i = 0; return {next() { cb(); return {done: i++ > 3, value: i} }} }}",
    "new Map([[1, 2], [3, 4]]).forEach(cb)", "new Set([1, 2, 3]).forEach(cb)", "JSON.stringify(a, cb)", "JSON.parse('[1,[2,3],{\"a\":4}]', cb)", "'abc'.replace(/b/g, cb)",
    "'a-b-c'.split({[Symbol.split]: cb})", "ta.forEach(cb)", "ta.map(cb)", "ta.sort(cb)", "ta.set({length: {valueOf: cb}})", "ta.fill({valueOf: cb})", "ta.subarray({valueOf: cb})",
    "Object.keys(new Proxy(a, {ownKeys: function () { cb(); return ['0', 'length'] }}))", "Object.assign({}, {get x() { return cb() }})", "Reflect.apply(cb, null, a)",
    "Object.defineProperties({}, {x: {get value() { return cb() }}})", "Promise.all({[Symbol.iterator]() { return {next: function () { cb(); return {done: true} }} }})",
    "new Proxy(function () {}, {apply: cb})()", "String(({toString: cb}))", "a.toString = cb; a + ''", "Object.fromEntries({[Symbol.iterator]() { var i = 0; return {next() { cb(); return {done: i++ > 1, value: [i, i]} }} }})",
]
MUTATIONS = [
    "a.length = 0", "a.length = 100000", "a.push(1, 2, 3)", "a.pop()", "a.shift()", "delete a[1]", "Object.freeze(a)", "a[50] = 1", "Object.setPrototypeOf(a, null)",
    "Object.defineProperty(a, 0, {get() { return 1 }, configurable: true})", "throw 1", "a = null", "ta = null; buf.resize ? 0 : 0", "rab.resize(0)", "rab.resize(16)",
    "a.splice(0, a.length)", "a.reverse()", "Array.prototype[3] = 9", "(function r(n) { return n ? r(n - 1) : 0 })(200)", "a.sort()", "a.fill({})", "for (var i = 0; i < 50; i++) a.unshift(i)",
    "Object.defineProperty(a, 'length', {writable: false})", "depth++ < 3 && a.forEach(cb)", "a.constructor = function () { return {} }", "a.__proto__ = new Proxy([], {})",
]

POOL = [
    "1", "throw 1", "null.x", "let dup = 1; let dup = 2", "var v = 1", "let l = 1", "l", "function f() { return f() } f()", "while (true) {}", "(", "var", "`${", " ", "1n + 1",
    "new Array(-1)", "JSON.parse('{')", "eval('let z = 1'); z", "class C { #p; static m(o) { return o.#p } } C.m({})", "Symbol() + ''", "[].reduce((a, b) => a)",
    "new Proxy({}, {get() { throw 2 }}).x", "async function a() { await null; throw 3 } a()", "function* g() { yield 1 } var it = g(); it.next(); it.next(); it.next()", "it && it.throw(4)",
    "Object.defineProperty(globalThis, 'ro', {value: 1})", "ro = 2", "'use strict'; ro = 2", "new Function('return this')()", "(function () { 'use strict'; undeclared = 1 })()",
    "String.prototype.x = 1; ''.x", "delete Object.prototype.toString; ({}) + ''", "var o = {}; o.o = o; JSON.stringify(o)", "new (class A extends null {})()", "Reflect.construct(Math.max, [])",
    "import('nothing')", "new WeakRef({}); new FinalizationRegistry(() => {}).register({}, 1)", "Array.prototype.concat.call(1n)", "'a'.repeat(-1)", "new ArrayBuffer(8, {maxByteLength: 4})",
    "label: { break label }", "with ({}) { var w = 1 }", "try { null.y } finally { 5 }", "switch (1) { case 1: let sw = 1 }", "for (const c of [1]) { c = 2 }", "/(?<n>a)\\k<n>/.exec('aa').groups.n",
]


def nest_programs():
    out = []
    for name, o, core_, c in NEST:
        for n in list(range(1, 65)):
            body = "".join(o.replace("@", str(i)) for i in range(n)) + core_ + c * n
            pre = "var o = {a: null}; o.a = o; function f(x) { return x } " if name in ("call", "member", "index") else ""
            if name == "member":
                body = "o" + ".a" * n
            if name == "arrpat":
                body = "var " + "[" * n + "a" + "]" * n + " = " + "[" * n + "1" + "]" * n + "; a"
            if name == "objpat":
                body = "var " + "{a:" * n + "b" + "}" * n + " = " + "{a:" * n + "1" + "}" * n + "; b"
            if name == "await":
                body = "(async function(){ return " + "await " * n + "1 })()"
            out.append((name, n, pre + body))
    return out


def hostile_programs(pairs=False):
    pre = ("var depth = 0; var a = [1, 2, 3, 4, 5, 6]; var buf = new ArrayBuffer(8); var rab = new ArrayBuffer(8, {maxByteLength: 16}); var ta = new Uint8Array(rab); var n = 0;\n")
    out = []
    for it in ITERATORS:
        # (the pair {length = 100000, 50 x unshift} is left out: 40 callbacks x 50 unshifts over 100000 indices is finite but outlasts the watchdog)
        for m in ([a + "; " + b for a in MUTATIONS for b in MUTATIONS if "throw" not in a and not ("100000" in a + b and "unshift" in a + b)] if pairs else MUTATIONS):
            out.append(pre + "var cb = function () { if (n++ < 40) { " + m + " } return 0 };\ntry { " + it + " } catch (e) { print('E', typeof e == 'object' && e ? e.name : e) } print(n > 0, Array.isArray(a) ? a.length : a);")
    return out


COLL_ITERS = [
    "m.forEach(cb)", "for (var e of m) cb(e)", "for (var k of m.keys()) cb(k)", "for (var v of m.values()) cb(v)",
    "var it = m.entries(); it.next(); cb(); it.next(); cb(); it.next(); cb(); it.next()", "s.forEach(cb)", "for (var e of s) cb(e)",
    "var it = s.values(); it.next(); cb(); it.next(); cb(); it.next(); cb(); it.next()", "Array.from(m, cb); Array.from(s, cb)", "Map.groupBy(m, cb); Object.groupBy(s, cb)",
    "new Map(m.entries()).size; new Set({[Symbol.iterator]() { var i = s.values(); return {next() { cb(); return i.next() }} }})",
]
COLL_MUTS = [
    "m.delete(1); s.delete(1)", "m.delete(2); s.delete(2)", "m.delete(3); s.delete(3)", "m.clear(); s.clear()", "m.set(4, 'd'); s.add(4)", "m.set(1, 'z'); s.add(1)",
    "m.set(n + 10, n); s.add(n + 10)", "m.forEach(function () {}); s.forEach(function () {})", "depth++ < 2 && (m.forEach(cb), s.forEach(cb))", "m.delete(n); s.delete(n)",
    "for (var z of m) break; for (var z of s) break", "m.keys().next(); s.values().next()",
]


def collection_programs(tier):
    """Map / Set iteration x every sequence of <= 2 (thorough: <= 3) mutations of the collection performed inside the callback,
    each followed by reads of size and of a fresh iteration while the outer iteration is still live."""
    pre = "var depth = 0, n = 0; var m = new Map([[1, 'a'], [2, 'b'], [3, 'c']]); var s = new Set([1, 2, 3]);\n"
    obs = "print(m.size, s.size, [...m.keys()].join(), [...s].join(), m.has(2), s.has(2), m.get(1))"
    seqs = [[a] for a in COLL_MUTS] + [[a, b] for a in COLL_MUTS for b in COLL_MUTS]
    if tier == "thorough":
        seqs += [[a, b, c] for a in COLL_MUTS for b in COLL_MUTS for c in COLL_MUTS]
    out = []
    for it in COLL_ITERS:
        for q in seqs:
            body = "; ".join(q)
            out.append(pre + "var cb = function () { if (n++ < 12) { " + body + "; " + obs + " } return 0 };\ntry { " + it + " } catch (e) { print('E', typeof e == 'object' && e ? e.name : e) } " + obs + ";")
    return out


ICLOSE_BODIES = [
    'try { EXIT } catch (e) { print("caught", msg(e)) }',
    'try { for (const c of it("C", "MODE2")) { EXIT } } catch (e) { print("caught", msg(e)) }',
    'for (let i = 0; i < 1; i++) { let z = () => i; try { EXIT } catch (e) { print("caught", msg(e), z()) } }',
    'try { try { EXIT } finally { print("fin") } } catch (e) { print("caught", msg(e)) }',
    'L: { try { EXIT } catch (e) { print("caught", msg(e)) } }',
    'switch (1) { case 1: try { EXIT } catch (e) { print("caught", msg(e)) } }',
    'for (const c of it("C", "MODE2")) { for (let i = 0; i < 1; i++) { let z = () => i; EXIT } }',
]
ICLOSE_EXITS = ['return 1', 'break', 'continue', 'break OUT', 'continue OUT', 'throw new Error("x")']
ICLOSE_CTX = ['function f() { LOOP return 2 } try { print("ret", f()) } catch (e) { print("threw", msg(e)) }',
              'function* f() { yield 0; LOOP return 2 } try { for (var v of f()) print("y", v) } catch (e) { print("threw", msg(e)) }',
              'async function f() { await 0; LOOP return 2 } f().then(v => print("ret", v), e => print("threw", msg(e)));']


def iterclose_programs():
    """Leaving a for-of loop (return / break / continue / throw, also to an outer label) from inside try/catch, nested loops and scopes, where the
    iterator's `return` method throws, returns a primitive or behaves: the close protocol runs inside the statements being left."""
    pre = ('function msg(e) { return e && (e.name == "Error" ? e.message : e.name) }\n'
           'function it(name, mode) { var n = 0; return {[Symbol.iterator]() { return this }, next() { return {value: n, done: n++ > 2} }, '
           'return() { print(name + ".return"); if (mode == "throw") throw new Error(name); if (mode == "prim") return 1; return {} } } }\n')
    out = []
    for body in ICLOSE_BODIES:
        for ex in ICLOSE_EXITS:
            for mode in ("ok", "throw", "prim"):
                for mode2 in (("ok", "throw", "prim") if "MODE2" in body else ("ok",)):
                    loop = 'OUT: for (const b of it("B", "%s")) { %s }' % (mode, body.replace("EXIT", ex).replace("MODE2", mode2))
                    for ctx in ICLOSE_CTX:
                        out.append(pre + ctx.replace("LOOP", loop))
    return out


def run(chk):
    tier = chk.tier
    L, K = (4, 4) if tier == "thorough" else (3, 3)
    cmds = [["bytes2", str(i), str(i + 16)] for i in range(0, 256, 16)]
    cmds += [["bytes", str(L), str(i), str(i + 1), "eval"] for i in range(27)]
    cmds += [["tokens", str(K), str(i), str(i + 1), "eval"] for i in range(NTOK)]
    tot, outcomes, fails = merge(run_shards(cmds))
    chk.part("texts", byte_L=L, token_K=K, **tot)
    bad = [(f["kind"], f["src"], f["detail"], {"src": f["src"], "bytes": f.get("bytes")}) for f in fails if f["kind"] in C02_KINDS or f["kind"] == "process-died"]
    # 3-5: programs through the generic worker
    nests = nest_programs()
    host = hostile_programs()
    coll = collection_programs(tier)
    if tier == "thorough":
        # arrays: every ordered pair of mutations inside one callback
        host += hostile_programs(pairs=True)
    iclose = iterclose_programs()
    host += coll + iclose
    lim = {"loop": 5000, "rec": 400}
    jobs = [{"i": i, "src": p, "cfg": lim} for i, (_, _, p) in enumerate(nests)] + [{"i": len(nests) + i, "src": p, "cfg": lim} for i, p in enumerate(host)]
    pairs = [(a, b) for a in POOL for b in POOL]
    jobs += [{"i": len(nests) + len(host) + i, "hist": [a, b], "cfg": lim} for i, (a, b) in enumerate(pairs)]
    res = core.run_jobs(jobs)
    classes = {}
    for j, r in zip(jobs, res):
        steps = r.get("steps", [r])
        for s in steps:
            c = s.get("completion", "")
            cls = c.split(" ")[0]
            classes[cls] = classes.get(cls, 0) + 1
            for cc in (c, (s.get("x") or {}).get("jobs") or ""):
                if core.is_bad(cc):
                    src = j.get("src") or " ;; ".join(j["hist"])
                    bad.append(("engine-failure", src, cc, j))
    deepest = {}
    for (name, n, _), r in zip(nests, res[:len(nests)]):
        if not core.is_bad(r["completion"]) and not r["completion"].startswith(("EarlySyntaxError", "Limit")):
            deepest[name] = max(deepest.get(name, 0), n)
    chk.part("nesting", constructs=len(NEST), depths="1..64", deepest_depth_evaluated=deepest)
    chk.part("hostile", programs=len(host), iterators=len(ITERATORS), mutations=len(MUTATIONS), collection_programs=len(coll), iterator_close_programs=len(iclose), collection_iterations=len(COLL_ITERS), collection_mutations=len(COLL_MUTS),
             mutation_sequences_per_callback="arrays 1 (thorough: <= 2), Map/Set <= 2 (thorough: <= 3)")
    chk.part("reuse", ordered_pairs=len(pairs), pool=len(POOL))
    for kind, src, detail, rep in bad:
        # panic locations are normalised (line numbers move with unrelated edits)
        import re
        obs = re.sub(r"\.rs:\d+", ".rs", detail)[:200]
        chk.violation({"kind": kind, "src": src}, obs, f"[{kind}] {src[:160]!r}: {detail[:200]}", replay=rep, expected="value, JavaScript exception or RuntimeLimit")
    total = tot["total"] + len(jobs)
    chk.add(evaluations=total, states=total, transitions=tot["total"] + 2 * tot["evaluated"] + len(jobs) + len(pairs),
            traces_validated_against_impl=total, distinct_nontrivial=tot["accepted"] + len(jobs))
    outcomes.update({"prog:" + k: v for k, v in classes.items()})
    chk.cov["distinct_outcomes"] = len(outcomes)
    chk.cov["outcome_classes"] = outcomes
    chk.cov["rule"] = ("E1: all byte strings <=2 over 256 bytes + all strings <= %d over the 27-element byte alphabet + all strings <= %d over the 66-token alphabet (parsed; "
                       "evaluated when accepted) + 27 nestable constructs x depths 1..64 + %d iterator x %d mutation hostile programs + all %d ordered pairs of the reuse pool "
                       "on one context; states = inputs, transitions = parses + evaluations; every outcome must be a value, a JavaScript exception or a RuntimeLimit" % (L, K, len(ITERATORS), len(MUTATIONS), len(pairs)))
    chk.sample({"nest": nests[200][2][:160]})
    chk.sample({"hostile": host[37][-300:]})
    chk.sample({"reuse": list(pairs[50])})
    chk.assumptions += ["a debug-assertion failure or arithmetic overflow check is a Rust panic in this build profile (debug assertions and overflow checks are on)",
                        "stack exhaustion of the 8 MiB main-thread stack shows up as Abort (SIGSEGV/SIGABRT) of the worker process"]


def replay(rep):
    r = rep["replay"]
    if "bytes" in r and r.get("bytes") is not None and "hist" not in r and "cfg" not in r:
        from .c19 import replay as r19
        return r19(rep)
    out = core.run_jobs([r], chunk=1)[0]
    print(json.dumps(out)[:2000])
    return 0
