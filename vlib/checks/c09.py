"""C09 — the collector frees exactly the unreachable objects, exactly once.

E2 (explicit-state search with replay) on the `boa_gc` crate alone, done by the Rust binary `vc09`
(/verif/harness/crates/vc09): breadth-first over operation histories on a universe of <= 3 (also 4) node ids;
a state IS its history; every transition is a fresh replay of the whole history on the real collector from an
empty heap (in a child process, so that a premature free / crash costs one worker, not the exploration),
compared with a reference model made of plain lists and sets:

  reachable = least fix-point from host-held things over strong edges, "holder reaches its weak boxes",
  and "an ephemeron's value is reached if the ephemeron is reached and its key is reached";
  collect(): every unreachable node is finalized once and dropped once (a node whose armed finalizer stores a
  handle to it somewhere reachable is finalized, kept, and collectable later); reachable nodes untouched
  (canaries, Drop/Finalize counters in a side table); WeakGc::upgrade / Ephemeron::key,value / WeakMap::get
  agree with the model; stats() (strong boxes, ephemeron boxes, weak-map boxes, bytes) equal the
  model's counts; after every history everything is dropped and the heap must drain to zero with every
  node dropped exactly once.

Histories that reach an already known canonical model state (node ids renamed by allocation order; the key
also contains the allocation order of strong and ephemeron boxes and a resurrection taint) are not expanded
again but their real observation is compared with the one of the first history that reached the state.
Violating histories are reduced (inside `vc09`) to 1-minimal witnesses of the same violation kind; a witness is
re-executed twice by `vc09 hist` in fresh processes before it is believed.
"""
import json, os, subprocess
from concurrent.futures import ThreadPoolExecutor
from .. import core

PACKAGES = ("vc09",)
BIN = os.path.join(core.TARGET, "debug", "vc09")
P3 = "alloc(0);alloc(1);alloc(2)"
P4 = "alloc(0);alloc(1);alloc(2);alloc(3)"

# (part, nodes, depth beyond the prefix, prefix, collect-at-every-allocation mode)
CONFIGS = {
    "quick": [
        ("eph", 3, 7, "", 0), ("res", 3, 7, "", 0), ("map", 3, 8, "", 0), ("noarm", 3, 6, "", 0), ("noarm", 3, 6, "", 1), ("weak", 3, 8, "", 0),
        ("ephh", 3, 5, P3, 0), ("full", 3, 5, "", 0), ("graph", 3, 12, "", 0), ("map", 3, 7, "", 1),
        ("graph", 4, 8, "", 0), ("noarm", 4, 5, "", 0), ("noarm", 4, 5, "", 1), ("res", 4, 6, "", 0), ("weak", 4, 6, "", 0), ("map", 4, 6, "", 0),
    ],
    # longest first (two explorers run at a time)
    "thorough": [
        ("res", 3, 9, "", 0), ("eph", 3, 5, P3, 0), ("map", 3, 10, "", 0), ("noarm", 3, 7, "", 0), ("noarm", 3, 7, "", 1), ("graph", 4, 10, "", 0),
        ("noarm", 4, 6, "", 0), ("weak", 3, 9, "", 0), ("ephh", 3, 7, P3, 0), ("res", 4, 8, "", 0), ("eph", 3, 7, "", 0), ("eph", 3, 7, "", 1),
        ("full", 3, 6, "", 0), ("map", 3, 9, "", 1), ("weak", 3, 8, "", 1), ("ephh", 4, 5, P4, 0), ("graph", 3, 16, "", 0), ("weak", 4, 8, "", 0),
        ("map", 4, 8, "", 0), ("noarm", 4, 6, "", 1), ("full", 4, 5, "", 0),
    ],
}
PART_DOC = {
    "graph": "alloc, clone_handle, drop_handle, link, unlink, follow(edge -> host handle), collect",
    "weak": "alloc, drop_handle, link, unlink, collect + host_weak, drop_host_weak, upgrade_keep, weak(i->j stored in node i)",
    "eph": "alloc, drop_handle, link, unlink, collect + host_eph(k=>v), drop_host_eph, take_value, eph(i: k=>v stored in node i)",
    "ephh": "alloc, drop_handle, link, collect + host-held ephemerons only (ephemeron chains, deeper)",
    "map": "alloc, drop_handle, link, collect + WeakMap new / insert / remove / move into node / move back / drop",
    "res": "alloc, clone_handle, drop_handle, link, unlink, collect, host_weak + arm_resurrection (finalizer stores a handle in a host slot / into another live node)",
    "noarm": "the whole alphabet except resurrection",
    "full": "the whole alphabet",
}


# Sensitivity probes: the same explorer with ONE rule of the reference model deliberately broken (env VC09_MUTATE, model side
# only, /repo untouched) must report violations; otherwise the comparison has gone vacuous. (mutation, config, expected witnesses)
PROBES = [
    ("eph_once", ("ephh", 3, 5, P3, 0), 6),          # ephemeron rule applied in one pass only: exactly the 6 out-of-order chains of 2
    ("unreachable_kept", ("graph", 3, 5, "", 0), 1),  # model never frees anything
    ("weak_strong", ("weak", 3, 5, "", 0), 1),        # weak pointer keeps its target alive
    ("eph_value_strong", ("eph", 3, 5, "", 0), 1),    # ephemeron value kept although the key is dead
    ("cycles_leak", ("graph", 3, 5, "", 0), 1),       # anything with an in-edge is kept (reference counting without cycle collection)
]


def _explore(cfg, workers, mutate=None):
    part, nodes, depth, prefix, gc = cfg
    args = [BIN, "explore", "--part", part, "--nodes", str(nodes), "--depth", str(depth), "--workers", str(workers)]
    if gc:
        args += ["--gc-alloc"]
    if prefix:
        args += ["--prefix", prefix]
    env = dict(os.environ)
    env.pop("VC09_MUTATE", None)
    if mutate:
        env["VC09_MUTATE"] = mutate
    p = subprocess.run(args, stdout=subprocess.PIPE, stderr=subprocess.PIPE, text=True, env=env)
    lines = [l for l in p.stdout.split("\n") if l.strip()]
    if p.returncode != 0 or not lines:
        # the explorer itself never touches boa_gc (only its worker children do), so this is machinery
        raise core.MachineryError(f"vc09 explore {cfg} failed rc={p.returncode}: {p.stderr[-2000:]}")
    d = json.loads(lines[-1])
    if "error" in d:
        raise core.MachineryError(f"vc09 explore {cfg}: {d['error']}")
    return d


def run_hist(hist, nodes=3, boxes=5, gc=False):
    """One history in a fresh process, compared after every step. Returns a dict with 'violation'."""
    p = subprocess.run([BIN, "hist", "--nodes", str(nodes), "--boxes", str(boxes)] + (["--gc-alloc"] if gc else []) + [";".join(hist)],
                       stdout=subprocess.PIPE, stderr=subprocess.PIPE, text=True)
    lines = [l for l in p.stdout.split("\n") if l.strip()]
    if p.returncode < 0 or not lines:
        sig = -p.returncode if p.returncode < 0 else p.returncode
        return {"valid": True, "trace": [], "violation": {"hist": hist, "kind": "crash", "observed": "Abort",
                                                          "detail": f"process died (signal/rc {sig}) {p.stderr[-200:]}", "expected": "no crash"}}
    return json.loads(lines[-1])


def _ident(v):
    return {"kind": v.get("kind"), "observed": v.get("observed")}


def run(chk):
    cfgs = CONFIGS[chk.tier]
    # two explorers at a time, 8 worker processes each: 16 replaying processes in total
    with ThreadPoolExecutor(max_workers=2) as ex:
        outs = list(ex.map(lambda c: _explore(c, 8), cfgs))
    feats = {}
    witnesses = {}  # (tuple(hist), kind) -> (witness, nodes, boxes, parts)
    raw_total = 0
    for cfg, d in zip(cfgs, outs):
        part, nodes, depth, prefix, gc = cfg
        name = f"{part}/n{nodes}/d{len(d['prefix']) + depth}" + ("+prefix" if prefix else "") + ("+gc-at-every-allocation" if gc else "")
        chk.part(name, alphabet=PART_DOC[part], ops_in_alphabet=d["alphabet"], nodes=nodes, prefix=d["prefix"], depth_completed=len(d["prefix"]) + d["depth_completed"],
                 states=d["states"], transitions=d["transitions"], merged_histories_cross_compared=d["merged_cross_compared"],
                 distinct_observations=d["distinct_observations"], features=d["features"], raw_violating_histories=d["raw_violations"],
                 witnesses=len(d["witnesses"]), seconds=round(d["seconds"], 1))
        if d["depth_completed"] != depth:
            raise core.MachineryError(f"{name}: exploration stopped at depth {d['depth_completed']}")
        chk.add(states=d["states"], transitions=d["transitions"], traces_validated_against_impl=d["transitions"],
                evaluations=d["transitions"] + d["minimize_evals"], distinct_nontrivial=d["nontrivial_transitions"])
        chk.cov["distinct_outcomes"] += d["distinct_observations"]
        chk.cov["merged_histories_cross_compared"] = chk.cov.get("merged_histories_cross_compared", 0) + d["merged_cross_compared"]
        for k, v in d["features"].items():
            feats[k] = feats.get(k, 0) + v
        raw_total += d["raw_violations"]
        if d["violations_capped"]:
            chk.cov["caps_hit"].append(f"{name}: more than 100000 violating histories; the rest were counted but not reduced")
            chk.cov["exhaustive"] = False
        for s in d["samples"][:2]:
            chk.sample({"part": name, "hist": s["hist"], "what_happened": s["flags"]}, limit=8)
        for w in d["witnesses"]:
            key = (tuple(w["hist"]), w["kind"], bool(gc))
            if key not in witnesses:
                witnesses[key] = (w, nodes, d["boxes_cap"], [name])
            else:
                witnesses[key][3].append(name)
                witnesses[key][0]["raw_count"] += w["raw_count"]
    chk.cov["features"] = feats
    chk.cov["raw_violating_histories"] = raw_total
    chk.cov["witnesses"] = len(witnesses)

    # confirm: every witness twice more, each time in a fresh process; identical verdicts or machinery error
    items = sorted(witnesses.items(), key=lambda kv: (len(kv[0][0]), kv[0]))

    def confirm(item):
        (hist, kind, gc), (w, nodes, boxes, parts) = item
        ids = []
        for _ in range(2):
            r = run_hist(list(hist), nodes, boxes, gc)
            ids.append(_ident(r["violation"]) if r.get("violation") else None)
        return ids

    with ThreadPoolExecutor(max_workers=8) as ex:
        confirmed = list(ex.map(confirm, items))
    for item, ids in zip(items, confirmed):
        (hist, kind, gc), (w, nodes, boxes, parts) = item
        want = _ident(w)
        if ids[0] != want or ids[1] != want:
            raise core.MachineryError(f"nondeterministic replay of a violating history {list(hist)}: explorer {want}, fresh processes {ids}")
        what = f"{w['kind']}: {';'.join(hist)} -> {w['detail'][:150]} [{w['raw_count']} violating histories reduce to this witness]"
        case = {"hist": list(hist)}
        if gc:
            case["collect_at_every_allocation"] = True
            what = "[collection at every allocation] " + what
        chk.violation(case, want, what, replay={"hist": list(hist), "nodes": nodes, "boxes": boxes, "gc_alloc": gc}, expected=w.get("expected"))
    chk.add(evaluations=2 * len(items))

    # sensitivity probes (not counted in the evidence numbers)
    sens = {}
    if items:
        # the real collector already disagrees with the model: the probe counts would mix both disagreements and say nothing
        chk.cov["sensitivity_probes"] = "skipped: the exploration itself reported violations"
    with ThreadPoolExecutor(max_workers=2) as ex:
        pouts = [] if items else list(ex.map(lambda pr: _explore(pr[1], 8, mutate=pr[0]), PROBES))
    for (mut, cfg, want), d in zip(PROBES, pouts):
        n = len(d["witnesses"])
        sens[mut] = {"family": f"{cfg[0]}/n{cfg[1]}/d{len(d['prefix']) + cfg[2]}", "transitions": d["transitions"], "violating_histories": d["raw_violations"], "witnesses": n,
                     "first": ";".join(d["witnesses"][0]["hist"]) + " -> " + d["witnesses"][0]["kind"] if n else None}
        if n < want or (mut == "eph_once" and n != want):
            raise core.MachineryError(f"sensitivity probe `{mut}`: a deliberately broken reference model produced {n} witnesses (expected {want}): the check has gone vacuous")
    if not items:
        chk.cov["sensitivity_probes"] = sens

    chk.cov["rule"] = (
        "E2: per family (sub-alphabet, see parts) ALL operation histories up to the stated depth over <=3 / <=4 node ids, host handles <=2 per node, "
        "<=2 host weak pointers, <=2 host ephemerons, <=1 weak pointer and <=1 ephemeron stored per node, one WeakMap, <=5 live ephemeron boxes; alloc always takes "
        "the lowest free id (ids are labels). transitions = fresh replays of a whole history on the real boa_gc heap, each compared with the model after its last "
        "operation (Drop/Finalize counters per allocation, canaries, upgrade/key/value/get results over everything reachable from host handles, stats() box counts and bytes) and again after a teardown (all host handles dropped, collect x3: heap must be empty, every node dropped exactly once); "
        "families marked +gc-at-every-allocation run with boa_gc::verif Schedule::Every(1): every allocating operation first runs a full collection inside the allocator "
        "(the path of threshold-triggered collections, with the new value in flight and, for WeakMap::insert, the map mutably borrowed); "
        "states = distinct canonical model states per family (families overlap); a violating history is not extended; "
        "distinct_nontrivial = transitions in which a collection freed / kept-without-handle / cleared / expired / resurrected something or a garbage node was revived; "
        "distinct_outcomes = distinct real observations (rendering + statistics), summed over families")
    chk.assumptions += [
        "weak pointers, ephemerons and weak-map entries whose target/key is condemned at a collection are cleared even if a finalizer then resurrects the target (the collector clears before it re-marks); 'upgrade is Some iff target alive' is therefore demanded exactly only for targets that were never condemned",
        "ephemeron boxes that become unreferenced only in the post-sweep step of a collection (the anchor of a dead WeakMap, expired weak-map entries) are released by boa one collection late (known defect 17, a C10 leak-clause matter); C09 accepts both 'released by this collection' and 'released by the next one' for exactly those boxes and nothing else; the number of collections is not compared",
        "states are identified by a 128-bit hash of the canonical model state (collision probability negligible at <= 10^8 states)",
        "a finalizer that resurrects its node does so through WeakGc::upgrade on a weak pointer created while the node was live",
        "the harness's own finalizer may drop a harness-held handle to the resurrection target node; nodes reachable when the collection began are never required to be freed by it",
        "not covered: more than one WeakMap, ephemerons whose value contains ephemerons, allocation inside finalizers, resurrection combined with collection-at-every-allocation, GcRefCell borrowed across a collection (except inside WeakMap::insert), Gc::new_cyclic, GcErased",
    ]


def replay(rep):
    r = rep["replay"]
    out = run_hist(r["hist"], r.get("nodes", 3), r.get("boxes", 5), r.get("gc_alloc", False))
    print("history:", ";".join(r["hist"]))
    for t in out.get("trace", []):
        print("  ", t)
    v = out.get("violation")
    print("expected:", rep.get("expected"), "(model)")
    if v:
        print("observed:", v.get("kind"), "|", v.get("observed"), "|", v.get("detail"))
        return 1
    print("observed: no violation; final observation", out.get("final"))
    return 0
