"""C12 — value tagging is lossless, unambiguous and configuration-independent.

E1: (a) every i32 (thorough: all 2^32; quick: |i| < 2^20, all 2^k +-{0,1,2}, a 65537-stride sweep), (b) a structured set of
f64 bit patterns (sign x boundary exponents x all 16 top-mantissa nibbles (the tag bits) x boundary / single-bit / pointer-
shaped 48-bit remainders, plus every exponent with boundary mantissas), (c) booleans, null, undefined and live heap values
go through `JsValue` in the harness binary `vc12`, which checks type predicates (exactly one), payload bit-identity (NaNs
stay numbers), Clone, strict_equals, same_value, to_number, as_* readers; built twice — NaN-boxed (default) and enum
(`--features enum`) — both must report zero failures and the same digest of all observations.
(d) Programs: scripts that manufacture the same bit patterns through Uint8Array / DataView / BigUint64Array / Float32Array
and print typeof, Object.is, NaN-ness and the bytes after storing the value again, plus the C01 quick pair/op families
(subset): traces must be identical under the two builds.
"""
import json, os, subprocess
from concurrent.futures import ThreadPoolExecutor
from .. import core
from .. import families as F

NEEDS_ENUM = True
PACKAGES = ("vrun", "vc12")


def vc12(binary_dir, args):
    p = subprocess.run([os.path.join(binary_dir, "debug", "vc12")] + args, capture_output=True, text=True)
    if p.returncode != 0:
        return {"n": 0, "failures": [f"process failed rc={p.returncode}: {p.stderr[-300:]}"], "digest": "crash"}
    return json.loads([l for l in p.stdout.split("\n") if l.strip()][-1])


def int_ranges(tier):
    if tier == "thorough":
        step = 1 << 28
        return [["ints", str(lo), str(lo + step)] for lo in range(-(1 << 31), 1 << 31, step)]
    r = [["ints", str(-(1 << 20)), str(1 << 20)], ["ints", str(-(1 << 31)), str(1 << 31), "65537"]]
    for k in range(1, 32):
        for s in (1, -1):
            c = s * (1 << k)
            lo, hi = max(c - 2, -(1 << 31)), min(c + 3, 1 << 31)
            if lo < hi:
                r.append(["ints", str(lo), str(hi)])
    return r


def bit_programs(tier):
    """Scripts that build doubles from raw bytes and read them back through several typed views."""
    exps = [0, 1, 0x3FF, 0x400, 0x433, 0x7FE, 0x7FF]
    rems = [0, 1, 0xFFFFFFFF, 0x100000000, 0x7FFFFFFFFFFF, 0xFFFFFFFFFFFF, 0x555555550010 & 0xFFFFFFFFFFF0, 0x7f0000001000]
    if tier == "thorough":
        exps += [2, 0x3FE, 0x41D, 0x41E, 0x434]
        rems += [1 << b for b in range(0, 48, 3)]
    pats = []
    for sign in (0, 1):
        for e in exps:
            for nib in range(16):
                for r in rems:
                    pats.append((sign << 63) | (e << 52) | (nib << 48) | r)
    pats = sorted(set(pats))
    progs = []
    chunk = 64
    for i in range(0, len(pats), chunk):
        arr = ",".join('"%016x"' % p for p in pats[i:i + chunk])
        progs.append(
            'var pats = [' + arr + ']; var buf = new ArrayBuffer(8), u8 = new Uint8Array(buf), f64 = new Float64Array(buf), dv = new DataView(buf), b64 = new BigUint64Array(buf), f32 = new Float32Array(buf);\n'
            'for (var p of pats) { for (var i = 0; i < 8; i++) u8[7 - i] = parseInt(p.substr(2 * i, 2), 16); var v = f64[0], w = dv.getFloat64(0, true), s = f32[1];\n'
            '  var box = {v}, arr = [v, w], m = new Map([[v, 1]]); f64[0] = box.v; var back = b64[0].toString(16);\n'
            '  print(p, typeof v, v !== v, Object.is(v, w), Object.is(arr[0], box.v), m.has(v), String(v), typeof s, s !== s, (v !== v) ? "nan" : back, v | 0, v === v ? (v + 0 === v) : "n"); }')
    return progs


def run(chk):
    tier = chk.tier
    tdir, edir = core.TARGET, core.TARGET_ENUM
    # (a)-(c) Rust-level round trips, both builds
    cmds = int_ranges(tier) + [["doubles", tier], ["others"]]
    with ThreadPoolExecutor(max_workers=core.NPROC) as ex:
        nb = list(ex.map(lambda a: vc12(tdir, a), cmds))
        en = list(ex.map(lambda a: vc12(edir, a), cmds))
    total = 0
    bad = []
    for a, x, y in zip(cmds, nb, en):
        total += x["n"] + y["n"]
        for name, r in (("nan-boxed", x), ("enum", y)):
            for f in r["failures"]:
                bad.append(({"cmd": a, "build": name, "failure": f.split(":")[0]}, f))
        if x["digest"] != y["digest"] or x["n"] != y["n"]:
            bad.append(({"cmd": a, "build": "both", "failure": "digest"}, f"observation digests differ between the builds: {x['digest']} vs {y['digest']}"))
    sizes = (nb[-1].get("size_of_jsvalue"), en[-1].get("size_of_jsvalue"))
    if sizes[0] == sizes[1]:
        raise core.MachineryError(f"the two builds have the same JsValue size {sizes}: the enum feature was not applied")
    for case, what in bad:
        chk.violation(case, what, f"vc12 {' '.join(case['cmd'])} [{case['build']}]: {what}", replay={"vc12": case["cmd"]})
    chk.part("rust_round_trips", values=total, commands=len(cmds), jsvalue_sizes=sizes)
    # (d) programs under both builds
    progs = bit_programs(tier)
    fam = F.pair_family("quick")[:: (8 if tier == "quick" else 2)] + F.op_family("quick")[:: (16 if tier == "quick" else 3)] + F.class_family("quick")[::20]
    jobs = [{"i": i, "src": p} for i, p in enumerate(progs + fam)]
    ra = core.run_jobs(jobs)
    rb = core.run_jobs(jobs, binary=core.VRUN_ENUM)
    outcomes = set()
    nontrivial = 0
    diff = []
    for j, a, b in zip(jobs, ra, rb):
        ta, tb = core.trace_of(a), core.trace_of(b)
        outcomes.add(core.sha12(ta))
        nontrivial += 1 if ta[0] else 0
        if ta != tb:
            diff.append((j, ta, tb))
    for j, ta, tb in diff:
        chk.violation({"src": j["src"]}, {"nan_boxed": ta, "enum": tb}, f"trace differs between value representations for `{j['src'][:120]}`: {str(ta)[:100]} vs {str(tb)[:100]}",
                      replay={"src": j["src"]}, expected=tb)
    npat = sum(p.count('"') // 2 for p in progs)
    chk.part("programs", bit_pattern_scripts=len(progs), bit_patterns=npat, family_programs=len(fam))
    chk.add(evaluations=total + 2 * len(jobs), states=total // 2 + len(jobs), transitions=total + 2 * len(jobs),
            traces_validated_against_impl=total + len(jobs), distinct_nontrivial=nontrivial)
    chk.cov["distinct_outcomes"] = len(outcomes)
    chk.cov["rule"] = ("E1: every value of the stated integer ranges and the structured double set is wrapped in JsValue and checked (type predicates, payload bits, "
                       "clone, equality, readers) in two builds of the engine (NaN-boxed, enum), whose observation digests must agree; states = distinct values + programs, "
                       "transitions = value round trips (both builds) + program executions (both builds)")
    chk.sample({"cmd": cmds[0]})
    chk.sample({"cmd": ["doubles", tier]})
    chk.sample({"program": progs[0][:300]})
    chk.assumptions += ["the enum representation is the reference for program traces; both builds share everything but `JsValue`'s inner representation"]


def replay(rep):
    r = rep["replay"]
    if "vc12" in r:
        for name, d in (("nan-boxed", core.TARGET), ("enum", core.TARGET_ENUM)):
            print(name, vc12(d, r["vc12"]))
        return 0
    a = core.run_jobs([r], chunk=1)[0]
    b = core.run_jobs([r], chunk=1, binary=core.VRUN_ENUM)[0]
    print("nan-boxed:", core.trace_of(a))
    print("enum     :", core.trace_of(b))
    return 0 if core.trace_of(a) == core.trace_of(b) else 1
