"""C20 — evaluation is deterministic; contexts and realms are isolated.

E2 over histories: a pool of programs P (one per outcome class of the C01 families + order-heavy programs) x a fixed set of
prior histories H executed on the SAME thread (each history is one worker process running its steps in order, every step in a
fresh context unless it is a `realms` job): the trace of P must be byte-identical to the trace of P in a fresh process.
Cross-process: every P also runs first in two separate processes (different ASLR / hash seeds). Realms: sabotage of every
reachable intrinsic in realm 1 must be invisible in realm 0 and vice versa, and objects passed across realms keep their own
realm's intrinsics (fixed expectations from the specification).
"""
import os
from concurrent.futures import ThreadPoolExecutor
from .. import core
from .. import families as F

ORDER_HEAVY = [
    'var o = {}; for (var i = 0; i < 40; i++) { o["k" + ((i * 7) % 40)] = i; if (i % 5 == 0) delete o["k" + ((i * 3) % 40)]; } o[3] = 1; o[1] = 2; o[Symbol("s")] = 3; o["-1"] = 4; var ks = []; for (var k in o) ks.push(k); print(ks.join()); print(Reflect.ownKeys(o).map(String).join());',
    'var m = new Map(); for (var i = 0; i < 70; i++) { m.set("k" + (i * 13 % 70), i); if (i % 3 == 0) m.delete("k" + (i * 5 % 70)); } print([...m.keys()].join()); var s = new Set(); for (var i = 0; i < 70; i++) { s.add((i * 17) % 70); if (i % 4 == 0) s.delete((i * 3) % 70); } print([...s].join());',
    'for (var n = 1; n <= 40; n++) { var o = {}; for (var i = n; i > 0; i--) o["p" + i] = i; print(n, Object.keys(o).join("")); }',
    'var a = []; for (var i = 0; i < 60; i++) a.push({k: i % 7, i}); a.sort((x, y) => x.k - y.k); print(a.map(x => x.i).join());',
    'print(JSON.stringify({b: 1, a: 2, 10: 3, 2: 4, c: {z: 1, y: [3, 2, 1]}})); print(Object.getOwnPropertyNames(Object.prototype).length > 5, typeof Object.getOwnPropertyNames(globalThis).join());',
    'try { null.x } catch (e) { print(e.name, typeof e.message, typeof e.stack, Object.getOwnPropertyNames(e).sort().join()) }',
    'print([Symbol("a"), Symbol.for("b"), Symbol.iterator].map(s => s.toString()).join()); print(Object.getOwnPropertySymbols(Array.prototype).map(String).join());',
    'var c = 0; class A { static #p = 1; #q = 2; static s() { return A.#p } q() { return this.#q } } print(A.s(), new A().q(), Object.getOwnPropertyNames(A).join(), Object.getOwnPropertyNames(A.prototype).join());',
    'var r = /(?<y>\\d{4})-(?<m>\\d\\d)/u.exec("on 2024-05-01"); print(r.index, r.groups.y, Object.keys(r.groups).join(), "aXbX".replace(/X/g, (m, i) => i));',
    'var strs = []; for (var i = 0; i < 300; i++) strs.push("s" + i * 31 % 300); print(strs.sort().slice(0, 12).join(), strs.indexOf("s93"), [..."a\\ud83d\\ude00b"].length);',
    'function* g() { var x = yield 1; try { yield x * 2 } finally { print("fin") } } var it = g(); print(it.next().value, it.next(21).value, it.return(5).value); Promise.resolve(1).then(v => print("p", v)); print("sync");',
    'var wm = new WeakMap(), ws = new WeakSet(), k1 = {}, k2 = {}; wm.set(k1, 1); ws.add(k2); print(wm.has(k1), ws.has(k2), wm.get(k2)); var ta = new Float64Array([1.5, NaN, -0]); print(Array.from(new Uint8Array(ta.buffer)).join());',
    'var arr = [3, 1, 2]; arr.length = 10; arr[20] = 5; print(Object.keys(arr).join(), arr.indexOf(5), arr.join("-").length); var d = Object.getOwnPropertyDescriptors({get a() { return 1 }, b: 2}); print(Object.keys(d).join(), typeof d.a.get);',
    'print([1, 2, 3].toString(), String(function f(a, b) { return a + b }).length > 10, typeof Function.prototype.toString.call(Math.max), (12345.678).toFixed(1), 0.1 + 0.2, 1e21, -1e-7, 2 ** 53);',
    'print(Math.max(), Math.min(), Math.hypot(3, 4), Math.fround(5.5), Math.clz32(1), Math.sign(-3), Math.trunc(-4.7), Math.cbrt(27), Math.atan2(1, 1).toFixed(6), Math.expm1(0), Math.log2(8));',
]

SABOTAGE = r'''
(function () {
  var seen = new Set(), work = [globalThis], poison = function poison() { return "POISON" };
  var gopn = Object.getOwnPropertyNames, gops = Object.getOwnPropertySymbols, gopd = Object.getOwnPropertyDescriptor, gpo = Object.getPrototypeOf,
      defp = Object.defineProperty, freeze = Object.freeze, has = Set.prototype.has, add = Set.prototype.add, call = Function.prototype.call;
  var list = [];
  while (work.length) {
    var o = work.pop();
    if ((typeof o !== "object" && typeof o !== "function") || o === null || call.call(has, seen, o)) continue;
    call.call(add, seen, o); list[list.length] = o;
    var keys = gopn(o).concat(gops(o));
    for (var i = 0; i < keys.length; i++) {
      var d; try { d = gopd(o, keys[i]) } catch (e) { continue }
      if (!d) continue;
      if ("value" in d) work[work.length] = d.value; else { work[work.length] = d.get; work[work.length] = d.set; }
    }
    try { work[work.length] = gpo(o) } catch (e) {}
  }
  var n = 0;
  for (var j = list.length - 1; j >= 0; j--) {
    var o = list[j], keys = gopn(o).concat(gops(o));
    for (var i = 0; i < keys.length; i++) {
      var k = keys[i];
      if (o === globalThis && (k === "__emit" || k === "print" || k === "__show")) continue;
      try { defp(o, k, {value: poison, writable: false, configurable: false}); n++ } catch (e) { try { o[k] = poison } catch (e2) {} try { delete o[k] } catch (e3) {} }
    }
    try { freeze(o) } catch (e) {}
  }
  __emit("sabotaged " + (list.length > 300) + " " + (n > 1000));
})();
'''

CROSS_REALM = [
    # (setup in realm 1 defining value X, probe in realm 0 using passed value as `x`, expected printed line)
    ('var X = [1, 2];', 'print(x instanceof Array, Array.isArray(x), Object.getPrototypeOf(x) === Array.prototype, x.constructor === Array, x.constructor.name, x.concat([3]).length)', 'false true false false "Array" 3'),
    ('var X = function f() { return [] };', 'print(x instanceof Function, typeof x, x() instanceof Array, Array.isArray(x()), Object.getPrototypeOf(x) === Function.prototype)', 'false "function" false true false'),
    ('var X = new TypeError("t");', 'print(x instanceof Error, x instanceof TypeError, x.name, Object.prototype.toString.call(x), Object.getPrototypeOf(Object.getPrototypeOf(x)) === Error.prototype)', 'false false "TypeError" "[object Error]" false'),
    ('var X = function () { return new.target === undefined ? typeof Reflect : 0 };', 'print(x(), new x.constructor("return typeof globalThis.marker")())', '"object" "undefined"'),
    ('var X = {get a() { return Object.prototype.marker2 }};', 'Object.prototype.marker2 = 7; print(x.a, ({}).marker2)', 'undefined 7'),
    ('var X = Symbol.for("shared"), Y = Symbol.iterator;', 'print(x === Symbol.for("shared"))', 'true'),
    ('var X = new Map([[1, 2]]);', 'print(x instanceof Map, Map.prototype.get.call(x, 1), Object.prototype.toString.call(x))', 'false 2 "[object Map]"'),
    ('var X = Promise.resolve(5);', 'print(x instanceof Promise, typeof x.then); Promise.resolve(x).then(v => print("v", v)); print(Promise.resolve(x) === x)', None),
    ('var X = (function () { return arguments })(1, 2);', 'print(Object.prototype.toString.call(x), x.length, Array.prototype.slice.call(x).join())', '"[object Arguments]" 2 "1,2"'),
    ('var X = class K { static s = 1; m() { return this instanceof K } };', 'print(typeof x, new x().m(), new x() instanceof Object, Object.getPrototypeOf(x) === Function.prototype)', '"function" true false false'),
    ('var X = function () { "use strict"; try { undefinedVar } catch (e) { return e } }();', 'print(x instanceof ReferenceError, x.name, x.constructor === ReferenceError)', 'false "ReferenceError" false'),
    ('var X = function (f) { try { f() } catch (e) { return e instanceof TypeError } };', 'print(x(function () { null.p }))', 'false'),
]


# Cross-realm CALLS: code of realm 0 calls / constructs / reads something that belongs to realm 1 and that returns or throws; the realm-
# sensitive observations of realm 0 (global lookup, intrinsics of fresh literals, class of its own errors, realm-1-only globals) must be the
# same before the call, inside the catch block, after it in the same frame, after the frame returned, and in the next script of realm 0.
XCALL_SETUP = ('var who = "B", other1 = 1; Array.prototype.sab = "byB"; Object.prototype.sabo = "byB";\n'
               'var X = {G: globalThis, thrower: function () { throw new TypeError("t1") }, returner: function () { return [1] }, '
               'acc: {get g() { throw 1 }, get h() { return 2 }}, bound: JSON.parse.bind(null, "{"), boundok: JSON.parse.bind(null, "1"), '
               'gen: function* () { yield 1 }, afn: async function () { throw 2 }, call: function (f) { return f() } };')
XCALL_PRE = ('var who = "A", G0 = globalThis;\n'
             'function OBS() { var r = []; try { r.push(who) } catch (e) { r.push("!" + e.name) } r.push([] instanceof Array, [].sab, ({}).sabo, Object.getPrototypeOf(function () {}) === Function.prototype, '
             'Object.getPrototypeOf({}) === Object.prototype, globalThis === G0, typeof other1, Object.getPrototypeOf(/r/) === RegExp.prototype, Object.getPrototypeOf(`t`.constructor) === Function.prototype); '
             'try { null.p } catch (e) { r.push(e instanceof TypeError) } try { undefinedName } catch (e) { r.push(e instanceof ReferenceError) } return r.join() }\n'
             'function F0T() { throw new Error("f0") } function F0R() { return 1 }\n')
XCALLS = [
    ("json-parse", 'x.G.JSON.parse("{")', 'x.G.JSON.parse("1")'),
    ("array-ctor", 'new x.G.Array(-1)', 'new x.G.Array(2)'),
    ("map-callback", 'x.G.Array.prototype.map.call([1], F0T)', 'x.G.Array.prototype.map.call([1], F0R)'),
    ("reflect-apply", 'x.G.Reflect.apply(F0T, null, [])', 'x.G.Reflect.apply(F0R, null, [])'),
    ("define-property", 'x.G.Object.defineProperty(1, "a", {})', 'x.G.Object.defineProperty({}, "a", {})'),
    ("closure", 'x.thrower()', 'x.returner()'),
    ("closure-calls-back", 'x.call(F0T)', 'x.call(F0R)'),
    ("getter", 'x.acc.g', 'x.acc.h'),
    ("proxy", 'new x.G.Proxy({}, {get() { throw 1 }}).p', 'new x.G.Proxy({}, {get() { return 1 }}).p'),
    ("indirect-eval", 'x.G.eval("throw 1")', 'x.G.eval("1")'),
    ("function-ctor", 'new x.G.Function("throw 1")()', 'new x.G.Function("return 1")()'),
    ("symbol-tostring", 'x.G.Symbol.prototype.toString.call(1)', 'x.G.String(x.G.Symbol("s"))'),
    ("bound-native", 'x.bound()', 'x.boundok()'),
    ("generator", 'x.gen().throw(1)', 'x.gen().next()'),
    ("bigint", 'x.G.BigInt("x")', 'x.G.BigInt("1")'),
    ("map-ctor", 'x.G.Map()', 'new x.G.Map()'),
    ("construct", 'x.G.Reflect.construct(x.G.Map, [5])', 'x.G.Reflect.construct(x.G.Map, [])'),
    ("array-from", 'x.G.Array.from({length: 1}, F0T)', 'x.G.Array.from({length: 1}, F0R)'),
    ("to-primitive", 'x.G.Number({valueOf: F0T})', 'x.G.Number({valueOf: F0R})'),
    ("regexp", 'new x.G.RegExp("(")', 'new x.G.RegExp("a").exec("a")'),
    ("sort-compare", 'x.G.Array.prototype.sort.call([2, 1], F0T)', 'x.G.Array.prototype.sort.call([2, 1], F0R)'),
    ("json-stringify", 'x.G.JSON.stringify({toJSON: F0T})', 'x.G.JSON.stringify({toJSON: F0R})'),
    ("async-fn", 'x.afn().then(F0R, F0R), x.G.Promise.reject(1).then(F0R).catch(F0R), null.q', 'x.afn().then(F0R, F0R), x.G.Promise.resolve(1).then(F0R)'),
]
XFRAMES = [
    ("script", 'BODY'),
    ("function", '(function () { BODY })();'),
    ("callback", '[0].forEach(function () { BODY });'),
    ("generator", '(function* () { BODY yield 1; })().next();'),
    ("class-static", 'class K { static { BODY } }'),
]
XCALL_OK = "A,true,,,true,true,true,undefined,true,true,true,true"


def xcall_programs():
    out = []
    for cname, thr, ret in XCALLS:
        for kind, call in (("throws", thr), ("returns", ret)):
            for fname, frame in XFRAMES:
                body = ('var o1 = OBS(), oc = o1, res; try { res = "ret " + typeof (' + call + ') } catch (e) { oc = OBS(); res = "thr " + (e && e.name) } var o2 = OBS(); '
                        'var o3 = (function () { return OBS() })(); __emit([o1 === oc, o1 === o2, o1 === o3, o1].join("|")); __emit(res);')
                out.append((cname + "/" + kind + "/" + fname, XCALL_PRE + frame.replace("BODY", body) + '\n__emit("end|" + OBS());'))
    return out


def pool(tier):
    n = 40 if tier == "quick" else 400
    fams = [F.ctl_family(3, ("fn",)), F.gen_family("quick"), F.pair_family("quick"), F.class_family("quick"), F.destr_family("quick"),
            F.scope_family("quick"), F.op_family("quick")]
    per = max(1, (n - len(ORDER_HEAVY)) // len(fams))
    out = list(ORDER_HEAVY)
    for f in fams:
        step = max(1, len(f) // per)
        out += f[::step][:per]
    return list(dict.fromkeys(out))


def run_sequences(seqs, binary=None):
    """Each sequence of jobs runs in ONE worker process, in order."""
    env = dict(os.environ)
    with ThreadPoolExecutor(max_workers=core.NPROC) as ex:
        return list(ex.map(lambda s: core._run_chunk(binary or core.VRUN, s, env), seqs))


def run(chk):
    tier = chk.tier
    P = pool(tier)
    churn = [{"src": "1"} for _ in range(100)]
    gcprog = {"src": 'var junk = []; for (var i = 0; i < 3000; i++) { junk.push({i, s: "x" + i, f: () => i}); if (i % 1000 == 0) __gc(); } junk = null; __gc(); __gc(); print("gc done")'}
    intern = {"src": 'var o = {}; for (var i = 0; i < 100000; i++) o["prop_" + i] = i; print(Object.keys(o).length)'}
    sab = {"src": SABOTAGE}
    base_jobs = [{"i": i, "src": p} for i, p in enumerate(P)]
    # reference: each P first in its own fresh process
    ref = run_sequences([[j] for j in base_jobs])
    ref = [r[0] for r in ref]
    histories = {
        "second-process": lambda j, i: [j],
        "after-itself": lambda j, i: [j, j],
        "after-others": lambda j, i: [dict(base_jobs[(i + k) % len(P)]) for k in (1, 2, 3, 5, 8)] + [j],
        "after-reverse-pool-slice": lambda j, i: [dict(base_jobs[(i - k) % len(P)]) for k in (1, 2, 3)] + [j],
        "after-sabotage-context": lambda j, i: [sab, j],
        "after-churn-100-contexts": lambda j, i: churn + [j],
        "after-gc-heavy": lambda j, i: [gcprog, j],
        "after-100k-interned": lambda j, i: [intern, j],
        "after-sabotage-and-gc": lambda j, i: [sab, gcprog, j],
    }
    outcomes = set(core.sha12(core.trace_of(r)) for r in ref)
    nontrivial = sum(1 for r in ref if r.get("lines"))
    bad = []
    execs = len(P)
    comparisons = 0
    for hname, mk in histories.items():
        seqs = [mk(dict(j), i) for i, j in enumerate(base_jobs)]
        res = run_sequences(seqs)
        for i, (seq, rs) in enumerate(zip(seqs, res)):
            execs += len(rs)
            t = core.trace_of(rs[-1])
            comparisons += 1
            if t != core.trace_of(ref[i]):
                bad.append((hname, P[i], core.trace_of(ref[i]), t, seq))
            if hname == "after-itself" and core.trace_of(rs[0]) != core.trace_of(rs[1]):
                bad.append((hname + "/first-vs-second", P[i], core.trace_of(rs[0]), core.trace_of(rs[1]), seq))
        chk.part(hname, sequences=len(seqs))
    # realms: P in realm 0 of a context whose realm 1 was sabotaged (before and after), and P in a fresh realm 1
    rj = []
    for i, p in enumerate(P):
        rj.append({"i": i, "kind": "realms", "steps": [{"realm": 1, "src": SABOTAGE}, {"realm": 0, "src": p}]})
    rres = core.run_jobs(rj)
    for i, (p, r) in enumerate(zip(P, rres)):
        execs += 2
        comparisons += 1
        st = r.get("steps", [])
        if len(st) < 2 or st[0].get("lines") != ["sabotaged true true"]:
            bad.append(("realm-sabotage-did-not-run", p, ["sabotaged true true"], st[0] if st else None, rj[i]))
            continue
        t = core.trace_of(st[1])
        if t != core.trace_of(ref[i]):
            bad.append(("after-sabotaged-realm-in-same-context", p, core.trace_of(ref[i]), t, rj[i]))
    rj2 = [{"i": i, "kind": "realms", "steps": [{"realm": 0, "src": SABOTAGE}, {"realm": 1, "src": p}]} for i, p in enumerate(P)]
    rres2 = core.run_jobs(rj2)
    for i, (p, r) in enumerate(zip(P, rres2)):
        execs += 2
        comparisons += 1
        st = r.get("steps", [])
        t = core.trace_of(st[1]) if len(st) > 1 else None
        if t != core.trace_of(ref[i]):
            bad.append(("fresh-realm-after-default-realm-sabotaged", p, core.trace_of(ref[i]), t, rj2[i]))
    chk.part("realms", sequences=2 * len(P))
    # cross-realm objects keep their own realm's intrinsics
    xj = [{"i": i, "kind": "realms", "steps": [{"realm": 1, "src": s}, {"pass": {"from": 1, "name": "X", "to": 0, "as": "x"}}, {"realm": 0, "src": pr}]}
          for i, (s, pr, _) in enumerate(CROSS_REALM)]
    xres = core.run_jobs(xj)
    for (s, pr, exp), j, r in zip(CROSS_REALM, xj, xres):
        execs += 2
        st = r.get("steps", [])
        got = st[2].get("lines") if len(st) > 2 else None
        if exp is None:
            exp_lines = ['false "function"', 'false', '"v" 5']
        else:
            exp_lines = [exp]
        comparisons += 1
        if got != exp_lines:
            bad.append(("cross-realm-intrinsics", s + " || " + pr, exp_lines, got, j))
    chk.part("cross-realm", probes=len(CROSS_REALM))
    # cross-realm calls that return or throw leave the caller's realm in place
    xc = xcall_programs()
    cj = [{"i": i, "kind": "realms", "steps": [{"realm": 1, "src": XCALL_SETUP}, {"pass": {"from": 1, "name": "X", "to": 0, "as": "x"}}, {"realm": 0, "src": src},
                                               {"realm": 0, "src": '__emit("next|" + OBS())'}, {"realm": 1, "src": '__emit("r1|" + who + "|" + [].sab)'}]}
          for i, (_, src) in enumerate(xc)]
    cres = core.run_jobs(cj)
    threw = 0
    for (name, src), j, r in zip(xc, cj, cres):
        execs += 4
        comparisons += 1
        st = r.get("steps", [])
        got = [(st[k].get("lines") or [None]) if len(st) > k else [None] for k in (2, 3, 4)]
        want0 = "true|true|true|" + XCALL_OK
        ok = (len(got[0]) == 3 and got[0][0] == want0 and got[0][2] == "end|" + XCALL_OK and got[1] == ["next|" + XCALL_OK] and got[2] == ["r1|B|byB"]
              and got[0][1].startswith("thr " if "/throws/" in name else "ret "))
        threw += 1 if len(got[0]) > 1 and str(got[0][1]).startswith("thr ") else 0
        if not ok:
            bad.append(("cross-realm-call " + name, src, [[want0, "thr .../ret ...", "end|" + XCALL_OK], ["next|" + XCALL_OK], ["r1|B|byB"]], got, j))
    chk.part("cross-realm-calls", programs=len(xc), callees=len(XCALLS), frames=len(XFRAMES), calls_that_threw=threw)
    for hname, p, exp, t, rep in bad:
        chk.violation({"history": hname, "src": p}, t, f"[{hname}] trace of `{p[-120:]}` differs: expected {str(exp)[:120]} observed {str(t)[:120]}",
                      replay={"history": hname, "jobs": rep}, expected=exp)
    chk.add(evaluations=execs, states=len(P) * (len(histories) + 3) + len(CROSS_REALM) + len(xc), transitions=execs,
            traces_validated_against_impl=comparisons, distinct_nontrivial=nontrivial)
    chk.cov["distinct_outcomes"] = len(outcomes)
    chk.cov["rule"] = ("E2: pool of %d programs x %d prior histories (each history = one process, steps in order, fresh context per step) + 2 realm "
                       "histories inside one context + %d cross-realm probes + %d cross-realm calls (callee of realm 1 x throws/returns x caller frame; realm-sensitive observations before = in catch = after = after the frame = next script); states = (program, history) pairs, transitions = evaluations; "
                       "every trace compared with the trace of the same program evaluated first in a fresh process" % (len(P), len(histories), len(CROSS_REALM), len(xc)))
    chk.sample({"program": P[0]})
    chk.sample({"program": P[len(P) // 2], "history": "after-sabotage-context"})
    chk.sample({"cross_realm": CROSS_REALM[0][:2]})
    chk.assumptions += ["fixed host clock is not needed: pool programs never read the clock or Math.random",
                        "two threads in one process are not exercised (contexts are !Send; thread-local state is per thread)"]


def replay(rep):
    r = rep["replay"]
    jobs = r["jobs"]
    if isinstance(jobs, dict):
        out = core.run_jobs([jobs], chunk=1)[0]
        print(out)
        return 0
    res = run_sequences([jobs])[0]
    t = core.trace_of(res[-1])
    print("history:", r["history"])
    print("expected:", rep["expected"])
    print("observed:", t)
    return 0 if t == rep["expected"] else 1
