"""C18 — JSON.parse / JSON.stringify implement exactly the JSON grammar and value mapping.

E1 (bounded-exhaustive product enumeration), every case executed on the real engine and compared with an independent
reference (vlib/c18_json.py: ECMA-404 recogniser + ECMAScript value mapping, transliterated SerializeJSONProperty /
QuoteJSONString / InternalizeJSONProperty over a model of JS values):

 (a) every text of <= L characters over a 33-character alphabet (structural characters, digits, letters of true/false/null and
     of the escapes, white space, U+0001, U+2028, a lone surrogate, e-acute)                       L = 4 quick / 5 thorough
 (b) every sequence of <= K tokens over 21 tokens (incl. "__proto__", "\\ud800" escape, 1e400, 1E-400, 01, 1., .5, NaN);
     every accepted text is also parsed with three revivers (identity / deleting / sibling-replacing) that log
     (key, value, holder); the third argument (context.source) is logged and only counted as information: it is
     not part of the property                                                                      K = 4 quick / 6 thorough
 (c) nesting depth 1..2000 of `[` and `{"a":` through parse and stringify (no crash; correct up to depth 64); quick: every depth
     up to 160, then a grid of 27 depths up to 2000
 (d) every JSON value of <= N nodes over 12 scalars and 5 keys with duplicate keys, as text: parse, stringify, re-parse,
     re-stringify, three revivers; plus 12 hand-written deeper texts                                  N = 3 quick / 4 thorough
 (e) stringify: those values (built by JS literals) x 3 replacers x 6 indents (3 indents for the largest layer of the tier),
     and 34 special inputs
     x 3 replacers x 18 indents
 (g) every UTF-16 code unit: raw inside a string, as white space, after a backslash, as \\uXXXX (both hex cases), through
     QuoteJSONString; all strings of <= 3 units over {A, D800, DBFF, DC00, DFFF, 2028} through stringify and back

The text reaches JSON.parse unmodified: the driver builds it from code units inside the engine.
"""
import hashlib, json, multiprocessing, os, resource, subprocess, time
from concurrent.futures import ThreadPoolExecutor
from .. import core
from .. import c18_json as J
from .. import c18_cases as C

PACKAGES = ("vrun",)
TIERS = {"quick": {"L": 4, "K": 4, "DN": 3, "EN": 3}, "thorough": {"L": 5, "K": 6, "DN": 4, "EN": 4}}
DEPTH_MAX = 2000
DEPTH_MUST = 64  # nesting up to here must work; beyond it a JS exception / runtime limit is tolerated, a crash never
CFG = {"loop": None}
NODE = os.environ.get("C18_ENGINE", "") == "node"  # authoring time only: cross-validate the reference against V8
XCHECK_FILE = os.path.join(core.ROOT, "oracle", "c18_model_xcheck.json")


# ------------------------------------------------------------------------------------------------
# execution
# ------------------------------------------------------------------------------------------------
def _node_chunk(args):
    n, jobs = args
    d = os.path.join(core.OUT, "c18", "node")
    os.makedirs(d, exist_ok=True)
    inp, outp = os.path.join(d, "in%d_%d.jsonl" % (os.getpid(), n)), os.path.join(d, "out%d_%d.jsonl" % (os.getpid(), n))
    with open(inp, "w") as f:
        for j in jobs:
            f.write(json.dumps(j) + "\n")
    subprocess.run(["node", "--harmony-json-parse-with-source", "--stack-size=4000", os.path.join(core.ROOT, "oracle", "c18_node_runner.js"), inp, outp],
                   check=True)
    res = [json.loads(l) for l in open(outp) if l.strip()]
    os.unlink(inp)
    os.unlink(outp)
    return res


ENV = {"VERIF_CASE_CAP_MS": "240000"}


def engine_run(descs, drv):
    """Results in descriptor order.  On the engine, consecutive descriptors share one context (a `hist` job: the driver is
    evaluated once, then one step per descriptor); a group that does not complete is re-run one descriptor per fresh context."""
    if NODE:
        jobs = [{"i": n, "src": C.source(d, drv)} for n, d in enumerate(descs)]
        per = max(1, (len(jobs) + 15) // 16)
        chunks = [(n, jobs[i:i + per]) for n, i in enumerate(range(0, len(jobs), per))]
        with ThreadPoolExecutor(max_workers=16) as ex:
            parts = list(ex.map(_node_chunk, chunks))
        return [r for p in parts for r in p]
    G = max(1, min(16, -(-len(descs) // (core.NPROC * 2))))
    groups = [descs[i:i + G] for i in range(0, len(descs), G)]
    jobs = [{"i": n, "hist": [C.source(g[0], drv).rsplit("run", 1)[0]] + [C.source(d, "") for d in g], "cfg": CFG} for n, g in enumerate(groups)]
    res = core.run_jobs(jobs, chunk=1, env_extra=ENV)
    out, redo = [], []
    for g, r in zip(groups, res):
        steps = r.get("steps")
        if steps is None or len(steps) != len(g) + 1 or any(core.is_bad(x.get("completion")) for x in steps):
            redo += list(range(len(out), len(out) + len(g)))
            out += [None] * len(g)
        else:
            out += steps[1:]
    if redo:
        rr = core.run_jobs([{"i": n, "src": C.source(descs[i], drv), "cfg": CFG} for n, i in enumerate(redo)], chunk=1, env_extra=ENV)
        for i, r in zip(redo, rr):
            out[i] = r
    return out


def _pyjson_disagreements(args):
    """Run-time cross-check of the recogniser against Python's json module (accept/reject and value) on a range."""
    fam, l, lo, hi = args

    def bad(x):
        raise ValueError(x)

    def conv(v):
        if isinstance(v, list):
            return J.mk_array([conv(x) for x in v])
        if isinstance(v, J.Obj):
            for p in v.props:
                p.value = conv(p.value)
            return v
        return v

    n = 0
    for i in range(lo, hi):
        t = C.gen_text(fam, l, i)
        try:
            a = J.dump(J.parse(t))
        except J.Reject:
            a = "REJ"
        try:
            b = J.dump(conv(json.loads(t, object_pairs_hook=J.mk_object, parse_constant=bad, parse_int=float)))
        except (ValueError, RecursionError):
            b = "REJ"
        if a != b:
            n += 1
    return (hi - lo, n)


# ------------------------------------------------------------------------------------------------
# comparison
# ------------------------------------------------------------------------------------------------
def _split(line):
    """'TAG idx payload' -> (tag, idx, payload); E lines: ('E', vi, 'ri ii', payload)"""
    p = line.split(" ", 2)
    if p[0] == "N":
        return ("N", -1, p[1])
    if p[0] == "E":
        q = line.split(" ", 4)
        return ("E %s %s" % (q[2], q[3]), int(q[1]), q[4])
    return (p[0], int(p[1]), p[2] if len(p) > 2 else "")


def _groups(lines):
    g = {}
    for l in lines:
        try:
            tag, idx, payload = _split(l)
        except Exception:
            tag, idx, payload = ("?", -2, l)
        g.setdefault(idx, []).append((tag, payload))
    return g


def _outcome(group, absent):
    for tag, payload in group or []:
        if tag == "A":
            return "A " + payload
        if tag == "X":
            return "err " + payload
    return absent


def _has_lone_raw(t):
    n = len(t)
    for i, ch in enumerate(t):
        c = ord(ch)
        if 0xD800 <= c <= 0xDBFF:
            if not (i + 1 < n and 0xDC00 <= ord(t[i + 1]) <= 0xDFFF):
                return True
        elif 0xDC00 <= c <= 0xDFFF:
            if not (i > 0 and 0xD800 <= ord(t[i - 1]) <= 0xDBFF):
                return True
    return False


def classify_parse(text, obs, exp):
    """diagnostic label only (never decides a verdict)"""
    if exp.startswith("A ") and obs == "err SyntaxError":
        if _has_lone_raw(text):
            return "parse-lone-surrogate-raw"
        low = text.lower()
        i = low.find("\\ud")
        while i >= 0:
            if low[i + 3:i + 4] in tuple("89abcdef"):
                return "parse-surrogate-escape"
            i = low.find("\\ud", i + 1)
        if "n7ff0000000000000" in exp or "nfff0000000000000" in exp:
            return "parse-number-overflow"
        return "parse-rejects-valid"
    if exp == "err SyntaxError" and obs.startswith("A "):
        return "parse-accepts-invalid"
    if exp.startswith("A ") and obs.startswith("A "):
        return "parse-wrong-value"
    return "parse-other"


class State:
    def __init__(self, chk, drv, src_ctx):
        self.chk, self.drv, self.src_ctx = chk, drv, src_ctx
        self.parts = {}
        self.outcomes = set()
        self.pending = []  # (case, observed, what, replay_desc, expected)
        self.first_depth_fail = {}
        self.accepted = 0
        self.rejected = 0
        self.nreported = 0
        self.source_diffs = 0
        self.source_compared = 0
        self.source_samples = []

    def part(self, name):
        return self.parts.setdefault(name, {"cases": 0, "engine_ops": 0, "compared": 0, "accepted": 0, "mismatching_cases": 0})

    def outcome(self, s):
        self.outcomes.add(hashlib.blake2b(s.encode("utf-8", "surrogatepass"), digest_size=8).digest())

    def report(self, case, observed, what, desc, expected):
        self.nreported += 1
        if self.chk is not None and self.chk.findings.lookup(core.sha12(case), core.sha12(observed)) is not None:
            self.chk.violation(case, observed, what)  # a listed finding: recorded at once, nothing kept
            return
        self.pending.append((case, observed, what, desc, expected))


def text_of(desc, idx):
    k = desc["k"]
    if k in ("parse", "quote"):
        return C.gen_text(desc["fam"], desc["l"], idx)
    if k == "values":
        return desc["texts"][idx - desc["base"]]
    if k == "strval":
        return desc["vals"][idx - desc["base"]][1]
    if k == "strspecial":
        return C.SPECIALS[idx][0]
    return ""


def single(desc, idx):
    """descriptor that re-executes exactly one case"""
    k = desc["k"]
    d = {"k": k, "src": desc.get("src", True)}
    if k in ("parse", "quote"):
        d.update(fam=desc["fam"], l=desc["l"], lo=idx, hi=idx + 1)
        if desc.get("rev"):
            d["rev"] = True
    elif k == "values":
        d.update(texts=[desc["texts"][idx - desc["base"]]], base=idx)
    elif k == "strval":
        d.update(vals=[desc["vals"][idx - desc["base"]]], base=idx, inds=desc.get("inds", C.INDS_MAIN))
    elif k == "strspecial":
        d.update(lo=idx, hi=idx + 1)
    elif k == "depth":
        d.update(d=desc["d"])
    return d


def compare(st, name, desc, res, exp):
    k = desc["k"]
    part = st.part(name)
    lines = res.get("lines", [])
    comp = res.get("completion")
    if k == "depth":
        return compare_depth(st, part, desc, lines, comp)
    ncases = (desc["hi"] - desc["lo"]) if "hi" in desc else len(desc.get("texts", desc.get("vals", [])))
    part["cases"] += ncases
    part["engine_ops"] += ncases if k == "parse" else 0
    part["engine_ops"] += sum(1 for l in lines if not l.startswith(("N ", "V ", "C") if k != "parse" else ("N ", "A ", "X ", "C")))
    part["compared"] += (ncases if k == "parse" else 0) + sum(1 for l in exp if not l.startswith(("N ", "A ", "C") if k == "parse" else ("N ", "C")))
    st.source_compared += sum(1 for l in exp if l.startswith("C"))
    if comp != "Value undefined":
        part["mismatching_cases"] += 1
        d = dict(desc)
        for big in ("texts", "vals"):
            if big in d:
                d[big] = core.sha12(json.dumps(d[big]))
        st.report({"op": "job", "desc": d}, comp, "[job-abnormal] driver job %s completed with %s" % (json.dumps(d)[:100], comp), desc, "Value undefined")
        return
    nacc = 0
    for l in exp:
        if l.startswith("A "):
            nacc += 1
            st.outcome(l.split(" ", 2)[2])
        elif l.startswith(("S ", "Q ")) or l.startswith("E "):
            st.outcome(_split(l)[2].split(" | ")[0])
    part["accepted"] += nacc
    if k == "parse":
        st.accepted += nacc
        st.rejected += ncases - nacc
    if lines == exp:
        return
    ge, gx = _groups(lines), _groups(exp)
    absent = "err SyntaxError" if k == "parse" else "missing"
    for idx in sorted(set(ge) | set(gx)):
        a, b = ge.get(idx), gx.get(idx)
        if a == b:
            continue
        if idx < 0:
            continue  # the N line: implied by the per-text differences
        text = text_of(desc, idx)
        # the reviver's third argument is not part of the property: differences are counted, never reported
        ca, cb = [x for x in (a or []) if x[0].startswith("C")], [x for x in (b or []) if x[0].startswith("C")]
        a, b = [x for x in (a or []) if not x[0].startswith("C")] or None, [x for x in (b or []) if not x[0].startswith("C")] or None
        if a == b or (a is not None and b is not None and _outcome(a, "") == _outcome(b, "")):
            # same parse outcome: the C lines are comparable call by call
            for (ta, va), (tb, vb) in zip(ca, cb):
                if va != vb:
                    st.source_diffs += 1
                    if len(st.source_samples) < 5:
                        st.source_samples.append({"text": J.qs(text), "reviver": ta, "observed": va[:200], "proposal": vb[:200]})
        if a == b:
            continue
        part["mismatching_cases"] += 1
        sd = single(desc, idx)
        if k in ("parse", "values"):
            oa, ob = _outcome(a, absent), _outcome(b, "err SyntaxError")
            if oa != ob:
                cls = classify_parse(text, oa, ob)
                st.report({"op": "parse", "text": J.qs(text)}, oa, "[%s] JSON.parse(%s) -> %s; expected %s" % (cls, J.qs(text), oa[:80], ob[:80]), sd, ob)
                continue
        da, db = dict(a or []), dict(b or [])
        for tag in sorted(set(da) | set(db)):
            va, vb = da.get(tag, "missing"), db.get(tag, "missing")
            if va == vb:
                continue
            if tag.startswith("R"):
                st.report({"op": "revive", "mode": tag, "text": J.qs(text)}, va,
                          "[reviver-%s] JSON.parse(%s, reviver %s) logged %s; expected %s" % (tag, J.qs(text), tag, va[:120], vb[:120]), sd, vb)
            elif k == "quote" and tag == "B" and va.startswith("err ") and db.get("Q") == da.get("Q"):
                q = J.quote_json_string(text)
                cls = classify_parse(q, va, "A " + J.qs(text))
                st.report({"op": "parse", "text": J.qs(q)}, va, "[%s] JSON.parse(%s) -> %s; expected %s" % (cls, J.qs(q), va, "A " + J.qs(text)), sd, "A " + J.qs(text))
            elif k == "quote":
                st.report({"op": "quote", "step": tag, "string": J.qs(text)}, va,
                          "[quote-%s] JSON.stringify(%s) step %s -> %s; expected %s" % (tag, J.qs(text), tag, va[:100], vb[:100]), sd, vb)
            elif k == "values":
                st.report({"op": "roundtrip", "step": tag, "text": J.qs(text)}, va,
                          "[roundtrip-%s] value text %s step %s -> %s; expected %s" % (tag, J.qs(text), tag, va[:100], vb[:100]), sd, vb)
            elif tag == "V":
                st.report({"op": "build", "input": text}, va, "[build] JS literal %s builds %s; expected %s" % (text[:80], va[:80], vb[:80]), sd, vb)
            else:
                _, ri, ii = tag.split(" ")
                st.report({"op": "stringify", "input": text, "rep": int(ri), "ind": int(ii)}, va,
                          "[stringify] JSON.stringify(%s, replacer#%s, indent#%s) -> %s; expected %s" % (text[:60], ri, ii, va[:120], vb[:120]), sd, vb)


def compare_depth(st, part, desc, lines, comp):
    d = desc["d"]
    part["cases"] += 2
    part["engine_ops"] += len(lines)
    part["compared"] += 4
    if core.is_bad(comp) or comp != "Value undefined":
        part["mismatching_cases"] += 1
        st.report({"op": "depth", "d": d}, comp, "[depth-crash] nesting depth %d: driver completed with %s" % (d, comp), desc, "Value undefined")
        return
    got = {l.split(" ", 1)[0]: l.split(" ", 1)[1] for l in lines}
    for tag in ("PA", "SA", "PO", "SO"):
        v = got.get(tag, "missing")
        st.outcome("depth " + tag + " " + v)
        if v == "ok":
            continue
        st.first_depth_fail.setdefault(tag, (d, v))
        if d <= DEPTH_MUST or not v.startswith("err "):
            part["mismatching_cases"] += 1
            st.report({"op": "depth", "d": d, "step": tag}, v, "[depth] nesting depth %d step %s -> %s; expected ok" % (d, tag, v), desc, "ok")


# ------------------------------------------------------------------------------------------------
# families
# ------------------------------------------------------------------------------------------------
def _child_cpu():
    r = resource.getrusage(resource.RUSAGE_CHILDREN)
    return r.ru_utime + r.ru_stime


def ranges(n, per):
    return [(lo, min(n, lo + per)) for lo in range(0, n, per)]


# hand-written deeper texts for the reviver / round-trip paths (both tiers; the quick value layer stops at 3 nodes)
EXTRA_TEXTS = [
    '[0,[7]]', '[0,{"a":7}]', '{"a":0,"k":[1]}', '{"a":1,"b":{"c":[2,"x"]}}', '[[1],[2,[3]]]', '{"__proto__":[0],"a":{"__proto__":1}}',
    '[0,[0,[0]]]', '{"1":{"0":[true,null]},"a":[{"a":-0}]}', '[1,[2,3],{"k":[4,{"k":5}]},"s"]', '{"a":[1,2,3],"a":[4,[5]],"b":"a"}',
    ' [ 1 , [ 2.50 , 1E2 , -0.0 , 1e-400 ] , { "k" : "\\u0041\\n" , "" : [ ] } ] ', '[[[[[[[[1]]]]]]],[[[[[[[2]]]]]]]]',
]


def depth_list_quick():
    """every depth up to 160 (covers the 64 that must work and the engine's observed cut at 128), then a coarser grid up to 2000"""
    return list(range(1, 161)) + list(range(200, 1000, 50)) + list(range(1000, DEPTH_MAX + 1, 100))


def build_families(tier, src_ctx):
    """-> list of (family name, [descriptors])"""
    T = TIERS[tier]
    fams = []
    na, nt = len(J.ALPHABET), len(J.TOKENS)
    per = 6000 if tier == "quick" else 24000
    da = []
    for l in range(0, T["L"] + 1):
        da += [{"k": "parse", "fam": "a", "l": l, "lo": lo, "hi": hi, "src": src_ctx} for lo, hi in ranges(na ** l, per)]
    fams.append(("a-chars", da))
    db = []
    for l in range(0, T["K"] + 1):
        db += [{"k": "parse", "fam": "b", "l": l, "lo": lo, "hi": hi, "rev": True, "src": src_ctx} for lo, hi in ranges(nt ** l, per)]
    fams.append(("b-tokens", db))
    depths = list(range(1, DEPTH_MAX + 1)) if tier == "thorough" else depth_list_quick()
    fams.append(("c-depth", [{"k": "depth", "d": d} for d in depths]))
    vt = J.value_texts(max(T["DN"], T["EN"]))
    dd, base = [], 0
    for n in range(T["DN"]):
        texts = [t for t, _ in vt[n]]
        for lo, hi in ranges(len(texts), 400):
            dd.append({"k": "values", "texts": texts[lo:hi], "base": base + lo, "src": src_ctx})
        base += len(texts)
    dd.append({"k": "values", "texts": list(EXTRA_TEXTS), "base": base, "src": src_ctx})
    fams.append(("d-values", dd))
    de, base = [], 0
    for n in range(T["EN"]):
        for lo, hi in ranges(len(vt[n]), 150):
            de.append({"k": "strval", "vals": vt[n][lo:hi], "base": base + lo, "inds": C.INDS_SUB if n + 1 >= T["EN"] and n >= 2 else C.INDS_MAIN})
        base += len(vt[n])
    fams.append(("e-stringify-values", de))
    fams.append(("e-stringify-specials", [{"k": "strspecial", "lo": i, "hi": i + 1} for i in range(len(C.SPECIALS))]))
    # (g) code units.  Blocks of 16 consecutive units in one string in both tiers; one text per unit for the first 256 units
    # (quick) / for every unit (thorough); upper-case hex escapes for every digit in every position (quick) / every unit (thorough)
    full = tier == "thorough"
    dg = []
    for fam in ("g1b", "g4b"):
        dg += [{"k": "parse", "fam": fam, "l": 0, "lo": lo, "hi": hi, "src": src_ctx} for lo, hi in ranges(4096, 512)]
    for fam in ("g2", "g3"):
        dg += [{"k": "parse", "fam": fam, "l": 0, "lo": lo, "hi": hi, "src": src_ctx} for lo, hi in ranges(65536, 8192)]
    if full:
        dg += [{"k": "parse", "fam": "g1", "l": 0, "lo": lo, "hi": hi, "src": src_ctx} for lo, hi in ranges(65536, 2048)]
        for l in (0, 1):
            dg += [{"k": "parse", "fam": "g4", "l": l, "lo": lo, "hi": hi, "src": src_ctx} for lo, hi in ranges(65536, 2048)]
    else:
        dg += [{"k": "parse", "fam": "g1", "l": 0, "lo": 0, "hi": 256, "src": src_ctx}, {"k": "parse", "fam": "g4", "l": 0, "lo": 0, "hi": 256, "src": src_ctx},
               {"k": "parse", "fam": "g4u", "l": 0, "lo": 0, "hi": 512, "src": src_ctx}]
    fams.append(("g-codeunits-parse", dg))
    dq = [{"k": "quote", "fam": "g5b", "l": 0, "lo": lo, "hi": hi} for lo, hi in ranges(4096, 512)]
    dq += [{"k": "quote", "fam": "g5", "l": 0, "lo": lo, "hi": hi} for lo, hi in (ranges(65536, 2048) if full else [(0, 256)])]
    dq += [{"k": "quote", "fam": "g6", "l": l, "lo": 0, "hi": 6 ** l} for l in range(0, 4)]
    fams.append(("g-codeunits-quote", dq))
    return fams


def probe_source_context():
    if NODE:
        return True
    r = core.run_jobs([{"src": C.PROBE_SRC, "cfg": CFG}], chunk=1)[0]
    return r.get("lines") == ["object/string"]


# ------------------------------------------------------------------------------------------------
def run(chk):
    tier = chk.tier
    T = TIERS[tier]
    src_ctx = probe_source_context()
    drv = C.driver(src_ctx)
    st = State(chk, drv, src_ctx)
    fams = build_families(tier, src_ctx)
    if J.PERTURB:
        chk.cov["exhaustive"] = False
        chk.cov["caps_hit"].append("reference model deliberately perturbed: C18_PERTURB=" + J.PERTURB)
    only = os.environ.get("C18_ONLY")  # debugging aid: restrict to some families (evidence then says so)
    if only:
        fams = [f for f in fams if f[0].split("-")[0] in only.split(",")]
        chk.cov["exhaustive"] = False
        chk.cov["caps_hit"].append("C18_ONLY=" + only)
    ctx = multiprocessing.get_context("fork")
    times, cpu = {}, {}
    with ctx.Pool(core.NPROC) as pool:
        # run-time cross-check of the recogniser against Python's json module on the quick-sized text space
        xr = []
        for fam, n, L in (("a", len(J.ALPHABET), min(T["L"], 4)), ("b", len(J.TOKENS), min(T["K"], 4))):
            for l in range(0, L + 1):
                xr += [(fam, l, lo, hi) for lo, hi in ranges(n ** l, 20000)]
        xcheck = pool.map_async(_pyjson_disagreements, xr, chunksize=4)
        for name, descs in fams:
            t0 = time.time()
            c0 = _child_cpu()
            block = 1024 if descs and descs[0]["k"] in ("parse", "depth", "quote") else 128
            for b in range(0, len(descs), block):
                blk = descs[b:b + block]
                ar = pool.map_async(C.expected, blk, chunksize=max(1, len(blk) // (core.NPROC * 4)))
                res = engine_run(blk, drv)
                exp = ar.get()
                for d, r, e in zip(blk, res, exp):
                    compare(st, name, d, r, e)
            times[name] = round(time.time() - t0, 1)
            cpu[name] = round(_child_cpu() - c0, 1)
        t0 = time.time()
        xc = xcheck.get()
        times["pyjson-xcheck-wait"] = round(time.time() - t0, 1)
    py_n, py_bad = sum(a for a, _ in xc), sum(b for _, b in xc)
    if py_bad and not J.PERTURB:  # (a deliberately perturbed model is allowed to disagree: sensitivity demonstration)
        raise core.MachineryError("the reference recogniser disagrees with Python's json module on %d texts" % py_bad)

    # verdicts: confirm what is not already known, then report
    todo = []
    for case, observed, what, desc, expected in st.pending:
        if chk.findings.lookup(core.sha12(case), core.sha12(observed)) is None and len(todo) < 48:
            todo.append(desc)
    t0 = time.time()
    if todo and not NODE:
        jobs = [{"i": n, "src": C.source(d, drv), "cfg": CFG} for n, d in enumerate(todo)]
        first = core.run_jobs(jobs, chunk=1)
        core.confirm(list(zip(jobs, first)))
    dump_to = os.environ.get("C18_TRIAGE_OUT")  # maintenance: write candidate known-list lines instead of replay files; never a verdict
    if dump_to:
        with open(dump_to, "w") as f:
            for case, observed, what, desc, expected in st.pending:
                f.write("TRIAGE %s %s %s\n" % (core.sha12(case), core.sha12(observed), what[:120]))
        raise core.MachineryError("maintenance mode: %d candidate lines written to %s; this run is not a verdict" % (len(st.pending), dump_to))
    for case, observed, what, desc, expected in st.pending:
        chk.violation(case, observed, what, replay={"desc": desc, "src_ctx": src_ctx}, expected=expected)
    times["confirm+report"] = round(time.time() - t0, 1)
    chk.cov["wall_by_phase_s"] = times
    chk.cov["engine_cpu_by_family_s"] = cpu

    tot = {"cases": 0, "engine_ops": 0, "compared": 0}
    for name, p in st.parts.items():
        chk.part(name, wall_s=times.get(name), **p)
        for key in tot:
            tot[key] += p[key]
    chk.add(evaluations=tot["engine_ops"], states=tot["cases"], transitions=tot["engine_ops"], traces_validated_against_impl=tot["compared"],
            distinct_nontrivial=sum(p["accepted"] for p in st.parts.values()))
    chk.cov["distinct_outcomes"] = len(st.outcomes) + 1
    chk.cov["parse_texts"] = {"accepted_by_reference": st.accepted, "rejected_by_reference": st.rejected}
    chk.cov["context_source_probe"] = src_ctx
    # informational only (JSON.parse source text access proposal; not part of C18): reviver calls whose context.source differs from the proposal's
    chk.cov["source_arg_differences"] = {"reviver_runs_compared": st.source_compared, "runs_differing": st.source_diffs, "samples": st.source_samples}
    chk.cov["depth"] = {"max": DEPTH_MAX, "must_work_up_to": DEPTH_MUST,
                        "first_non_ok": {k: {"depth": v[0], "observed": v[1]} for k, v in sorted(st.first_depth_fail.items())}}
    chk.cov["bounds"] = dict(T, alphabet=len(J.ALPHABET), tokens=len(J.TOKENS), scalars=len(J.SCALARS), keys=len(J.KEYS), specials=len(C.SPECIALS))
    xfile = json.load(open(XCHECK_FILE)) if os.path.exists(XCHECK_FILE) else None
    chk.cov["model_cross_validated_on"] = {"python_json_module_this_run": {"texts": py_n, "disagreements": py_bad}, "v8_at_authoring_time": xfile}
    chk.cov["rule"] = (
        "E1: states = enumerated inputs per family (texts of (a) are distinct by construction, token strings of (b) are uniquely decodable; the families "
        "overlap in a handful of texts and are counted per family); transitions = JSON.parse / JSON.stringify executions on the real engine; "
        "traces_validated = outcomes (accept+value / reject, stringify output + side-effect log, reviver log) compared with the reference model; "
        "distinct_nontrivial = inputs accepted by the reference; distinct_outcomes = distinct value dumps / output strings / error kinds")
    mism = sum(p["mismatching_cases"] for p in st.parts.values())
    chk.cov["mismatching_cases"] = mism
    chk.sample({"family": "a", "text": J.qs(C.gen_text("a", 3, 12345)), "reference": _ref_outcome(C.gen_text("a", 3, 12345))})
    chk.sample({"family": "b", "text": J.qs(C.gen_text("b", 3, 2 * 441 + 10 * 21 + 3)), "reference": _ref_outcome(C.gen_text("b", 3, 2 * 441 + 10 * 21 + 3))})
    chk.sample({"family": "b", "text": J.qs("[1e400]"), "reference": _ref_outcome("[1e400]")})
    chk.sample({"family": "d", "text": '{"__proto__":0,"a":-0,"__proto__":[]}', "reference": _ref_outcome('{"__proto__":0,"a":-0,"__proto__":[]}')})
    chk.sample({"family": "e", "input": C.SPECIALS[6][0], "expected_lines": C.exp_stringify_model(C.SPECIALS[6][3], 6, False, [0, 2])[:3]})
    chk.assumptions += [
        "the reference (vlib/c18_json.py) is the specification: ECMA-404 grammar, correctly rounded decimal->double via Python float(), ES2024 "
        "JSON.stringify incl. well-formed escaping, InternalizeJSONProperty (reviver walk: key, value, holder). The reviver's third argument "
        "(context.source, JSON.parse-source-text proposal) is outside the property: it is logged and only counted in source_arg_differences",
        "nesting deeper than %d may be refused with a JS exception or runtime limit (never a crash); the first refusing depth is recorded" % DEPTH_MUST,
        "texts longer than the bounds, other alphabets, JSON.rawJSON/isRawJSON, revivers that throw, replacers that mutate are not decided",
        "the dump uses DataView/Reflect/Object.getOwnPropertyDescriptor of the engine under test as observers",
    ]
    if NODE:
        os.makedirs(os.path.dirname(XCHECK_FILE), exist_ok=True)
        json.dump({"engine": subprocess.run(["node", "-p", "process.version+' V8 '+process.versions.v8"], stdout=subprocess.PIPE, text=True).stdout.strip(),
                   "flags": "--harmony-json-parse-with-source", "tier": tier, "bounds": chk.cov["bounds"], "cases": tot["cases"], "engine_ops": tot["engine_ops"],
                   "comparisons": tot["compared"], "disagreements": st.nreported, "disagreement_samples": [p[2][:200] for p in st.pending[:20]],
                   "parts": st.parts}, open(XCHECK_FILE, "w"), indent=1)


def _ref_outcome(t):
    try:
        return "A " + J.dump(J.parse(t))
    except J.Reject as e:
        return "reject (%s)" % e


def replay(rep):
    desc = rep["replay"]["desc"]
    src_ctx = rep["replay"].get("src_ctx", True)
    drv = C.driver(src_ctx)
    r = core.run_jobs([{"src": C.source(desc, drv), "cfg": CFG}], chunk=1)[0]
    print("case:", json.dumps(rep["case"]))
    if desc["k"] == "depth":
        st = State(None, drv, src_ctx)
        compare_depth(st, st.part("replay"), desc, r.get("lines", []), r.get("completion"))
        print("observed:", r.get("lines"), r.get("completion"))
        print("violations:", [p[2] for p in st.pending])
        return 1 if st.pending else 0
    exp = C.expected(desc)
    first = desc.get("lo", desc.get("base", 0))
    print("input:", J.qs(text_of(desc, first)), "(the engine driver builds it from code units)" if desc["k"] in ("parse", "quote") else "")
    print("expected (reference):")
    for l in exp:
        print("   ", l)
    print("observed (%s):" % r.get("completion"))
    for l in r.get("lines", []):
        print("   ", l)
    return 0 if (r.get("lines") == exp and r.get("completion") == "Value undefined") else 1
