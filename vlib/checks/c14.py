"""C14 — array behaviour is independent of the internal element storage.

E2 (explicit-state search over operation histories, merged on (logical dump, storage kind)).  Seeds, operations and the
JavaScript driver are in vlib/c14_kit.py, the search in vlib/c14_explore.py.  Every transition is executed on the real
engine three times (real array, array behind a forwarding Proxy, plain array-like twin built from the array's own
descriptors) in generic `vrun` hist jobs; `__storage(arr)` labels the storage form.

Oracles
 (a) storage independence: all expanded states with the same logical dump (whatever their storage form / history) must
     give the same observation (logged callback/getter calls, result or error, new dump) for every operation;
 (b) generic twin: the observation through `new Proxy(arr, {})` equals the direct one for every operation; the
     observation on the plain array-like twin equals it for every operation whose spec algorithm is generic and does not
     involve the exotic length coupling (flag `tw` of the operation, see c14_kit.py);
 (c) V8 golden: oracle/c14-states.golden.gz maps (logical dump, operation) to V8's observation (V8 11.3 explored the same
     space at authoring time, `python3 -m vlib.checks.c14 gen`); V8 deviations from the specification are corrected by
     oracle/c14-overrides.jsonl (each entry names the spec clause).
 (d) warm inline cache: every seed x operation once more with inline caches ON must equal the run with caches OFF
     (the main search runs with caches off, see c14_explore.CFG).

Authoring: `python3 -m vlib.checks.c14 gen [quick|thorough]` regenerates the golden table and the override list with node;
`python3 -m vlib.checks.c14 sens` runs the sensitivity experiments (perturbed dumps) and writes oracle/c14-sensitivity.json.
"""
import json, os, sys, time
import re as _re
from .. import core, golden
from .. import c14_kit as K
from .. import c14_explore as E

PACKAGES = ("vrun",)
TABLE = "c14-states"
OVERRIDES = os.path.join(golden.ORACLE, "c14-overrides.jsonl")
ALL = list(range(len(K.OPS)))
CORE = [i for i, o in enumerate(K.OPS) if o["core"]]
QUICK = [i for i, o in enumerate(K.OPS) if o["q"]]
TIERS = {
    # depth = number of operations in a history; expand[L] = operations whose target states are expanded at level L+1
    "quick": {"depth": 2, "expand": [QUICK]},
    "thorough": {"depth": 3, "expand": [ALL, CORE]},
}


def skey(dump):
    return core.sha12("C14|" + dump)


def meta():
    return {"kit": E.KIT_HASH, "ops": K.OPNAME, "seeds": [s[0] for s in K.SEEDS]}


def load_overrides():
    o = {}
    if os.path.exists(OVERRIDES):
        for l in open(OVERRIDES):
            if l.strip() and not l.startswith("#"):
                j = json.loads(l)
                o[(skey(j["dump"]), j["op"])] = j
    return o


# ---------------------------------------------------------------------------------------------------------------
# the core of the check (also used by the authoring commands)
# ---------------------------------------------------------------------------------------------------------------
class Collector:
    def __init__(self, table, overrides):
        self.table, self.over = table, overrides
        self.groups = {}         # (pre dump, k) -> (encoded obs, s, h, storage)
        self.a_cmp = self.b_px = self.b_tw = self.b_tw_skipped = self.c_cmp = self.c_missing = self.c_over = 0
        self.bad = []            # (class, Transition, expected, info)
        self.outcomes = set()
        self.nontrivial = 0
        self.sto_trans = {}      # "A->B" -> count
        self.per_op = {}
        self.multi_cmp_groups = set()

    def __call__(self, t, lvl):
        pre = t.pre[0]
        enc = E.encode_obs(t.obs, pre)
        self.outcomes.add(core.sha12(enc))
        if not enc.endswith("D ="):
            self.nontrivial += 1
        if t.comp != "Value undefined":
            self.bad.append(("crash", t, "Value undefined", t.comp))
            return
        po = self.per_op.setdefault(K.OPNAME[t.k], [0, 0, 0])
        po[0] += 1
        if t.sto:
            key = "%s->%s" % (t.pre[1], t.sto)
            self.sto_trans[key] = self.sto_trans.get(key, 0) + 1
        # (b)
        self.b_px += 1
        if t.px != "P=":
            self.bad.append(("proxy", t, enc, t.px))
        if t.tw == "T-":
            self.b_tw_skipped += 1
        else:
            self.b_tw += 1
            po[1] += 1
            if t.tw != "T=":
                self.bad.append(("twin", t, enc, t.tw))
        # (c)
        if self.table is not None:
            row = self.table.get(skey(pre))
            ov = self.over.get((skey(pre), K.OPNAME[t.k]))
            if ov is not None:
                exp = ov["expected"]
                self.c_over += 1
            elif row is None or row[t.k] is None:
                exp = None
            else:
                exp = row[t.k]
            if exp is None:
                self.c_missing += 1
            else:
                self.c_cmp += 1
                if exp != enc:
                    self.bad.append(("golden", t, exp, None))
                else:
                    enc = exp      # share the table's string object (memory of the groups map)
        # (a)
        g = self.groups.get((pre, t.k))
        if g is None:
            self.groups[(pre, t.k)] = (enc, t.s, t.h, t.pre[1])
        else:
            self.a_cmp += 1
            po[2] += 1
            if g[3] != t.pre[1]:
                self.multi_cmp_groups.add(pre)
            if g[0] != enc:
                self.bad.append(("storage", t, g[0], g))


def explore_boa(tier, table, overrides, progress=None):
    cfg = TIERS[tier]
    col = Collector(table, overrides)
    r = E.explore(cfg["depth"], cfg["expand"], E.boa_runner, col, progress=progress)
    return col, r


def warm_ic_jobs(seedinfo, cfg):
    jobs, plans = [], []
    for s, d, sto in seedinfo:
        ops = E.applicable(d, ALL)
        steps = ["T(%d,[],%d)" % (s, k) for k in ops]
        # two rounds in one context: in the second round the code of the seed AND of the operation has run before
        jobs.append({"hist": [E.KIT, "Z(%d,[])" % s] + steps + ["Z(%d,[])" % s] + steps, "cfg": dict(cfg)})
        plans.append((s, ops))
    return jobs, plans


def warm_ic_family(seedinfo):
    """(d): every seed (unmerged) x every operation, two rounds in one context, with inline caches off and on.
    Returns list of (seed, op or None for the Z step, round, observation off, observation on)."""
    joff, plans = warm_ic_jobs(seedinfo, {"mode": "I"})
    jon, _ = warm_ic_jobs(seedinfo, {})
    roff, ron = E.boa_runner(joff), E.boa_runner(jon)
    out = []
    for (s, ops), a, b in zip(plans, roff, ron):
        sa, sb = a.get("steps", []), b.get("steps", [])
        n = 1 + 2 * (len(ops) + 1)
        if len(sa) != n or len(sb) != n:
            raise core.MachineryError("warm-IC family: seed %s produced %d/%d of %d steps: %s" % (K.SEEDS[s][0], len(sa), len(sb), n, str((sb or sa)[-1:])[:300]))
        labels = []
        for rnd in (1, 2):
            labels += [(None, rnd)] + [(k, rnd) for k in ops]
        for (k, rnd), x, y in zip(labels, sa[1:], sb[1:]):
            ox, oy = E.parse_step(x), E.parse_step(y)
            out.append((s, k, rnd, [ox[0], ox[2], ox[3], ox[4]], [oy[0], oy[2], oy[3], oy[4]]))
    return out


def single_job(t_or_tuple, cfg=None):
    s, h, k = t_or_tuple
    return {"hist": [E.KIT, "Z(%d,%s)" % (s, E.jsh(h)), "T(%d,%s,%d)" % (s, E.jsh(h), k)], "cfg": dict(E.CFG if cfg is None else cfg)}


def item_of(s, h, k, cfg=None):
    return {"seed": K.SEEDS[s][0], "hist": [K.OPNAME[x] for x in h], "op": K.OPNAME[k], "cfg": dict(E.CFG if cfg is None else cfg)}


def run_item(item):
    s = K.SEEDIDX[item["seed"]]
    h = tuple(K.OPIDX[x] for x in item["hist"])
    k = K.OPIDX[item["op"]]
    r = core.run_jobs([single_job((s, h, k), item.get("cfg"))], chunk=1)[0]
    steps = r.get("steps", [])
    if len(steps) < 3:
        return {"pre": None, "obs": None, "raw": steps[-1] if steps else r}
    zobs, zsto, _, _, _ = E.parse_step(steps[1])
    obs, sto, px, tw, comp = E.parse_step(steps[2])
    pre = E.obs_dump(zobs)
    return {"pre": pre, "pre_storage": zsto, "obs": E.encode_obs(obs, pre) if pre is not None else obs, "storage": sto, "proxy": px, "twin": tw,
            "completion": comp}


def confirm(items_expected):
    """Re-execute failing transitions twice, alone, in fresh contexts: the observation must be reproduced."""
    for item, seen in items_expected:
        for _ in range(2):
            r = run_item(item)
            if r["obs"] != seen:
                raise core.MachineryError("nondeterministic replay of a failing transition %s: first %r, again %r" % (json.dumps(item), seen, r["obs"]))


def run(chk):
    tier = chk.tier
    table = golden.load_table(TABLE)
    if table is None:
        raise core.MachineryError("golden table oracle/%s.golden.gz missing (python3 -m vlib.checks.c14 gen)" % TABLE)
    m = table.get(core.sha12("C14-META"))
    if m != meta():
        raise core.MachineryError("kit/alphabet drift: oracle/%s.golden.gz was generated for another kit (regenerate with `python3 -m vlib.checks.c14 gen`)" % TABLE)
    over = load_overrides()
    col, r = explore_boa(tier, table, over)

    # machinery-level problems of the search
    for kind, s, h, k, detail in r["problems"]:
        name = "%s + %s" % (K.SEEDS[s][0], [K.OPNAME[x] for x in h])
        if kind == "replay-drift":
            chk.violation({"oracle": "replay", "seed": K.SEEDS[s][0], "hist": [K.OPNAME[x] for x in h]}, detail,
                          "replaying history %s in another context reached another state: %s" % (name, detail),
                          replay={"items": [item_of(s, h, 0)], "note": "replay-drift"}, expected=detail[:2])
        elif kind in ("kit", "seed", "missing-step") and any(b in str(detail) for b in core.BAD_PREFIXES):
            chk.violation({"oracle": "crash", "seed": K.SEEDS[s][0], "hist": [K.OPNAME[x] for x in h], "op": None if k is None else K.OPNAME[k]},
                          str(detail), "engine failure while exploring %s: %s" % (name, detail),
                          replay={"items": [item_of(s, h, k or 0)]}, expected="Value undefined")
        else:
            raise core.MachineryError("exploration problem %s at %s: %s" % (kind, name, detail))

    # seeds: every family of histories must have built the same logical array; the golden table knows the dump
    fam = {}
    for s, d, sto in r["seedinfo"]:
        fam.setdefault(K.SEEDS[s][1], []).append((K.SEEDS[s][0], d, sto))
    seed_cmp = 0
    for f, members in fam.items():
        exp = table.get(core.sha12("C14-SEED|" + f))
        for name, d, sto in members:
            seed_cmp += 1
            if d != exp:
                chk.violation({"oracle": "seed", "seed": name}, d, "seed history %s built %s, V8 built %s" % (name, d, exp),
                              replay={"items": [item_of(K.SEEDIDX[name], (), 0)], "note": "seed dump"}, expected=exp)
    forms = {}
    for s, d, sto in r["seedinfo"]:
        forms.setdefault(K.SEEDS[s][1], set()).add(sto)

    # violations of (a) (b) (c) and crashes
    todo = []
    for cls, t, exp, info in col.bad[:400]:
        todo.append((item_of(t.s, t.h, t.k), E.encode_obs(t.obs, t.pre[0])))
    confirm(todo[:60])
    for cls, t, exp, info in col.bad:
        enc = E.encode_obs(t.obs, t.pre[0])
        opn = K.OPNAME[t.k]
        items = [item_of(t.s, t.h, t.k)]
        if cls == "golden":
            chk.violation({"oracle": "golden", "dump": t.pre[0], "op": opn}, enc,
                          "[golden] %s (state %s, %s): boa %r, V8/spec %r" % (t.name(), t.pre[0], t.pre[1], enc, exp),
                          replay={"items": items}, expected=exp)
        elif cls == "storage":
            g = info
            items.append(item_of(g[1], g[2], t.k))
            chk.violation({"oracle": "storage", "dump": t.pre[0], "op": opn, "storage": sorted([t.pre[1], g[3]])}, sorted([enc, g[0]]),
                          "[storage] same logical array %s, op %s: %s via %s gives %r, %s via %s + %s gives %r"
                          % (t.pre[0], opn, t.pre[1], t.name(), enc, g[3], K.SEEDS[g[1]][0], [K.OPNAME[x] for x in g[2]], g[0]),
                          replay={"items": items}, expected="equal observations")
        elif cls in ("proxy", "twin"):
            chk.violation({"oracle": cls, "dump": t.pre[0], "storage": t.pre[1], "op": opn}, info,
                          "[%s] %s (state %s, %s): direct %r, through %s %r" % (cls, t.name(), t.pre[0], t.pre[1], enc, cls, info),
                          replay={"items": items}, expected=enc)
        else:
            chk.violation({"oracle": "crash", "seed": K.SEEDS[t.s][0], "hist": [K.OPNAME[x] for x in t.h], "op": opn}, info,
                          "[crash] %s: %s" % (t.name(), info), replay={"items": items}, expected="Value undefined")

    # (d) warm inline cache family
    ic = warm_ic_family(r["seedinfo"])
    ic_bad = [x for x in ic if x[3] != x[4]]
    for s, k, rnd, ea, eb in ic_bad:
        opn = "<state dump>" if k is None else K.OPNAME[k]
        chk.violation({"oracle": "warm-ic", "seed": K.SEEDS[s][0], "op": opn, "round": rnd}, eb,
                      "[warm-ic] %s => %s (round %d in one context): caches off %r, caches on %r" % (K.SEEDS[s][0], opn, rnd, ea, eb),
                      replay={"warm_ic": {"seed": K.SEEDS[s][0], "op": None if k is None else K.OPNAME[k], "round": rnd}}, expected=ea)
    off = on = [x for x in ic]
    chk.part("warm_ic", steps_per_cache_setting=len(ic), compared=len(ic), differing=len(ic_bad))

    # evidence
    known = r["known"]
    by_dump = {}
    for (d, sto) in known:
        by_dump.setdefault(d, set()).add(sto)
    multi = sum(1 for v in by_dump.values() if len(v) > 1)
    by_dump_exp = {}
    for (d, sto) in r["expanded"]:
        by_dump_exp.setdefault(d, set()).add(sto)
    multi_exp = sum(1 for v in by_dump_exp.values() if len(v) > 1)
    ntr = sum(l["transitions"] for l in r["per_level"])
    if col.c_missing and not any(c == "golden" for c, *_ in col.bad):
        raise core.MachineryError("enumeration drift: %d transitions start in logical states that the golden table does not contain although no "
                                  "golden disagreement precedes them (regenerate with `python3 -m vlib.checks.c14 gen`)" % col.c_missing)
    chk.add(evaluations=3 * ntr + 3 * (len(off) + len(on)), states=len(known), transitions=ntr + len(off) + len(on),
            traces_validated_against_impl=col.a_cmp + col.b_px + col.b_tw + col.c_cmp + len(off) + seed_cmp,
            distinct_nontrivial=col.nontrivial)
    chk.cov["distinct_outcomes"] = len(col.outcomes)
    chk.cov["logical_states"] = len(by_dump)
    chk.cov["logical_states_seen_in_multiple_storage_forms"] = multi
    chk.cov["logical_states_expanded_in_multiple_storage_forms"] = multi_exp
    chk.cov["logical_states_compared_across_storage_forms"] = len(col.multi_cmp_groups)
    chk.cov["max_depth_completed"] = TIERS[tier]["depth"]
    chk.cov["per_level"] = r["per_level"]
    chk.cov["comparisons"] = {"a_storage_independence": col.a_cmp, "b_proxy": col.b_px, "b_twin": col.b_tw, "b_twin_not_comparable": col.b_tw_skipped,
                              "c_golden": col.c_cmp, "c_golden_via_override": col.c_over, "c_golden_missing": col.c_missing,
                              "d_warm_ic": len(off), "seed_dumps": seed_cmp}
    chk.cov["storage_forms_per_seed_family"] = {f: sorted(x for x in v if x) for f, v in sorted(forms.items())}
    chk.cov["storage_transitions"] = dict(sorted(col.sto_trans.items()))
    chk.cov["seeds"] = len(K.SEEDS)
    chk.cov["operations"] = len(K.OPS)
    chk.cov["rule"] = (
        "E2: %d seed histories (15 canonical arrays + the same logical arrays built through other histories that end in other storage "
        "forms) x %d operations; all histories of length <= %d where the states expanded after step L are those reached by an operation of "
        "expand[L] (%s); states merged on (logical dump, storage kind); states = distinct (dump, storage) pairs met, transitions = T steps "
        "executed on the real engine (each = array + Proxy + twin execution, inline caches off) + the warm-IC family; arrays with length >= 2^31 "
        "only get the O(1) operations; traces_validated = comparisons by (a) same dump/other history, (b) Proxy and twin, (c) V8 golden, (d) warm IC"
        % (len(K.SEEDS), len(K.OPS), TIERS[tier]["depth"], ", ".join("all" if len(e) == len(ALL) else "%d core ops" % len(e) for e in TIERS[tier]["expand"])))
    for name, v in sorted(col.per_op.items()):
        chk.part("op:" + name, transitions=v[0], twin_compared=v[1], cross_history_compared=v[2])
    for (pre, k), g in list(col.groups.items())[:: max(1, len(col.groups) // 5)][:5]:
        chk.sample({"history": "%s + %s" % (K.SEEDS[g[1]][0], [K.OPNAME[x] for x in g[2]]), "storage": g[3], "state": pre, "op": K.OPS[k]["body"], "observation": g[0]})
    chk.assumptions += [
        "V8 11.3 (node 20) is the executable stand-in for the specification; its deviations are listed with the spec clause in oracle/c14-overrides.jsonl",
        "the logical dump (own keys in order, values, attributes, accessor shapes, extensibility) determines all future behaviour of the array: "
        "accessors are always the kit's G0 (index 0) / G1,S1 (index 1), elements that are objects are fresh per history",
        "merging on (dump, storage kind): two histories that end in the same dump and the same storage kind are not both expanded",
        "main search runs with inline caches off (H4 switch); caches-on behaviour is only covered by the warm-IC family of depth 1",
        "strict-mode code only (failed stores throw); builtin loops over arrays of length >= 2^31 are not explored",
        "array-like twin: ordinary object with prototype Array.prototype carrying copies of the array's own property descriptors; compared only for "
        "operations whose algorithm is generic (flag tw in c14_kit.py: index stores below length, delete, defineProperty below length, push/pop/"
        "shift/unshift/splice/sort/reverse/fill/copyWithin, flat/slice/search/join/filter/forEach, iteration, key enumeration, freeze/seal/"
        "preventExtensions, at/with/toSorted/toSpliced/toReversed/find*/reduce*); not for `length =`, stores at or above length, concat, "
        "JSON.stringify, callbacks that assign length",
    ]


def _seed_dump(s):
    r = core.run_jobs([{"hist": [E.KIT, "Z(%d,[])" % s], "cfg": dict(E.CFG)}], chunk=1)[0]
    return E.obs_dump(E.parse_step(r["steps"][1])[0])


def replay(rep):
    rc = 0
    print("what:", rep.get("what"))
    print("expected:", rep.get("expected"))
    if "warm_ic" in rep["replay"]:
        w = rep["replay"]["warm_ic"]
        s = K.SEEDIDX[w["seed"]]
        res = [x for x in warm_ic_family([(s, _seed_dump(s), None)])
               if x[1] == (None if w["op"] is None else K.OPIDX[w["op"]]) and x[2] == w["round"]]
        for s_, k, rnd, ea, eb in res:
            print("caches off:", ea)
            print("caches on :", eb)
        bad = any(ea != eb for _, _, _, ea, eb in res)
        print("reproduced" if bad else "not reproduced (holds now)")
        return 1 if bad else 0
    seen = []
    for item in rep["replay"]["items"]:
        r = run_item(item)
        seen.append(r)
        print("item:", json.dumps(item))
        print("  state:", r.get("pre"), r.get("pre_storage"))
        print("  observed:", r.get("obs"), "| storage", r.get("storage"), "| proxy", r.get("proxy"), "| twin", r.get("twin"), "|", r.get("completion"))
    case = rep.get("case", {})
    orc = case.get("oracle")
    if orc == "golden":
        rc = 0 if seen[0]["obs"] == rep["expected"] else 1
    elif orc == "storage":
        rc = 0 if len(seen) > 1 and seen[0]["obs"] == seen[1]["obs"] else 1
    elif orc in ("proxy", "twin"):
        rc = 0 if seen[0]["proxy"] == "P=" and seen[0]["twin"] in ("T=", "T-") else 1
    elif orc == "warm-ic":
        rc = 0 if (seen[0]["pre"], seen[0]["obs"]) == (seen[1]["pre"], seen[1]["obs"]) else 1
    elif orc == "seed":
        rc = 0 if seen[0]["pre"] == rep["expected"] else 1
    else:
        rc = 0 if seen[0].get("completion") == "Value undefined" else 1
    print("reproduced" if rc else "not reproduced (holds now)")
    return rc


# ---------------------------------------------------------------------------------------------------------------
# authoring
# ---------------------------------------------------------------------------------------------------------------
OVERRIDE_CLASSES = [
    # (class name, predicate(dump, opname, boa_enc, v8_enc) -> bool, spec clause)
    ("V8-integrity-ignores-writable-length",
     lambda d, op, b, v: d.startswith("!x {") and _re.search(r"length:\d+/w", d) is not None and (
         (op == "integrity" and b.startswith("R array {0:false, ") and v == b.replace("{0:false, ", "{0:true, ", 1))
         or (op == "freeze" and v == "R <this>\nD =" and b == "R <this>\nD " + _re.sub(r"(length:\d+)/w", r"\1/", d))),
     "ECMA-262 7.3.16 TestIntegrityLevel step 4.b.ii: a writable data property (`length:N/w` in the dump) makes the object not frozen; 7.3.15 "
     "SetIntegrityLevel(frozen) step 6.b.ii defines every own data property, including `length`, non-writable.  For a non-extensible array "
     "whose elements are all already frozen (or that has no elements) V8's elements-kind fast path answers isFrozen = true and Object.freeze "
     "leaves `length` writable; V8's own generic path (Proxy, plain object) agrees with the expected value"),
    ("V8-sort-fewer-than-two-elements",
     lambda d, op, b, v: op in ("sort", "sort_cmp") and sum(1 for p in d[d.index("{") + 1:-1].split(", ") if p.split(":")[0].strip().isdigit()) < 2,
     "ECMA-262 23.1.3.30 Array.prototype.sort steps 5-11: SortIndexedProperties reads the elements (Get, so a getter runs), then every item is "
     "written back with Set(obj, j, item, true) and the remaining indices are deleted with DeletePropertyOrThrow even when there are fewer than two "
     "elements (TypeError for an accessor without setter / a non-writable element / a non-configurable hole filler); V8 returns early"),
]


def gen(tier="thorough", xcheck=True):
    """(authoring) explore the tier's space on V8, write the golden table; then explore on boa, classify disagreements."""
    cfg = TIERS[tier]
    t0 = time.time()
    rows = {}        # dump -> [enc or None] * len(OPS)
    selfbad = {}     # (dump, k) -> (px, tw)
    groups = {}
    stats = {"v8_transitions": 0, "v8_cross_history_comparisons": 0, "v8_cross_history_disagreements": 0}

    def on_v8(t, lvl):
        pre = t.pre[0]
        enc = E.encode_obs(t.obs, pre)
        stats["v8_transitions"] += 1
        if t.comp != "Value undefined":
            print("V8 step failed:", t.name(), t.comp)
        row = rows.setdefault(pre, [None] * len(K.OPS))
        if row[t.k] is not None:
            stats["v8_cross_history_comparisons"] += 1
            if row[t.k] != enc:
                stats["v8_cross_history_disagreements"] += 1
                print("V8 gives two observations for one logical state:", t.name(), pre, row[t.k], enc)
        row[t.k] = enc
        if t.px != "P=" or t.tw not in ("T=", "T-"):
            selfbad[(pre, t.k)] = (t.px, t.tw)

    def prog(lvl, done, total):
        print("  level %d: %d/%d states  (%.0fs)" % (lvl, done, total, time.time() - t0), flush=True)
    r = E.explore(cfg["depth"], cfg["expand"], E.node_runner, on_v8, progress=prog)
    if r["problems"]:
        print("V8 exploration problems:", r["problems"][:5])
    print("V8: %d transitions, %d logical states expanded, %.0fs" % (stats["v8_transitions"], len(rows), time.time() - t0))
    progs = ["C14-META"] + ["C14-SEED|" + f for f in dict.fromkeys(s[1] for s in K.SEEDS)]
    fam_dump = {}
    for s, d, sto in r["seedinfo"]:
        if fam_dump.setdefault(K.SEEDS[s][1], d) != d:
            print("SEED FAMILY DISAGREES IN V8:", K.SEEDS[s][0], d, fam_dump[K.SEEDS[s][1]])
    traces = [meta()] + [fam_dump[f] for f in dict.fromkeys(s[1] for s in K.SEEDS)]
    for d in sorted(rows):
        progs.append("C14|" + d)
        traces.append(rows[d])
    path = golden.write_table(TABLE, progs, traces)
    print("wrote", path, os.path.getsize(path), "bytes")
    # V8's own proxy/twin disagreements (validation of the comparability rule; deviations of V8)
    print("V8 self-disagreements (proxy/twin):", len(selfbad))
    r_boa = gen_overrides(tier, selfbad)
    # V8 itself must be history/storage independent on the histories boa expands (they differ from the ones V8 expanded:
    # boa keeps one history per (dump, storage kind)); this validates keying the table by the logical dump
    xs = xd = 0
    if xcheck:
        hist = [(s, h, d, None) for (s, h, d, sto) in r_boa["expanded_hist"]]
        for b in range(0, len(hist), E.BATCH):
            trs, probs = E.run_states(hist[b:b + E.BATCH], ALL, E.node_runner)
            if probs:
                print("V8 cross-check problems:", probs[:3])
            for t in trs:
                xs += 1
                row = rows.get(t.pre[0])
                if row is None or row[t.k] != E.encode_obs(t.obs, t.pre[0]):
                    xd += 1
                    print("V8 CROSS-HISTORY DISAGREEMENT", t.name(), t.pre[0], E.encode_obs(t.obs, t.pre[0]), None if row is None else row[t.k])
            print("  cross-check %d/%d states (%.0fs)" % (min(b + E.BATCH, len(hist)), len(hist), time.time() - t0), flush=True)
    stats["v8_cross_history_comparisons"] = xs
    stats["v8_cross_history_disagreements"] = xd
    json.dump({"tier": tier, "node": os.popen("node --version").read().strip(), **stats, "v8_logical_states": len(rows),
               "v8_self_disagreements_proxy_or_twin": len(selfbad),
               "v8_self_disagreements_sample": [[d, K.OPNAME[k], px, tw] for (d, k), (px, tw) in list(selfbad.items())[:40]]},
              open(os.path.join(golden.ORACLE, "c14-golden-stats.json"), "w"), indent=1)
    print("stats:", stats)


def gen_overrides(tier, selfbad=None):
    """(authoring) run boa against the table without overrides; classify every disagreement."""
    table = golden.load_table(TABLE)
    col, r = explore_boa(tier, table, {})
    print("boa:", r["per_level"], "problems", r["problems"][:3])
    out, seen, unclassified = [], set(), []
    for cls, t, exp, info in col.bad:
        if cls != "golden":
            continue
        d, opn = t.pre[0], K.OPNAME[t.k]
        if (d, opn) in seen:
            continue
        seen.add((d, opn))
        enc = E.encode_obs(t.obs, d)
        for cname, pred, why in OVERRIDE_CLASSES:
            try:
                ok = pred(d, opn, enc, exp)
            except Exception:
                ok = False
            if ok:
                tw = None
                if selfbad is not None:
                    sb = selfbad.get((d, t.k))
                    # V8's own twin (generic path on a plain object) observed what boa observed on the array?
                    if sb and sb[1].startswith("T! "):
                        tw = (E.encode_obs(sb[1][3:].split("\n"), d) == enc)
                out.append({"dump": d, "op": opn, "expected": enc, "v8": exp, "class": cname, "why": why, "v8_generic_twin_agrees_with_expected": tw,
                            "example_history": t.name()})
                break
        else:
            unclassified.append((t.name(), d, t.pre[1], enc, exp))
    with open(OVERRIDES, "w") as f:
        for o in out:
            f.write(json.dumps(o) + "\n")
    print("overrides written:", len(out), "unclassified golden disagreements:", len(unclassified))
    for u in unclassified[:60]:
        print("  UNCLASSIFIED", u)
    others = [(c, t.name(), t.pre, E.encode_obs(t.obs, t.pre[0]), exp if c != "storage" else info) for c, t, exp, info in col.bad if c != "golden"]
    print("non-golden disagreements:", len(others))
    for o in others[:40]:
        print("  ", o)
    return r


def sens(tier="quick"):
    """(authoring) sensitivity: run the tier with weakened state dumps / JS-level storage-dependent mutants of builtins."""
    table = golden.load_table(TABLE)
    over = load_overrides()
    res = {}
    kit0 = E.KIT
    for name in [None] + list(K.PERTURB):
        E.KIT = K.kit_source(name)
        t0 = time.time()
        try:
            col, r = explore_boa(tier, table, over)
        finally:
            E.KIT = kit0
        by = {}
        ex = {}
        for cls, t, exp, info in col.bad:
            by[cls] = by.get(cls, 0) + 1
            ex.setdefault(cls, "%s: state %s (%s): %r vs %r" % (t.name(), t.pre[0], t.pre[1], E.encode_obs(t.obs, t.pre[0]), info[0] if cls == "storage" else info if cls in ("proxy", "twin") else exp))
        res[name or "unperturbed"] = {"violations_by_oracle": by, "first_example": ex, "states": len(r["known"]),
                                      "transitions": sum(l["transitions"] for l in r["per_level"]), "distinct_outcomes": len(col.outcomes),
                                      "golden_missing": col.c_missing, "problems": len(r["problems"]), "what": (K.PERTURB[name][1].strip().split("\n")[0] if name else "")}
        print(name, json.dumps(res[name or "unperturbed"]["violations_by_oracle"]), "%.0fs" % (time.time() - t0), flush=True)
    json.dump({"tier": tier, "experiments": res}, open(os.path.join(golden.ORACLE, "c14-sensitivity.json"), "w"), indent=1)


if __name__ == "__main__":
    if sys.argv[1:2] == ["gen"]:
        gen(sys.argv[2] if len(sys.argv) > 2 else "thorough", xcheck="noxcheck" not in sys.argv)
    elif sys.argv[1:2] == ["overrides"]:
        gen_overrides(sys.argv[2] if len(sys.argv) > 2 else "thorough")
    elif sys.argv[1:2] == ["sens"]:
        sens(sys.argv[2] if len(sys.argv) > 2 else "quick")
