"""C04 — binding placement and operand shortcuts never change program behaviour.

E1 x configurations: every program of the families (place, scope, op, ctl with closures, pair) is executed with all
shortcuts on and with subsets S of {E: every binding forced into an environment, C: no const cache, H: no loop hoist,
F: no fused compare-and-branch} switched to the conservative choice (compile-time hooks, cfg boa_verif); oracle:
trace(P, S) == trace(P, all on) for every S, in particular S = ECHF (all conservative).
"""
import itertools
from .. import core
from .. import families as F

LETTERS = "ECHF"
ALL16 = ["".join(c) for n in range(5) for c in itertools.combinations(LETTERS, n)]


def plan(tier):
    if tier == "thorough":
        return [("place", F.place_family(tier), ALL16),
                ("scope", F.scope_family(tier), ["", "ECHF", "E", "C", "H", "F"]),
                ("op", F.op_family("quick"), ["", "ECHF", "E"]),
                ("ctl", F.ctl_family(4, ("fn",)), ["", "ECHF", "E", "CHF"]),
                ("ctlgen", F.ctl_family(3, ("gen", "async")), ["", "ECHF", "E"]),
                ("destr", F.destr_family(tier), ["", "ECHF", "E"]),
                ("pair", F.pair_family(tier), ["", "ECHF", "E", "C", "H", "F"]),
                ("capt", F.capt_family(tier), ["", "ECHF", "E", "CHF"])]
    return [("place", F.place_family(tier), ["", "ECHF", "E", "CHF"]),
            ("scope", F.scope_family(tier), ["", "ECHF"]),
            ("ctl", F.ctl_family(3, ("fn",)), ["", "ECHF", "E"]),
            ("pair", F.pair_family(tier), ["", "ECHF"]),
            ("capt", F.capt_family(tier), ["", "ECHF", "E"])]


def run(chk):
    outcomes = set()
    distinct = 0
    nontrivial = 0
    execs = 0
    bad = []
    for name, progs, modes in plan(chk.tier):
        jobs = [{"i": i, "src": p, "multi": [{"mode": m} for m in modes]} for i, p in enumerate(progs)]
        res = core.run_jobs(jobs)
        nbad = 0
        fam_out = set()
        for p, j, r in zip(progs, jobs, res):
            ms = r["multi"]
            base = core.trace_of(ms[0])
            fam_out.add(core.sha12(base))
            if base[0] or not str(base[1]).startswith("Value undefined"):
                nontrivial += 1
            for m, rr in zip(modes[1:], ms[1:]):
                t = core.trace_of(rr)
                if t != base:
                    nbad += 1
                    bad.append((j, r, name, m, p, base, t))
        distinct += len(progs)
        execs += len(progs) * len(modes)
        outcomes |= fam_out
        chk.part(name, programs=len(progs), configurations=modes, disagreements=nbad, distinct_outcomes=len(fam_out))
        chk.sample({"family": name, "src": progs[len(progs) // 2]})
    core.confirm([(j, r) for j, r, *_ in bad[:200]])
    for j, r, name, m, p, base, t in bad:
        # the conservative side is the reference semantics: report what the shortcut build printed vs the conservative trace
        chk.violation({"src": p, "off": m}, {"on": base, "off": t},
                      f"[{name}] shortcuts on vs `{m}` conservative differ for `{p[-150:]}`: on={str(base)[:100]} off={str(t)[:100]}",
                      replay={"src": p, "multi": [{"mode": ""}, {"mode": m}]}, expected=t)
    chk.add(evaluations=execs, states=distinct, transitions=execs, traces_validated_against_impl=execs - distinct, distinct_nontrivial=nontrivial)
    chk.cov["distinct_outcomes"] = len(outcomes)
    chk.cov["rule"] = ("E1: complete enumeration of families place/scope/op/ctl/ctlgen/destr/pair at this tier's bounds x the listed subsets of "
                       "{E,C,H,F}; states = distinct program texts, transitions = executions (program x configuration) in fresh contexts, every "
                       "configuration compared with the all-shortcuts-on trace; non-trivial = printed a line or completed with a value other than undefined")
    chk.assumptions += ["hooks H3/H4 only force the already existing conservative compilation paths (cross-checked by C01: golden = on; and force-escape = golden in the design round)",
                        "programs outside the families are not decided"]


def replay(rep):
    r = core.run_jobs([rep["replay"]], chunk=1)[0]
    ts = [core.trace_of(m) for m in r["multi"]]
    print("program:", rep["replay"]["src"])
    print("shortcuts on :", ts[0])
    print("conservative", rep["replay"]["multi"][1]["mode"], ":", ts[1])
    return 0 if ts[0] == ts[1] else 1
