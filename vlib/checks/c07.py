"""C07 — every host entry leaves the VM balanced and the context reusable.

E2, stateless: ALL sequences of host-entry kinds up to a length, each executed on ONE fresh context by the
`vc07` binary (harness/crates/vc07). Host-entry kinds are Rust-side actions (`Context::eval`, `JsObject::call`,
`JsObject::construct`, generator resumption through `JsObject::call`, `Context::run_jobs`, `Module::parse` +
`load_link_evaluate` / `load`+`link`+`evaluate`, hand-polled `Script::evaluate_async_with_budget`) whose
designed outcome is one of: returns / throws at top level / throws inside a callee / caught by the caller /
fails GlobalDeclarationInstantiation / syntax error / loop, recursion or stack limit (also inside try/catch/
finally, inside a native re-entry, inside a job, a generator, a module).

Oracles
 (1) depth: around EVERY single host call (step) `vm_depths` (frames, value-stack length, pending exception,
     host-call depth, environment depth, binding-stack length) and `Context::stack_trace().count()` are unchanged.
 (2) differential: the successful entries of a history h, and a fixed PROBE script evaluated after h under the
     tightest recursion / stack limits under which it passes on a fresh context (calibrated in the run), give
     exactly the traces they give on a context that ran ONLY the successful entries of h. Reported for
     deletion-minimal histories (a violating history is subsumed if one of its one-entry deletions violates with
     the same (slot, observed, expected) signature).
 (3) no RustPanic / EnginePanic anywhere.
 (4) designed: every entry kind, alone on a fresh context, has the completion kind it was built to have
     (non-vacuity; the `*_slen_*` kinds measure the value-stack growth across a caught exception from inside JS).
"""
import json, os, re, resource, time
from .. import core

PACKAGES = ("vc07",)
VC07 = os.path.join(core.TARGET, "debug", "vc07")
SCRATCH = os.path.join(core.OUT, "c07")
ENTRY_STACK = 1024
LOOP = 50
ENV = {"VERIF_CASE_CAP_MS": "180000"}

# The alphabets. FULL is whatever vc07 implements (order = vc07's KINDS table; DESIGNED below must cover it).
CORE = [
    "ev_ret", "ev_throw_callee", "ev_caught_callee", "ev_ret_finally", "ev_decl_a", "ev_gdi_let", "ev_syntax",
    "ev_loop", "ev_rec", "ev_stack", "ev_limit_try",
    "call_ret", "call_throw_callee", "call_class", "call_rec", "call_native_throw", "call_reenter_throw",
    "new_ret", "new_throw_callee", "new_field_throw", "new_rec",
    "gen_next", "gen_throw_caught", "gen_body_limit",
    "jobs_reject", "jobs_native_err", "jobs_limit",
    "mod_ok", "mod_throw_callee",
    "async_throw",
]
QUICK3 = [
    "ev_ret", "ev_throw_callee", "ev_caught_callee", "ev_ret_finally", "ev_gdi_let", "ev_rec", "ev_stack", "ev_limit_try",
    "call_ret", "call_throw_callee", "call_class", "call_rec", "call_reenter_throw",
    "new_ret", "new_field_throw", "new_rec",
    "gen_throw_caught", "jobs_native_err", "jobs_limit", "mod_throw_callee",
]
MINI = [
    "ev_ret", "ev_throw_callee", "ev_gdi_let", "ev_rec", "ev_ret_finally",
    "call_ret", "call_throw_callee", "call_class", "new_rec",
    "gen_throw_caught", "jobs_limit", "mod_throw_callee",
]

V = "Value"
# kind -> (name of the last step, acceptable prefixes of its completion, printed lines). All earlier steps: Value.
DESIGNED = {
    "ev_ret": ("eval", ["Value 101"], []),
    "ev_throw_top": ("eval", ["Throw RangeError: top"], []),
    "ev_throw_callee": ("eval", ["Throw TypeError: t1"], []),
    "ev_throw_callee2": ("eval", ["Throw TypeError: t1"], []),
    "ev_caught_callee": ("eval", ["Value 20"], []),
    "ev_caught_many": ("eval", ["Value 45"], []),
    "ev_caught_one": ("eval", ["Value 1"], []),
    "ev_caught_own": ("eval", ["Value 20"], []),
    "ev_caught_top": ("eval", ["Value 20"], []),
    "ev_ret_finally": ("eval", ["Value 21"], []),
    "ev_finally_throw": ("eval", ["Throw TypeError: t1"], ["finally ran"]),
    "ev_slen_caught": ("eval", ["Value 0"], []),
    "ev_slen_class": ("eval", ["Value 0"], []),
    "ev_slen_own": ("eval", ["Value 0"], []),
    "ev_slen_native": ("eval", ["Value 0"], []),
    "ev_slen_finally": ("eval", ["Value 0"], []),
    "ev_slen_eval_throw": ("eval", ["Value 0"], []),
    "ev_slen_eval_edi": ("eval", ["Value 0"], []),
    "ev_eval_limit": ("eval", ["Limit recursion"], []),
    "ev_eval_throw": ("eval", ["Throw TypeError: t1"], []),
    "ev_class_caught": ("eval", ['Value "kc1"'], []),
    "ev_decl_a": ("eval", ["Value 1"], []),
    "ev_decl_b": ("eval", ["Value 2"], []),
    "ev_define_nc": ("eval", ["Value 1"], []),
    "ev_gdi_hist": ("eval", ["Value 2"], []),
    "ev_gdi_let": ("eval", ["Throw SyntaxError"], []),
    "ev_gdi_fn": ("eval", ["Throw TypeError"], []),
    "ev_syntax": ("eval", ["Throw SyntaxError"], []),
    "ev_loop": ("eval", ["Limit loop"], []),
    "ev_loop_callee": ("eval", ["Limit loop"], []),
    "ev_rec": ("eval", ["Limit recursion"], []),
    "ev_stack": ("eval", ["Limit stack"], []),
    "ev_limit_try": ("eval", ["Limit recursion"], []),
    "ev_loop_try": ("eval", ["Limit loop"], []),
    "ev_native_new_lim": ("eval", ["Limit recursion"], []),
    "ev_native_caught": ("eval", ['Value "c1"'], []),
    "ev_reenter_throw": ("eval", ["Throw TypeError: t1"], []),
    "ev_reenter_limit": ("eval", ["Limit recursion"], []),
    "ev_reenter_caught": ("eval", ['Value "rc1"'], []),
    "call_ret": ("call", ["Value 101"], []),
    "call_throw": ("call", ["Throw TypeError: t1"], []),
    "call_throw_callee": ("call", ["Throw TypeError: t1"], []),
    "call_caught": ("call", ["Value 20"], []),
    "call_ret_finally": ("call", ["Value 21"], []),
    "call_class": ("call", ["Throw TypeError: class constructor"], []),
    "call_rec": ("call", ["Limit recursion"], []),
    "call_stack": ("call", ["Limit stack"], []),
    "call_loop": ("call", ["Limit loop"], []),
    "call_limit_try": ("call", ["Limit recursion"], []),
    "call_native_throw": ("call", ["Throw TypeError: native throws"], []),
    "call_native_direct": ("call", ["Throw TypeError: native throws"], []),
    "call_reenter_throw": ("call", ["Throw TypeError: t1"], []),
    "call_reenter_limit": ("call", ["Limit recursion"], []),
    "call_reenter_ret": ("call", ["Value 101"], []),
    "new_ret": ("construct", ["Value K { a: 1 }"], []),
    "new_retprim": ("construct", ["Value RetPrim { x: 1 }"], []),
    "new_throw": ("construct", ["Throw RangeError: ct"], []),
    "new_throw_callee": ("construct", ["Throw TypeError: t1"], []),
    "new_derived_nosuper": ("construct", ["Throw ReferenceError"], []),
    "new_derived_retprim": ("construct", ["Throw TypeError"], []),
    "new_field_throw": ("construct", ["Throw TypeError: t9"], []),
    "new_rec": ("construct", ["Limit recursion"], []),
    "new_stack": ("construct", ["Limit stack"], []),
    "new_native_throw": ("construct", ["Throw TypeError"], []),
    "new_native_ret": ("eval", ["Value 1"], []),
    "new_reenter_throw": ("call", ["Throw TypeError: t1"], []),
    "gen_next": ("next", ["Value { value: 1, done: false }"], []),
    "gen_throw_caught": ("throw", ["Value { value: 11, done: false }"], ["gen caught 7"]),
    "gen_fresh_throw": ("throw", ["Throw 7"], []),
    "gen_fresh_return": ("eval", ["Value 1"], ["gen finally"]),
    "gen_finally_throw": ("throw", ["Throw 7"], ["gen finally"]),
    "gen_body_throw": ("next", ["Throw TypeError: t1"], []),
    "gen_body_limit": ("next", ["Limit recursion"], []),
    "jobs_reject": ("run_jobs", ["Value undefined"], ["job ran 1"]),
    "jobs_handler_throw": ("run_jobs", ["Value undefined"], ["rejected TypeError: t1"]),
    "jobs_native_err": ("run_jobs", ["Throw TypeError: t1"], []),
    "jobs_limit": ("run_jobs", ["Limit recursion"], []),
    "jobs_loop_limit": ("run_jobs", ["Limit loop"], []),
    # whether the limit error of a continuation job reaches run_jobs is C08's business (known defect there): either is accepted
    "jobs_async_limit": ("run_jobs", ["Limit recursion", "Value undefined"], []),
    "ev_async_limit_sync": ("eval", ["Limit recursion"], []),
    "jobs_async_throw": ("run_jobs", ["Value undefined"], ["async rejected TypeError: t1"]),
    "mod_ok": ("settled", ["Value undefined"], ["module ran 1"]),
    "mod_throw": ("settled", ["Throw Error: m"], []),
    "mod_throw_callee": ("settled", ["Throw TypeError: t1"], []),
    "mod_limit": ("run_jobs", ["Limit recursion"], []),
    "mod_syntax": ("parse", ["Throw SyntaxError"], []),
    "mod_tla_throw": ("settled", ["Throw TypeError: t1"], []),
    "mod_tla_limit": (None, ["run_jobs=Limit recursion", "settled=Pending"], []),
    "mod_tla_limit_sync": ("run_jobs", ["Limit recursion"], []),
    "mod_steps_ok": ("settled", ["Value undefined"], []),
    "mod_steps_throw": ("settled", ["Throw TypeError: t1"], []),
    "mod_steps_limit": ("evaluate", ["Limit recursion"], []),
    "async_ret": ("eval_async", ["Value 55"], []),
    "async_throw": ("eval_async", ["Throw TypeError: t1"], []),
    "async_limit": ("eval_async", ["Limit recursion"], []),
}


def norm(s):
    return re.sub(r"\s+", " ", s).strip()


def one(job):
    return core.run_jobs([job], binary=VC07, chunk=1, env_extra=ENV)[0]


def site_of(kind, step, cls, delta):
    """Root-cause class of a depth violation (used for the text and for grouping the known lists)."""
    st = step.split(":")[-1]
    if kind == "PROBE":
        return "probe"
    if cls.startswith("Limit"):
        return "limit-unwind"
    if st == "link":
        return "module-link"
    if kind.startswith("mod_"):
        return "module"
    if kind in ("ev_decl_a", "ev_decl_b", "ev_gdi_hist", "ev_gdi_let", "ev_gdi_fn"):
        return "gdi-failure"
    if kind in ("call_class",):
        return "call-early-return"
    if kind in ("new_field_throw",):
        return "construct-early-return"
    return "throw-across-frames"


def check_designed(kind, entry):
    """-> None or observed dict."""
    last, prefixes, lines = DESIGNED[kind]
    steps = entry["steps"]
    obs = {"steps": [[s["step"], norm(s["completion"])[:80]] for s in steps], "lines": entry["lines"]}
    if not steps:
        return obs
    for s in steps[:-1]:
        if not s["completion"].startswith("Value"):
            return obs
    fin = steps[-1]
    c = norm(fin["completion"])
    if last is None:
        if not any((fin["step"] + "=" + c).startswith(p) for p in prefixes):
            return obs
    elif fin["step"] != last or not any(c.startswith(p) for p in prefixes):
        return obs
    if entry["lines"] != lines:
        return obs
    return None


def hist_of_index(alpha, length, idx):
    n = len(alpha)
    h = []
    for p in range(length):
        h.append(alpha[(idx // n ** (length - 1 - p)) % n])
    return h


def run_ranges(jobs):
    """Run range jobs to completion; a panic inside a range ends that job early (worker replaced): the rest is re-queued.
    Returns (results, panics, dead) — dead: single-history ranges that killed or hung the worker."""
    results, panics, dead = [], [], []
    todo = list(jobs)
    while todo:
        res = core.run_jobs(todo, binary=VC07, env_extra=ENV)
        nxt = []
        for j, r in zip(todo, res):
            if "done_to" not in r:
                if j["to"] - j["from"] <= 1:
                    dead.append((j, r))
                else:
                    mid = (j["from"] + j["to"]) // 2
                    nxt.append(dict(j, **{"from": j["from"], "to": mid}))
                    nxt.append(dict(j, **{"from": mid, "to": j["to"]}))
                continue
            results.append(r)
            if r.get("panic"):
                panics.append((j, r["panic"]))
            if r["done_to"] < j["to"]:
                nxt.append(dict(j, **{"from": r["done_to"]}))
        todo = nxt
    return results, panics, dead


def phases_of(tier, full):
    if tier == "thorough":
        return [(full, 1), (full, 2), (CORE, 3), (CORE, 4), (MINI, 5)]
    return [(full, 1), (full, 2), (QUICK3, 3)]


def run(chk):
    os.makedirs(SCRATCH, exist_ok=True)
    kinds = [k for k in one({"kind": "c07kinds"})["kinds"] if not k.startswith("selftest_")]
    missing = [k for k in kinds if k not in DESIGNED] + [k for k in CORE + MINI + QUICK3 if k not in kinds]
    if missing or not set(MINI) <= set(CORE) or not set(QUICK3) <= set(CORE):
        raise core.MachineryError(f"c07: alphabets out of sync with vc07: {missing}")
    cal = one({"kind": "c07cal", "cfg": {"loop": LOOP}})
    if "rec" not in cal or not cal["passes_at"] or cal["passes_below_rec"] or cal["passes_below_stack"]:
        raise core.MachineryError(f"c07: probe calibration failed: {json.dumps(cal)[:600]}")
    cfg = {"rec": cal["rec"], "stack": ENTRY_STACK, "pstack": cal["pstack"], "loop": LOOP}
    chk.cov["limits"] = dict(cfg, probe_trace=cal["probe_trace"])

    # ---- self-test: the depth oracle must see a frame that a (deliberately) abandoned evaluate_async future leaves behind
    st = one({"kind": "c07hist", "hist": ["selftest_abandon_async"], "cfg": cfg})
    sd = st["entries"][0]["steps"][0] if "entries" in st else {}
    if "frames+1" not in sd.get("delta", "") or "stack_trace+1" not in sd.get("delta", "") or st["probe"]["ok"]:
        raise core.MachineryError(f"c07: self-test of the depth oracle failed: {json.dumps(st)[:500]}")
    chk.cov["selftest"] = {"abandoned evaluate_async future": sd["delta"], "probe afterwards": norm(st["probe"]["completion"])}

    # ---- singletons in full detail: designed outcomes, panics ---------------------------------------------------
    sjobs = [{"i": i, "kind": "c07hist", "hist": [k], "cfg": cfg} for i, k in enumerate(kinds)]
    sres = core.run_jobs(sjobs, binary=VC07, env_extra=ENV)
    excluded = []
    designed_bad = []
    n_designed = 0
    for k, j, r in zip(kinds, sjobs, sres):
        if "entries" not in r:
            excluded.append(k)
            msg = norm(r.get("completion", "?"))[:200]
            chk.violation({"oracle": "no-panic", "hist": [k]}, {"completion": msg},
                          f"[panic] history [{k}] on a fresh context: {msg}", replay=dict(j, oracle="no-panic"))
            continue
        n_designed += 1
        obs = check_designed(k, r["entries"][0])
        if obs is not None:
            designed_bad.append((k, j, r, obs))
    core.confirm([(j, r) for _, j, r, _ in designed_bad], binary=VC07)
    for k, j, r, obs in designed_bad:
        last, prefixes, lines = DESIGNED[k]
        chk.violation({"oracle": "designed", "entry": k}, obs,
                      f"[designed] entry {k} alone on a fresh context: steps {obs['steps']} lines {obs['lines']}; designed: last step {last} {prefixes} lines {lines}",
                      replay=dict(j, oracle="designed"), expected={"last_step": last, "completion_prefixes": prefixes, "lines": lines})
    full = [k for k in kinds if k not in excluded]
    if excluded:
        chk.cov["caps_hit"].append(f"entry kinds whose singleton history panics are reported and left out of longer histories: {excluded}")
        chk.cov["exhaustive"] = False

    timing = chk.cov.setdefault("timing_s (wall, cpu of workers)", {})

    def cpu():
        r = resource.getrusage(resource.RUSAGE_CHILDREN)
        return r.ru_utime + r.ru_stime
    timing["calibration+selftest+singletons"] = [round(time.time() - chk.t0, 1), round(cpu(), 1)]

    # ---- all histories by length ------------------------------------------------------------------------------
    phases = phases_of(chk.tier, full)
    per_kind = {}
    outcomes = set()
    depth = {}  # id -> [count, (len, first), witness]
    bad = {}
    minimal = []
    tot = dict(n=0, transitions=0, ref_runs=0, ref_transitions=0, cmp_depth=0, cmp_diff=0, n_diff=0, n_subsumed=0, n_all_ok=0)
    subsig_path = None
    all_panics, all_dead = [], []
    for pi, (alpha, length) in enumerate(phases):
        alpha = [k for k in alpha if k in full]
        total = len(alpha) ** length
        nxt_alpha = [k for k in phases[pi + 1][0] if k in full] if pi + 1 < len(phases) else None
        per_job = 400 if length > 1 else 8
        jobs = []
        for a in range(0, total, per_job):
            j = {"kind": "c07range", "alpha": alpha, "len": length, "from": a, "to": min(total, a + per_job), "cfg": cfg,
                 "want_sigs": nxt_alpha is not None}
            if nxt_alpha is not None:
                j["sig_filter"] = nxt_alpha
            if subsig_path:
                j["subsig"] = subsig_path
            jobs.append(j)
        t_ph, c_ph = time.time(), cpu()
        results, panics, dead = run_ranges(jobs)
        timing[f"len{length}/{len(alpha)}kinds"] = [round(time.time() - t_ph, 1), round(cpu() - c_ph, 1)]
        all_panics += [(alpha, length, j, p) for j, p in panics]
        all_dead += [(alpha, length, j, r) for j, r in dead]
        sigs = []
        part = dict(histories=0, transitions=0, depth_violating_steps=0, differential_violations=0, minimal=0)
        for r in results:
            for k in tot:
                tot[k] += r[k]
            part["histories"] += r["n"]
            part["transitions"] += r["transitions"]
            part["differential_violations"] += r["n_diff"]
            part["minimal"] += len(r["minimal"])
            for k, d in r["per_kind"].items():
                pk = per_kind.setdefault(k, {})
                for c, n in d.items():
                    pk[c] = pk.get(c, 0) + n
            outcomes.update(r["outcomes"])
            for table, rows in ((depth, r["depth_viol"]), (bad, r["bad"])):
                for d in rows:
                    e = table.get(d["id"])
                    key = (length, d["first"])
                    if e is None:
                        table[d["id"]] = [d["count"], key, d["witness"]]
                    else:
                        e[0] += d["count"]
                        if key < e[1]:
                            e[1], e[2] = key, d["witness"]
                    if table is depth:
                        part["depth_violating_steps"] += d["count"]
            minimal += r["minimal"]
            sigs += r["sigs"]
        chk.part(f"len{length}/{len(alpha)}kinds", **part)
        if nxt_alpha is not None:
            subsig_path = os.path.join(SCRATCH, f"sig_{os.getpid()}_{length}.tsv")
            with open(subsig_path, "w") as f:
                for k, v in sorted(sigs):
                    f.write(f"{k}\t{v}\n")

    # ---- verdicts ---------------------------------------------------------------------------------------------
    confirm = []

    def hist_job(hist, oracle, **kw):
        return dict({"i": 0, "kind": "c07hist", "hist": hist, "cfg": cfg, "oracle": oracle}, **kw)

    viols = []
    for id_, (count, _, w) in sorted(depth.items()):
        kind, step, cls, delta = id_.split("|")
        site = site_of(kind, step, cls, delta)
        job = hist_job(w["hist"], "depth", id=id_, pos=w["pos"])
        viols.append((job, {"oracle": "depth", "entry": kind, "step": step, "completion": cls}, {"delta": delta},
                      f"[depth/{site}] {kind} step {step} ({cls}) leaves {delta}; shortest witness {w['hist']} at position {w['pos']}; {count} occurrences",
                      {"delta": ""}))
    for id_, (count, _, w) in sorted(bad.items()):
        kind, step, comp = id_.split("|", 2)
        job = hist_job(w["hist"], "no-panic", id=id_, pos=w["pos"])
        viols.append((job, {"oracle": "no-panic", "entry": kind, "step": step}, {"completion": norm(comp)[:160]},
                      f"[panic] {kind} step {step}: {norm(comp)[:160]}; shortest witness {w['hist']}; {count} occurrences", None))
    for m in sorted(minimal, key=lambda m: (len(m["hist"]), m["hist"])):
        job = hist_job(m["hist"], "differential")
        viols.append((job, {"oracle": "differential", "hist": m["hist"]}, {"slot": m["slot"], "observed": norm(m["observed"])[:160], "expected": norm(m["expected"])[:160]},
                      f"[differential] after {m['hist']} the {m['slot']} (position {m['pos']}) gives `{norm(m['observed'])[:100]}`; on a context that ran only the successful entries: `{norm(m['expected'])[:100]}`",
                      {"slot": m["slot"], "expected": norm(m["expected"])[:160]}))
    for alpha, length, j, p in all_panics:
        job = hist_job(p["hist"], "no-panic")
        viols.append((job, {"oracle": "no-panic", "hist": p["hist"]}, {"completion": "RustPanic " + norm(p["panic"])[:160]},
                      f"[panic] history {p['hist']}: RustPanic {norm(p['panic'])[:160]}", None))
    for alpha, length, j, r in all_dead:
        h = hist_of_index(alpha, length, j["from"])
        job = hist_job(h, "no-panic")
        viols.append((job, {"oracle": "no-panic", "hist": h}, {"completion": r.get("completion")},
                      f"[panic] history {h}: worker {r.get('completion')}", None))
    # confirm before believing (new ones only; the detailed re-run must show the same thing, twice)
    new = [v for v in viols if chk.findings.lookup(core.sha12(v[1]), core.sha12(v[2])) is None]
    if new:
        det = core.run_jobs([v[0] for v in new], binary=VC07, chunk=1, env_extra=ENV)
        core.confirm(list(zip([v[0] for v in new], det)), binary=VC07)
    for job, case, obs, what, exp in viols:
        chk.violation(case, obs, what, replay=job, expected=exp)

    # ---- evidence ---------------------------------------------------------------------------------------------
    n_hist = tot["n"] + len(kinds)
    chk.add(evaluations=n_hist + tot["ref_runs"], states=n_hist,
            transitions=tot["transitions"] + tot["ref_transitions"] + sum(len(e["steps"]) for r in sres if "entries" in r for e in r["entries"]),
            traces_validated_against_impl=tot["cmp_depth"] + tot["cmp_diff"] + n_designed,
            distinct_nontrivial=n_hist - tot["n_all_ok"])
    chk.cov["distinct_outcomes"] = len(outcomes)
    chk.cov["comparisons"] = {"depth (steps)": tot["cmp_depth"], "differential (entry + probe traces)": tot["cmp_diff"], "designed": n_designed}
    chk.cov["differential"] = {"violating_histories": tot["n_diff"], "subsumed_by_a_shorter_history": tot["n_subsumed"], "minimal_reported": len(minimal),
                               "histories_with_only_successful_entries": tot["n_all_ok"]}
    chk.cov["depth_identities"] = len(depth)
    chk.cov["entry_kinds"] = len(kinds)
    chk.cov["completion_kinds_per_entry_kind"] = {k: per_kind[k] for k in sorted(per_kind)}
    vac = [k for k in full if len(per_kind.get(k, {})) == 0]
    if vac:
        raise core.MachineryError(f"c07: entry kinds never executed: {vac}")
    chk.cov["rule"] = ("E2 stateless: all sequences of host-entry kinds, per phase (alphabet size, length) = %s; one fresh context per history, limits %s "
                       "(recursion and probe stack limit calibrated in this run to the smallest under which the probe passes); states = distinct histories, "
                       "transitions = host calls (steps) executed on the engine incl. the reference histories, validated = depth comparisons around every step + "
                       "trace comparisons (successful entries and probe vs the successful-only history) + designed outcomes of the singletons; "
                       "distinct_outcomes = distinct (entry kind, step completions, printed lines) incl. the probe"
                       % ([(len([k for k in a if k in full]), l) for a, l in phases], cfg))
    shist = [["ev_throw_callee", "ev_ret"], ["call_class", "gen_next", "jobs_limit"], ["ev_define_nc", "ev_gdi_hist", "mod_ok"], ["ev_ret", "gen_throw_caught", "call_ret"]]
    for h, r in zip(shist, core.run_jobs([{"i": i, "kind": "c07hist", "hist": h, "cfg": cfg} for i, h in enumerate(shist)], binary=VC07, env_extra=ENV)):
        if "entries" in r:
            chk.sample({"history": h, "entries": [[e["kind"], norm(e["completion"])[:60], " ".join(s["delta"] for s in e["steps"] if s["delta"])] for e in r["entries"]],
                        "probe": [norm(r["probe"]["completion"]), r["probe"]["lines"][-2:]], "reference_history": r["ref_hist"],
                        "probe_on_reference": norm(r["ref_probe"]["completion"]), "differential": r["diff"] and r["diff"]["asig"]})
    chk.assumptions += [
        "failed entry kinds are built to have no JS-visible side effect other than printing, so dropping them is the reference",
        "entries run under stack limit %d; only the probe runs under the calibrated tight stack limit" % ENTRY_STACK,
        "an entry kind whose singleton history panics is reported and excluded from longer histories",
        "abandoned (never completed) evaluate_async futures, realms other than the default, and Proxy/bound-function callables are not entered",
    ]
    for f in os.listdir(SCRATCH):
        if f.startswith(f"sig_{os.getpid()}_"):
            os.unlink(os.path.join(SCRATCH, f))


def replay(rep):
    job = dict(rep["replay"])
    oracle = job.pop("oracle", "depth")
    r = one(job)
    print("case:", json.dumps(rep["case"]))
    print("history:", job["hist"], "limits:", job["cfg"])
    if "entries" not in r:
        print("observed:", norm(r.get("completion", "?"))[:300])
        print("expected: no panic")
        return 1
    bad = 0
    for e in r["entries"] + [r["probe"]]:
        print(f"  {e['kind']:22s} ok={e['ok']} lines={e['lines']}")
        for s in e["steps"]:
            flag = ""
            if s["delta"]:
                flag = "   <-- depth changed: " + s["delta"]
                bad += oracle == "depth"
            if s["completion"].startswith(("EnginePanic", "RustPanic")):
                bad += oracle == "no-panic"
            print(f"      {s['step']:10s} {norm(s['completion'])[:90]} d0={s['d0']} d1={s['d1']}{flag}")
    print("reference history (successful entries only):", r["ref_hist"])
    print("  probe on reference:", norm(r["ref_probe"]["completion"]), r["ref_probe"]["lines"])
    print("differential:", r["diff"])
    if oracle == "differential":
        print("expected:", rep.get("expected"))
        bad = 1 if r["diff"] is not None else 0
    elif oracle == "designed":
        k = job["hist"][0]
        obs = check_designed(k, r["entries"][0])
        print("designed:", DESIGNED[k], "observed:", obs)
        bad = 1 if obs is not None else 0
    else:
        print("expected: every step leaves [frames, stack_len, pending_exception, host_call_depth, env_depth, binding_stack_len, stack_trace] unchanged; no panic")
    return 1 if bad else 0
