"""C10 — garbage collection is unobservable to scripts and leaves nothing behind.

E3 (deviation-bounded schedule exploration): for every program the default schedule (no collection) is run first and
gives the number n of GC allocations performed by the program; then EVERY schedule with exactly one collection (at
allocation index i, for all i < n), then pairs (thorough), plus the periodic schedules Every(k), plus collection at
every allocation while the context itself is being created.  Oracle: strong programs: trace identical to the
no-collection run; weak-observer programs: identical after masking `W:` lines, and every masked line must satisfy the
weak-observation predicates; leak clause: heap statistics after dropping the context and ONE collection equal the
statistics before the context was created.
"""
import itertools
from .. import core
from .. import families as F

STRONG = [
    'function mk(n) { var fs = []; for (let i = 0; i < n; i++) { let o = {i, s: "s" + i}; fs.push(() => o.i + o.s.length); } return fs } print(mk(12).map(f => f()).join());',
    'function* g() { var a = [{x: 1}, {x: 2}]; for (var o of a) { var r = yield o; print("r", r && r.k); } return "done" } var it = g(); print(it.next().value, it.next({k: 1}).value, it.next({k: 2}).value, it.next().done);',
    'var m = new Map(), s = new Set(); for (var i = 0; i < 20; i++) { var k = {i}; m.set(k, [i]); s.add(k); } var t = 0; for (var [k, v] of m) { t += k.i + v[0]; if (k.i % 3 == 0) m.delete(k); } print(t, m.size, [...s].length);',
    'class A { #p = {v: 1}; static #s = [1, 2]; get p() { return this.#p.v } static s() { return A.#s.length } } class B extends A { #q = () => this.p; q() { return this.#q() } } print(new B().q(), A.s());',
    'var log = []; var p = Promise.resolve({v: 1}).then(o => { log.push(o.v); return {v: 2} }).then(o => { log.push(o.v); throw {e: 3} }).catch(e => log.push(e.e)).finally(() => print(log.join()));',
    'async function f(x) { var a = await {v: x}; var b = await Promise.all([{w: 1}, Promise.resolve({w: 2})]); return a.v + b[0].w + b[1].w } f(3).then(v => print("async", v));',
    'function tag(s, ...v) { return s.raw.join("|") + v.join() } var out = []; for (var i = 0; i < 3; i++) out.push(tag`a${i}b${{toString() { return "o" }}}c`); print(out.join(";"), /(\\d+)-(?<w>\\w+)/.exec("12-ab").groups.w);',
    'var o = {}; for (var i = 0; i < 40; i++) o["k" + i] = {i}; delete o.k3; delete o.k7; var c = 0; for (var k in o) c += o[k].i; print(c, Object.keys(o).length, JSON.stringify(Object.entries(o).slice(0, 3)));',
    'var errs = []; for (var i = 0; i < 5; i++) { try { null.x } catch (e) { errs.push(e) } } try { throw new AggregateError(errs, "m") } catch (e) { print(e.errors.length, e.name, errs[0] instanceof TypeError) }',
    'var a = []; for (var i = 0; i < 30; i++) a.push(i % 3 == 0 ? {v: i} : i % 3 == 1 ? i + 0.5 : "s" + i); a.sort((x, y) => String(x.v ?? x).localeCompare(String(y.v ?? y))); print(a.slice(0, 6).map(x => x.v ?? x).join());',
    'function deep(n) { var x = {n}; return n ? () => [x, deep(n - 1)] : () => [x] } var d = deep(20), c = 0; while (true) { var r = d(); c += r[0].n; if (r.length < 2) break; d = r[1]; } print(c);',
    'var buf = new ArrayBuffer(64), dv = new DataView(buf), tas = []; for (var i = 0; i < 8; i++) tas.push(new Uint16Array(buf, i * 8, 4)); tas[3][1] = 513; dv.setFloat32(0, 1.5); print(tas[3][1], new Uint8Array(buf)[25], dv.getFloat32(0), tas.map(t => t.byteOffset).join());',
    'var fn = new Function("a", "b", "return {s: a + b}"); var r = []; for (var i = 0; i < 5; i++) r.push(fn(i, {valueOf() { return 2 }}).s); print(r.join(), eval("[{a: 1}, {b: [2]}]")[1].b[0]); with ({w: {z: 1}}) { print(w.z) }',
    'var proto = {get g() { return [this.id] }}; var objs = []; for (var i = 0; i < 10; i++) { var o = Object.create(proto); o.id = i; objs.push(o); } print(objs.map(o => o.g[0]).join(""), Object.getPrototypeOf(objs[9]) === proto);',
    'var p = new Proxy({}, {get(t, k) { return typeof k === "string" ? {k} : undefined }, ownKeys() { return ["a", "b"] }, getOwnPropertyDescriptor() { return {value: {}, enumerable: true, configurable: true} }}); print(p.x.k, Object.keys(p).join(), JSON.stringify(Object.assign({}, p)));',
    'var sy = []; for (var i = 0; i < 6; i++) sy.push(Symbol("s" + i)); var o = {}; sy.forEach((s, i) => o[s] = {i}); print(Object.getOwnPropertySymbols(o).map(s => o[s].i + s.description).join());',
    'var big = []; for (var i = 0; i < 50; i++) big.push(BigInt(i) ** 20n); print(big[49] % 1000007n, big.reduce((a, b) => a + b, 0n).toString().length);',
    'var strs = []; for (var i = 0; i < 60; i++) strs.push(("ab" + i).repeat(3).slice(1, 7).toUpperCase() + String.fromCharCode(0x3c0 + i)); print(strs.join("").length, strs[59], strs.sort()[0]);',
    'function* inner() { try { yield {a: 1}; yield {a: 2} } finally { print("ifin") } } function* outer() { yield* inner(); yield* [{a: 3}] } var it = outer(); print(it.next().value.a); print(it.return({a: 9}).value.a, it.next().done);',
    'var arr = Array.from({length: 25}, (_, i) => ({i})); var m = arr.filter(o => o.i % 2).map(o => ({j: o.i * 2})).flatMap(o => [o, {j: -o.j}]); print(m.length, m[3].j, arr.findLast(o => o.i < 7).i, structuredCloneish(arr[2]).i); function structuredCloneish(o) { return JSON.parse(JSON.stringify(o)) }',
    'var ag = (async function* () { for (var i = 0; i < 3; i++) { yield {i}; await null; } })(); (async () => { var t = 0; for await (var o of ag) t += o.i; print("ag", t) })();',
    'var getters = 0; var o = {get a() { getters++; return {n: getters} }}; var {a: {n}, a: second} = o; print(n, second.n, getters); var [x, , ...rest] = [{p: 1}, {p: 2}, {p: 3}, {p: 4}]; print(x.p, rest.map(r => r.p).join());',
    'label: for (var i = 0; i < 4; i++) { for (var j = 0; j < 4; j++) { var t = {i, j}; if (j == 2) continue label; if (i == 3) break label; print(t.i + "" + t.j); } }',
    'var d1 = new Date(86400000 * 366), d2 = new Date(2020, 1, 29, 12); print(d1.getUTCFullYear(), d2.getMonth(), new Date(d1.getTime() + 1).toISOString(), JSON.stringify({d: d1}));',
    'var ws = new WeakSet(), wm = new WeakMap(), keys = []; for (var i = 0; i < 10; i++) { var k = {i}; keys.push(k); ws.add(k); wm.set(k, {v: i}); } print(keys.every(k => ws.has(k) && wm.get(k).v === k.i), wm.has({}), wm.delete(keys[0]), wm.has(keys[0]));',
]

# Weak observers: `W:<name>:<alive|dead>:<held|dropped>` lines are masked in the trace comparison and checked by predicates.
WEAK = [
    'var wr; (function () { var o = {x: 1}; wr = new WeakRef(o); })(); Promise.resolve().then(() => 0).then(() => 0).then(() => { var junk = []; for (var i = 0; i < 20; i++) junk.push({i}); print("W:wr:" + (wr.deref() === undefined ? "dead" : "alive") + ":dropped"); print("after"); });',
    'var wr, keep; (function () { var o = {x: 1}; keep = o; wr = new WeakRef(o); })(); Promise.resolve().then(() => 0).then(() => 0).then(() => { var junk = []; for (var i = 0; i < 20; i++) junk.push({i}); print("W:wr:" + (wr.deref() === undefined ? "dead" : "alive") + ":held"); print(keep.x); });',
    'var wr = new WeakRef({y: 2}); var a = wr.deref(); var junk = []; for (var i = 0; i < 30; i++) junk.push([i]); var b = wr.deref(); print("stable", a === b, a !== undefined);',
    'var fr = new FinalizationRegistry(t => print("W:fin:" + t)); (function () { fr.register({a: 1}, "t1"); fr.register({a: 2}, "t2"); })(); var held = {a: 3}; fr.register(held, "t3:held"); Promise.resolve().then(() => 0).then(() => 0).then(() => { var j = []; for (var i = 0; i < 30; i++) j.push({i}); }).then(() => print("end", held.a));',
    'var fr = new FinalizationRegistry(t => print("W:fin:" + t)); var tok = {}; (function () { fr.register({a: 1}, "u1", tok); })(); print(fr.unregister(tok)); Promise.resolve().then(() => 0).then(() => 0).then(() => { var j = []; for (var i = 0; i < 30; i++) j.push({i}); }).then(() => print("end"));',
    'var wm = new WeakMap(), wrs = []; (function () { for (var i = 0; i < 5; i++) { var k = {i}; wm.set(k, {v: k}); wrs.push(new WeakRef(k)); } })(); Promise.resolve().then(() => 0).then(() => 0).then(() => { var j = []; for (var i = 0; i < 25; i++) j.push({i}); wrs.forEach((w, i) => print("W:k" + i + ":" + (w.deref() === undefined ? "dead" : "alive") + ":dropped")); print("done"); });',
    'var ws = new WeakSet(), held = {h: 1}, wr; (function () { var o = {o: 1}; ws.add(o); ws.add(held); wr = new WeakRef(o); })(); Promise.resolve().then(() => 0).then(() => 0).then(() => { var j = []; for (var i = 0; i < 25; i++) j.push({i}); print(ws.has(held)); print("W:o:" + (wr.deref() === undefined ? "dead" : "alive") + ":dropped"); });',
    'var wm = new WeakMap(), k1 = {}, wr; (function () { var v = {big: 1}; wm.set(k1, v); wr = new WeakRef(v); })(); Promise.resolve().then(() => 0).then(() => 0).then(() => { var j = []; for (var i = 0; i < 25; i++) j.push({i}); print("W:v:" + (wr.deref() === undefined ? "dead" : "alive") + ":held"); print(wm.get(k1).big); });',
    'var chain = new WeakMap(), root = {}, wrs = []; (function () { var a = {n: "a"}, b = {n: "b"}; chain.set(root, a); chain.set(a, b); wrs.push(new WeakRef(a), new WeakRef(b)); })(); Promise.resolve().then(() => 0).then(() => 0).then(() => { var j = []; for (var i = 0; i < 25; i++) j.push({i}); wrs.forEach((w, i) => print("W:c" + i + ":" + (w.deref() === undefined ? "dead" : "alive") + ":held")); print(chain.get(chain.get(root)).n); });',
    'var wr; function mk() { var cyc = {}; cyc.self = cyc; cyc.arr = [cyc]; wr = new WeakRef(cyc); } mk(); Promise.resolve().then(() => 0).then(() => 0).then(() => { var j = []; for (var i = 0; i < 25; i++) j.push({i}); print("W:cyc:" + (wr.deref() === undefined ? "dead" : "alive") + ":dropped"); });',
]


# Holder kinds: one program per engine structure that can be the ONLY thing keeping a payload object alive (closure environments of every
# sort, bound functions, suspended generator / async frames with the payload in a local, in a temporary register, as `this`, as a pending
# return value or a pending exception, live iterators of every builtin collection, iterator helpers, promise states and combinators,
# proxies, error causes, accessor closures, prototype links, private / static class elements, buffers behind views, sparse arrays, weak-map
# values with a held key, home objects).  The payload is created in a function whose frame dies, observed through a WeakRef in a LATER job
# (so that KeepDuringJob no longer pins it) and then fetched back through the holder.  Masked `W:p:<alive|dead>:held` line: `dead` is a
# violation (the program can still reach the object); the fetched payload must print 7 under every schedule.
KINDS = [
    # name, payload literal, holder constructor (an expression over P), statements that fetch the payload back from H and print it
    ("closure", None, "() => P", "print(H().n)"),
    ("closure-2-levels", None, "(q => () => () => q)(P)", "print(H()().n)"),
    ("closure-eval", None, 'eval("(() => P)")', "print(H().n)"),
    ("closure-with", None, "(function () { with (P) { return () => n } })()", "print(H())"),
    ("closure-catch-param", None, "(function () { try { throw P } catch (e) { return () => e } })()", "print(H().n)"),
    ("closure-per-iteration-let", None, "(function () { var fs = []; for (let q = P, i = 0; i < 2; i++) fs.push(() => q); return fs[1] })()", "print(H().n)"),
    ("closure-param-scope", None, "(function (a = P, g = () => a) { var a; return g })()", "print(H().n)"),
    ("closure-class-field-init", None, "(q => class { f = q })(P)", "print(new H().f.n)"),
    ("bound-this", None, "(function () { return this }).bind(P)", "print(H().n)"),
    ("bound-arg", None, "(function (a) { return a }).bind(null, P)", "print(H().n)"),
    ("bound-of-bound", None, "(function (a, b) { return b }).bind(null, 1).bind(null, P)", "print(H().n)"),
    ("home-object", None, "({m() { return super.n }, __proto__: P}).m", "print(H.call({}))"),
    ("gen-local", None, "(g => (g.next(), g))((function* () { var q = P; yield 1; yield q })())", "print(H.next().value.n)"),
    ("gen-not-started-arg", None, "(function* (a) { yield a })(P)", "print(H.next().value.n)"),
    ("gen-temp-register", None, "(g => (g.next(), g))((function* () { yield [P, yield 1][0] })())", "print(H.next().value.n)"),
    ("gen-call-args-pending", None, "(g => (g.next(), g))((function* () { yield ((a, b) => a)(P, yield 1) })())", "print(H.next().value.n)"),
    ("gen-this", "{n: 7, *g() { yield 1; yield this }}", "(g => (g.next(), g))(P.g())", "print(H.next().value.n)"),
    ("gen-pending-return", None, "(g => (g.next(), g))((function* () { try { return P } finally { yield 1 } })())", "print(H.next().value.n)"),
    ("gen-pending-throw", None, "(g => (g.next(), g))((function* () { try { try { throw P } finally { yield 1 } } catch (e) { yield e } })())", "print(H.next().value.n)"),
    ("gen-delegate", None, "(g => (g.next(), g))((function* () { yield* (function* () { var q = P; yield 1; yield q })() })())", "print(H.next().value.n)"),
    ("gen-in-for-of", None, "(g => (g.next(), g))((function* () { for (var x of [P, 2]) { yield 1; yield x; break } })())", "print(H.next().value.n)"),
    ("gen-in-for-in", None, "(g => (g.next(), g))((function* () { for (var k in P) yield k; yield P })())", "print(H.next().value.n)"),
    ("gen-spread-pending", None, "(g => (g.next(), g))((function* () { yield [...[P], yield 1][0] })())", "print(H.next().value.n)"),
    ("gen-destructuring-pending", None, "(g => (g.next(), g))((function* () { var [a, b = yield 1] = [P]; yield a })())", "print(H.next().value.n)"),
    ("gen-object-literal-pending", None, "(g => (g.next(), g))((function* () { yield ({a: P, b: yield 1}).a })())", "print(H.next().value.n)"),
    ("gen-template-pending", None, "(g => (g.next(), g))((function* () { yield ((s, a) => a)`x${P}y${yield 1}` })())", "print(H.next().value.n)"),
    ("gen-new-pending", None, "(g => (g.next(), g))((function* () { yield new (function (a) { this.a = a })(P, yield 1).a })())", "print(H.next().value.n)"),
    ("gen-super-call-pending", None, "(g => (g.next(), g))((function* () { class A { constructor(a) { this.a = a } } yield new (class extends A {})(P, yield 1).a; })())", "print(H.next().value.n)"),
    ("async-local", None, "(function () { var res; var pr = (async function () { var q = P; await new Promise(r => res = r); return q })(); pr.res = res; return pr })()", "H.res(); H.then(v => print(v.n))"),
    ("async-temp-register", None, "(function () { var res; var pr = (async function () { return [P, await new Promise(r => res = r)][0] })(); pr.res = res; return pr })()", "H.res(); H.then(v => print(v.n))"),
    ("async-arrow-this", "{n: 7, f() { var res; var pr = (async () => { await new Promise(r => res = r); return this })(); pr.res = res; return pr }}", "P.f()", "H.res(); H.then(v => print(v.n))"),
    ("asyncgen-local", None, "(g => (g.next(), g))((async function* () { var q = P; yield 1; yield q })())", "H.next().then(r => print(r.value.n))"),
    ("asyncgen-queued-request", None, "(async function* (a) { yield a })(P)", "H.next().then(r => print(r.value.n))"),
    ("for-await-sync-iterator", None, "(function () { var res; var pr = (async function () { for await (var x of [P]) { await new Promise(r => res = r); return x } })(); return {pr, go() { res() }} })()", "Promise.resolve().then(() => 0).then(() => { H.go(); H.pr.then(v => print(v.n)) })"),
    ("map-key", None, "new Map([[P, 1]])", "print([...H.keys()][0].n)"),
    ("map-value", None, "new Map([[1, P]])", "print(H.get(1).n)"),
    ("map-deleted-then-readded", None, "(m => (m.set(1, 0), m.delete(1), m.set(2, P), m))(new Map())", "print(H.get(2).n)"),
    ("set-member", None, "new Set([P])", "print([...H][0].n)"),
    ("map-iterator", None, "new Map([[1, P]]).values()", "print(H.next().value.n)"),
    ("map-entries-iterator-started", None, "(it => (it.next(), it))(new Map([[0, 0], [1, P]]).entries())", "print(H.next().value[1].n)"),
    ("set-iterator", None, "new Set([P]).values()", "print(H.next().value.n)"),
    ("array-iterator", None, "[P][Symbol.iterator]()", "print(H.next().value.n)"),
    ("array-entries-iterator", None, "[0, P].entries()", "H.next(); print(H.next().value[1].n)"),
    ("arraylike-iterator", None, "Array.prototype.values.call({length: 1, 0: P})", "print(H.next().value.n)"),
    ("typedarray-iterator-buffer-tag", None, "(b => (b.tag = P, new Uint8Array(b).values()))(new ArrayBuffer(2))", "H.next(); print('it')"),
    ("iterator-helper-map", None, "[P].values().map(x => x)", "print(H.next().value.n)"),
    ("iterator-helper-filter", None, "[P].values().filter(x => true)", "print(H.next().value.n)"),
    ("iterator-helper-take", None, "[P].values().take(1)", "print(H.next().value.n)"),
    ("iterator-helper-drop", None, "[0, P].values().drop(1)", "print(H.next().value.n)"),
    ("iterator-helper-flatmap", None, "[0].values().flatMap(x => [P])", "print(H.next().value.n)"),
    ("iterator-helper-flatmap-inner-live", None, "(it => (it.next(), it))([0].values().flatMap(x => [1, P]))", "print(H.next().value.n)"),
    ("iterator-from-object", None, "Iterator.from({next() { return {value: P, done: false} }})", "print(H.next().value.n)"),
    ("iterator-helper-mapper-closure", None, "[1].values().map(x => P)", "print(H.next().value.n)"),
    ("arguments-mapped", None, "(function (a) { return arguments })(P)", "print(H[0].n)"),
    ("arguments-unmapped", None, '(function (a) { "use strict"; return arguments })(P)', "print(H[0].n)"),
    ("arguments-mapped-via-param-env", None, "(function (a) { var args = arguments; return () => args[0] })(P)", "print(H().n)"),
    ("arguments-mapped-reassigned", None, "(function (a) { a = P; return arguments })(0)", "print(H[0].n)"),
    ("promise-fulfilled", None, "Promise.resolve(P)", "H.then(v => print(v.n))"),
    ("promise-rejected", None, "(pr => (pr.catch(() => 0), pr))(Promise.reject(P))", "H.catch(v => print(v.n))"),
    ("promise-reaction-closure", None, "new Promise(r => setTimeoutish = r).then(() => P)", "setTimeoutish(); H.then(v => print(v.n))"),
    ("promise-thenable-job", None, "Promise.resolve({then(r) { r(P) }})", "H.then(v => print(v.n))"),
    ("promise-all", None, "Promise.all([Promise.resolve(P), 1])", "H.then(v => print(v[0].n))"),
    ("promise-all-pending-element", None, "(function () { var res; var pr = Promise.all([P, new Promise(r => res = r)]); pr.res = res; return pr })()", "H.res(); H.then(v => print(v[0].n))"),
    ("promise-allsettled", None, "Promise.allSettled([Promise.reject(P)])", "H.then(v => print(v[0].reason.n))"),
    ("promise-any-errors", None, "(pr => (pr.catch(() => 0), pr))(Promise.any([Promise.reject(P)]))", "H.catch(e => print(e.errors[0].n))"),
    ("promise-race", None, "Promise.race([new Promise(() => 0), Promise.resolve(P)])", "H.then(v => print(v.n))"),
    ("promise-finally-passthrough", None, "Promise.resolve(P).finally(() => 0)", "H.then(v => print(v.n))"),
    ("promise-withresolvers", None, "(w => (w.resolve(P), w))(Promise.withResolvers())", "H.promise.then(v => print(v.n))"),
    ("proxy-target", None, "new Proxy(P, {})", "print(H.n)"),
    ("proxy-handler", "{n: 7, get(t, k) { return k === 'self' ? this : undefined }}", "new Proxy({}, P)", "print(H.self.n)"),
    ("proxy-revocable", None, "Proxy.revocable(P, {})", "print(H.proxy.n)"),
    ("proxy-as-prototype", None, "Object.create(new Proxy(P, {}))", "print(H.n)"),
    ("error-cause", None, 'new Error("m", {cause: P})', "print(H.cause.n)"),
    ("aggregate-error", None, "new AggregateError([P])", "print(H.errors[0].n)"),
    ("thrown-and-caught-error-prop", None, "(function () { try { null.x } catch (e) { e.p = P; return e } })()", "print(H.p.n)"),
    ("accessor-getter-closure", None, 'Object.defineProperty({}, "g", {get: function () { return P }})', "print(H.g.n)"),
    ("accessor-setter-closure", None, 'Object.defineProperty({}, "g", {set: function (v) { this.out = P }})', "H.g = 1; print(H.out.n)"),
    ("prototype-link", None, "Object.create(P)", "print(Object.getPrototypeOf(H).n)"),
    ("prototype-of-prototype", None, "Object.create(Object.create(P))", "print(H.n)"),
    ("symbol-keyed", None, '({[Symbol.for("k")]: P})', 'print(H[Symbol.for("k")].n)'),
    ("private-symbol-keyed", None, "(s => ({s, [s]: P}))(Symbol())", "print(H[H.s].n)"),
    ("private-field", None, "new (class { #p = P; get p() { return this.#p } })()", "print(H.p.n)"),
    ("private-method-closure", None, "new (class { #m() { return P } get p() { return this.#m() } })()", "print(H.p.n)"),
    ("private-static", None, "class { static #s = P; static get s() { return this.#s } }", "print(H.s.n)"),
    ("static-field", None, "class { static s = P }", "print(H.s.n)"),
    ("class-heritage-prototype", None, "(function () { function B() {} B.prototype = P; return class extends B {} })()", "print(Object.getPrototypeOf(H.prototype).n)"),
    ("class-computed-key-closure", None, "(k => class { [k.n]() { return k } })(P)", "print(new H()[7]().n)"),
    ("buffer-behind-typedarray", None, "(b => (b.tag = P, new Uint8Array(b)))(new ArrayBuffer(8))", "print(H.buffer.tag.n)"),
    ("buffer-behind-dataview", None, "(b => (b.tag = P, new DataView(b)))(new ArrayBuffer(8))", "print(H.buffer.tag.n)"),
    ("buffer-behind-subarray", None, "(b => (b.tag = P, new Uint16Array(b).subarray(1)))(new ArrayBuffer(8))", "print(H.buffer.tag.n)"),
    ("sparse-array-element", None, "(a => (a[100000] = P, a))([])", "print(H[100000].n)"),
    ("dense-array-element", None, "[1, 2.5, P]", "print(H[2].n)"),
    ("array-after-shift", None, "(a => (a.shift(), a))([0, P])", "print(H[0].n)"),
    ("dictionary-object", None, "(o => { for (var i = 0; i < 40; i++) o['k' + i] = i; o.p = P; delete o.k3; return o })({})", "print(H.p.n)"),
    ("integer-keyed-object", None, "({5: P})", "print(H[5].n)"),
    ("weakmap-value-held-key", None, "(m => (m.set(K, P), m))(new WeakMap())", "print(H.get(K).n)"),
    ("weakmap-value-chain", None, "(m => { var mid = {}; m.set(K, mid); m.set(mid, P); return m })(new WeakMap())", "print(H.get(H.get(K)).n)"),
    ("weakref-target-of-held", None, "(o => ({o, w: new WeakRef(o)}))(P)", "print(H.w.deref().n)"),
    ("regexp-expando-lastindex-object", None, "(r => (r.tag = P, r))(/a/g)", "print(H.tag.n)"),
    ("date-expando", None, "(d => (d.tag = P, d))(new Date(0))", "print(H.tag.n)"),
    ("function-property", None, "(f => (f.tag = P, f))(function () {})", "print(H.tag.n)"),
    ("function-prototype-object", None, "(f => (f.prototype = P, f))(function () {})", "print(new H().n)"),
    ("global-via-new-function", None, '(globalThis.GP = P, new Function("return GP"))', "print(H().n)"),
    ("json-parse-reviver-holder", None, 'JSON.parse("[1]", function (k, v) { return k === "" ? this : P })', "print(H[''][0].n)"),
    ("object-spread-copy", None, "({...{a: P}})", "print(H.a.n)"),
    ("structured-array-of-arrays", None, "[[[[P]]]]", "print(H[0][0][0][0].n)"),
    ("getter-on-class-prototype-closure", None, "(q => new (class { get g() { return q } })())(P)", "print(H.g.n)"),
    ("label-captured-in-switch-scope", None, "(function (q) { switch (1) { case 1: let z = q; return () => z } })(P)", "print(H().n)"),
    ("async-closure-after-await", None, "(function () { var out = {}; (async function () { var q = P; await null; out.f = () => q })(); return out })()", "print(H.f().n)"),
]


def kinds_programs():
    out = []
    for name, payload, ctor, fetch in KINDS:
        out.append('var H, wr, K = {k: 1}, setTimeoutish;\n(function () { var P = %s; wr = new WeakRef(P); H = %s; })();\n'
                   'Promise.resolve().then(() => 0).then(() => 0).then(() => { var junk = []; for (var i = 0; i < 10; i++) junk.push({i}, [i]);\n'
                   'print("W:%s:" + (wr.deref() === undefined ? "dead" : "alive") + ":held");\n%s; });'
                   % (payload or "{n: 7}", ctor, name, fetch))
    return out


def weakgraph_programs():
    """Ephemeron topologies: three WeakMap entries E_i = M_i.set(K_i, V_i); V_0 / V_1 may hold the next key and/or the next map, so that a map
    or a key is reachable only through the value of another entry; every subset of {M1, M2, K1, K2} additionally held by a global; every
    insertion order of the three entries; every value also holds a WeakRef to a global key.  The program then discovers everything reachable
    by has/get from the globals and prints it: whatever it can name is reachable, so the output may not depend on collections."""
    out = []
    names = ["M1", "M2", "K1", "K2"]
    for gmask in range(16):
        glob = [n for b, n in enumerate(names) if gmask >> b & 1]
        for r0 in range(4):
            for r1 in range(4):
                refs = [[n for b, n in enumerate(("K1", "M1")) if r0 >> b & 1], [n for b, n in enumerate(("K2", "M2")) if r1 >> b & 1], []]
                # reachable by the ephemeron rule from the globals
                maps, keys, seen = {"M0"} | {g for g in glob if g[0] == "M"}, {"K0"} | {g for g in glob if g[0] == "K"}, set()
                ch = True
                while ch:
                    ch = False
                    for i in range(3):
                        if i not in seen and f"M{i}" in maps and f"K{i}" in keys:
                            seen.add(i); ch = True
                            for r in refs[i]:
                                (maps if r[0] == "M" else keys).add(r)
                via_value = [i for i in seen if i > 0 and (f"M{i}" not in glob or f"K{i}" not in glob)]
                if not via_value:
                    continue
                for order in itertools.permutations(range(3)):
                    sets = " ".join(f"M{i}.set(K{i}, V{i});" for i in order)
                    src = ('var M0 = new WeakMap(), K0 = {n: "K0"}, G = {}; M0.n = "M0";\n(function () { var M1 = new WeakMap(), M2 = new WeakMap(), K1 = {n: "K1"}, K2 = {n: "K2"}; M1.n = "M1"; M2.n = "M2";\n'
                           + " ".join(f"G.{g} = {g};" for g in glob)
                           + f' var V0 = {{n: "V0", refs: [{", ".join(refs[0])}], wr: new WeakRef(K0)}}, V1 = {{n: "V1", refs: [{", ".join(refs[1])}], wr: new WeakRef(K0)}}, V2 = {{n: "V2", refs: [], wr: new WeakRef(K0)}};\n'
                           + sets + ' })();\nvar junk = []; for (var i = 0; i < 6; i++) junk.push({i});\n'
                           'var maps = [M0], keys = [K0], seen = []; for (var g in G) (G[g] instanceof WeakMap ? maps : keys).push(G[g]);\n'
                           'for (var ch = true; ch;) { ch = false; for (var m of maps.slice()) for (var k of keys.slice()) if (m.has(k)) { var v = m.get(k); if (!seen.includes(v)) { seen.push(v); ch = true; '
                           'for (var r of v.refs) { var l = r instanceof WeakMap ? maps : keys; if (!l.includes(r)) l.push(r) } } } }\n'
                           'print(seen.map(v => v.n).sort().join(), keys.map(k => k.n).sort().join(), maps.map(m => m.n).sort().join(), seen.every(v => v.wr.deref() === K0));')
                    out.append(src)
    return out


def programs(tier):
    fam = []
    fam += F.gen_family("quick")[:: (60 if tier == "quick" else 12)]
    fam += F.class_family("quick")[:: (300 if tier == "quick" else 60)]
    fam += F.destr_family("quick")[:: (300 if tier == "quick" else 60)]
    fam += F.ctl_family(3, ("gen", "async"))[:: (250 if tier == "quick" else 50)]
    return [("strong", p) for p in STRONG + fam] + [("weak", p) for p in WEAK + kinds_programs()] + [("graph", p) for p in weakgraph_programs()]


def mask(trace):
    lines, comp = trace
    return [[l for l in lines if not l.startswith('"W:')], comp]


def weak_ok(lines):
    """Predicates on the masked observations of one run; returns an error text or None."""
    fins = {}
    for l in lines:
        if not l.startswith('"W:'):
            continue
        body = l.strip('"')[2:]
        parts = body.split(":")
        if parts[0] == "fin":
            tok = ":".join(parts[1:])
            fins[tok] = fins.get(tok, 0) + 1
            if tok.endswith(":held"):
                return f"finalization callback for a held object: {l}"
            if fins[tok] > 1:
                return f"finalization callback fired twice: {l}"
        else:
            state, truth = parts[1], parts[2]
            if state == "dead" and truth == "held":
                return f"object reported collected while the program still holds it: {l}"
    return None


def schedules(n, tier):
    sch = [{"gc": {"every": k}} for k in (1, 2, 3, 7, 64)]
    sch.append({"gc": {"every": 1}, "gc_setup": 1})
    sch.append({"gc_setup": 1})
    sch += [{"gc": {"at": [i]}} for i in range(n)]
    if tier == "thorough":
        if n <= 120:
            sch += [{"gc": {"at": [i, j]}} for i, j in itertools.combinations(range(n), 2)]
        else:
            sch += [{"gc": {"at": [i, j]}} for i in range(n) for j in range(i + 1, min(n, i + 24))]
    return sch


def run(chk):
    tier = chk.tier
    progs = programs(tier)
    base = core.run_jobs([{"i": i, "src": p} for i, (_, p) in enumerate(progs)])
    jobs = []
    meta = []
    for i, ((kind, p), b) in enumerate(zip(progs, base)):
        n = int(b["x"]["allocs"])
        sch = schedules(n, tier)
        if kind == "graph" and tier == "quick":
            # the topologies differ only in the weak structure: periodic schedules and a single collection at each of the last 10 allocation points
            sch = [x for x in sch if "every" in x.get("gc", {}) and not x.get("gc_setup")] + [{"gc": {"at": [i]}} for i in range(max(0, n - 10), n)]
        elif kind == "graph":
            sch = [x for x in sch if len(x.get("gc", {}).get("at", [])) < 2]
        for s in sch:
            jobs.append({"i": len(jobs), "src": p, "cfg": s})
            meta.append((i, s))
    res = core.run_jobs(jobs)
    bad = []
    leaks = []
    outcomes = set()
    observed_dead = 0
    alloc_total = 0
    for i, ((kind, p), b) in enumerate(zip(progs, base)):
        outcomes.add(core.sha12(core.trace_of(b)))
        alloc_total += int(b["x"]["allocs"])
        h = b["x"]["heap"]
        if h[1] != h[0]:
            leaks.append((p, {}, h))
        if kind == "weak":
            e = weak_ok(b["lines"])
            if e:
                bad.append((p, {}, e, core.trace_of(b), core.trace_of(b)))
    for j, (i, s), r in zip(jobs, meta, res):
        kind, p = progs[i]
        t, bt = core.trace_of(r), core.trace_of(base[i])
        if kind == "weak":
            observed_dead += sum(1 for l in r.get("lines", []) if l.startswith('"W:') and ":dead:" in l)
            e = weak_ok(r.get("lines", []))
            if e:
                bad.append((p, s, e, bt, t))
            t, bt = mask(t), mask(bt)
        if t != bt:
            bad.append((p, s, "trace differs from the no-collection run", bt, t))
        h = r.get("x", {}).get("heap")
        if h is not None and h[1] != h[0]:
            leaks.append((p, s, h))
    core.confirm([({"src": p, "cfg": s}, None) for p, s, *_ in bad[:0]])
    for p, s, why, bt, t in bad:
        chk.violation({"src": p, "schedule": s}, t, f"{why}: schedule {s} program `{p[:120]}` expected {str(bt)[:100]} observed {str(t)[:100]}",
                      replay={"src": p, "multi": [{}, s]}, expected=bt)
    # leak clause: identify by program and the residue, not by schedule (the same residue under every schedule is one finding)
    seen = set()
    for p, s, h in leaks:
        residue = [h[1][k] - h[0][k] for k in range(4)]
        key = (p, tuple(residue))
        if key in seen:
            continue
        seen.add(key)
        chk.violation({"src": p, "clause": "leak"}, {"residue_after_one_collection": residue, "after_two": [h[2][k] - h[0][k] for k in range(4)]},
                      f"heap not back to baseline after drop + one collection: residue [strong, ephemeron, weakmap, bytes]={residue} (after a second collection {[h[2][k] - h[0][k] for k in range(4)]}) program `{p[:100]}`",
                      replay={"src": p, "multi": [{}, s]}, expected={"residue_after_one_collection": [0, 0, 0, 0]})
    chk.add(evaluations=len(jobs) + len(base), states=len(progs), transitions=len(jobs) + len(base),
            traces_validated_against_impl=2 * len(jobs) + len(base), distinct_nontrivial=len(set(p for _, p in progs)))
    chk.cov["distinct_outcomes"] = len(outcomes)
    chk.cov["allocation_points_explored"] = alloc_total
    chk.cov["weak_observations_reporting_collected"] = observed_dead
    chk.cov["max_deviations"] = 2 if tier == "thorough" else 1
    chk.cov["rule"] = ("E3: programs x {no collection, one collection at EVERY allocation index, Every(k) for k in 1,2,3,7,64, collection at every allocation during "
                       "context creation%s}; states = programs, transitions = executions (program x schedule) on the real engine in fresh contexts; each compared "
                       "with the no-collection trace (weak observations masked and checked by predicates) and each checked for heap residue after drop + one collection"
                       % (", every PAIR of allocation indices (all pairs for n<=120, 24-wide window beyond)" if tier == "thorough" else ""))
    chk.sample({"program": STRONG[0], "schedule": {"gc": {"at": [5]}}})
    chk.sample({"program": WEAK[0], "schedule": {"gc": {"every": 1}}})
    chk.sample({"program": STRONG[4], "schedule": {"gc": {"every": 1}, "gc_setup": 1}})
    if observed_dead == 0:
        raise core.MachineryError("vacuous: no weak observer ever reported a collected object under any schedule")
    chk.assumptions += ["allocation indices are those of the `boa_gc` allocator hook; a collection forced by the byte threshold cannot occur in programs this small (asserted by the no-collection run reporting the same trace)",
                        "premature frees that are never touched again are not observable without a quarantine hook (not built)"]


def replay(rep):
    r = core.run_jobs([rep["replay"]], chunk=1)[0]
    for m, c in zip(r["multi"], rep["replay"]["multi"]):
        print(c, "->", core.trace_of(m), m.get("x", {}).get("heap"))
    return 0
