"""C11 — string behaviour depends only on the code-unit sequence.

Rust half (binary `vc11`, E1): every code-unit sequence of length <= 3 over a 9-unit alphabet (quick) / <= 4 over 11 units
(thorough) plus a few extra sequences (static-table strings, numeric strings, Latin-1 strings aliasing the UTF-8 of another
string) x every construction the crate offers (From impls, JsStr, three builders, slices, concat, leaked/real statics ...)
x every public operation; oracle = the same operation on a plain Vec<u16> (model.rs) and agreement between constructions.

JS half (generic jobs): every sequence built through ~25 JS routes; every ordered pair of routes must be indistinguishable
(===, Object.is, <, Map/Set/property-key identity ...); all-pairs ordering / equality / membership tables against a Python
model on lists of code units.
"""
import json, os
from .. import core
from .. import c11_js as J

PACKAGES = ("vrun", "vc11")
VC11 = os.path.join(core.TARGET, "debug", "vc11")

# perturbation of the model -> operations that must then be reported (sensitivity self-test, run on the length<=2 space)
PERTURBATIONS = {
    "hash_last": {"hash<DefaultHasher>", "JsStr.hash<DefaultHasher>"},
    "cmp_bytes": {"JsString.cmp", "JsStr.cmp"},
    "trim_space": {"trim", "trim_start", "trim_end"},
    "index_from": {"index_of", "JsStr.index_of"},
    "cp_pair": {"code_point_at", "code_points", "to_std_string"},
    "eq_prefix": {"JsString==JsString", "JsStr==JsStr", "JsString==[u16]", "[u16]==JsStr"},
}


def _bucket_case(b):
    return {"half": "rust", "op": b["op"], "rep": b["rep"], "other": b["other"], "class": b["class"]}


def _bucket_observed(b):
    w = b["witness"]
    return {"got": b["got"], "want": b["want"], "kinds": b["kinds"],
            "witness": {"u": w["u"], "w": w["w"], "ctor": w["ctor"], "other": w["other"], "args": w["args"]}}


def _fmt_units(u):
    return "[" + " ".join("%04X" % c for c in u) + "]" if u is not None else "-"


def rust_half(chk):
    tier = chk.tier
    d = core.run_tool(["explore", tier], binary=VC11, timeout=3000)
    for b in d["buckets"]:
        w = b["witness"]
        what = (f"{b['op']} receiver={b['rep']}({'/'.join(b['kinds'])}) other={b['other']} class={b['class']}: "
                f"{b['count']} failing applications, minimal: u={_fmt_units(w['u'])} via {w['ctor']} against {w['other']} "
                f"{_fmt_units(w['w'])} {w['args']} -> {b['got']}, Vec<u16> model says {b['want']}")
        chk.violation(_bucket_case(b), _bucket_observed(b), what,
                      replay={"kind": "rust", "u": w["u"], "w": w["w"], "op": b["op"], "ctor": w["ctor"]}, expected=b["want"])
    chk.add(states=d["states"], transitions=d["transitions"], traces_validated_against_impl=d["validated"],
            evaluations=d["transitions"], distinct_nontrivial=d["sequences"] - 1)
    per_op = {k: v["distinct_outcomes"] for k, v in d["ops"].items()}
    chk.cov["distinct_outcomes_per_operation"] = per_op
    chk.cov["applications_per_operation"] = {k: v["applications"] for k, v in d["ops"].items()}
    chk.part("rust", sequences=d["sequences"], extra_sequences=d["sequences_extra"], valid_utf16=d["sequences_valid_utf16"],
             constructions=d["states"], constructions_by_kind=d["constructions_by_kind"],
             constructions_by_ctor=d["constructions_by_ctor"], cross_operands=d["cross_operands"], needles=d["needles"],
             operations=len(d["ops"]), transitions=d["transitions"], validated=d["validated"],
             failure_buckets=len(d["buckets"]), failing_applications=sum(b["count"] for b in d["buckets"]), wall_s=round(d["wall_s"], 2))
    for s in d["samples"]:
        chk.sample(s)
    # vacuity guard: the operations that can distinguish strings must have seen more than one outcome
    single_valued = {"clone", "get(a..b)==from(model)", "hash-agreement<DefaultHasher>", "hash-agreement<FxHasher>", "pairwise-signature",
                     "FxHashMap<JsString>.get", "HashSet<JsString>.contains", "BTreeMap<JsString>.get"}
    for k, n in per_op.items():
        if n < 2 and k not in single_valued:
            raise core.MachineryError(f"vacuous: operation {k} produced {n} distinct outcome(s)")
    return sum(per_op.values())


def sensitivity(chk):
    """The explorer must report a deliberately broken model (space: length <= 2 + extras). Never touches /repo."""
    res = {}
    for name, must in PERTURBATIONS.items():
        d = core.run_tool(["explore", "selftest", "--perturb", name], binary=VC11, timeout=600)
        ops = {b["op"] for b in d["buckets"] if b["other"] != "str"}
        if not must <= ops:
            raise core.MachineryError(f"insensitive: model perturbation {name} was not reported for {sorted(must - ops)}")
        res[name] = {"reported_operations": len(ops), "failing_applications": sum(b["count"] for b in d["buckets"] if b["other"] != "str")}
    chk.cov["sensitivity"] = res


def _route_violations(chk, job, exp, got_lines, batch, bad):
    if got_lines == exp:
        return
    by_idx = {idx: u for idx, u in batch}
    for k, e in enumerate(exp):
        g = got_lines[k] if k < len(got_lines) else "<missing>"
        if g == e:
            continue
        idx = int(e.split("|")[0])
        u = by_idx[idx]
        names = J.route_names(u)
        gp = g.split("|")
        if len(gp) != 3:
            bad.append((job, {"check": "line", "route_a": "-", "route_b": "-"}, u, g, e))
            continue
        hs = gp[1].split(";")
        for r, name in enumerate(names):
            if r >= len(hs) or hs[r] != J.hexs(u):
                bad.append((job, {"check": "units", "route_a": name, "route_b": "-"}, u, hs[r] if r < len(hs) else "<missing>", J.hexs(u)))
        n = len(names)
        for p, ch in enumerate(gp[2]):
            if ch != "." and p < n * n:
                bad.append((job, {"check": "pair:" + ch, "route_a": names[p // n], "route_b": names[p % n]}, u, ch, "."))


def _confirm(jobs_results):
    """core.confirm compares whole result records, but `x.allocs` depends on a job's position in its batch; the verdict here
    only uses lines + completion, so those are what must replay identically."""
    jobs = [j for j, _ in jobs_results]
    if not jobs:
        return
    for _ in range(2):
        again = core.run_jobs(jobs, chunk=1)
        for (j, r), r2 in zip(jobs_results, again):
            if core.trace_of(r) != core.trace_of(r2):
                raise core.MachineryError("nondeterministic replay of a failing case: " + json.dumps(j)[:300])


def js_half(chk):
    tier = chk.tier
    base = J.sequences(J.ALPHA_QUICK, 3)
    per_seq = base if tier == "quick" else J.sequences(J.ALPHA_QUICK, 4)
    jobs, exps, metas = [], [], []
    bsz = 24
    indexed = list(enumerate(per_seq))
    for k in range(0, len(indexed), bsz):
        batch = indexed[k:k + bsz]
        job, exp = J.routes_job(batch)
        jobs.append(job); exps.append(exp); metas.append(("routes", batch))
    rows = 26
    for lo in range(0, len(base), rows):
        job, exp = J.cross_job(base, lo, min(len(base), lo + rows))
        jobs.append(job); exps.append(exp); metas.append(("cross", lo))
    job, exp = J.member_job(base)
    jobs.append(job); exps.append(exp); metas.append(("member", None))
    for i, j in enumerate(jobs):
        j["i"] = i
    res = core.run_jobs(jobs)
    bad = []  # (job, case, u, got, want)
    failing = []
    pair_cmp = route_cmp = cross_cmp = member_cmp = 0
    outcomes = set()
    for job, exp, meta, r in zip(jobs, exps, metas, res):
        lines = r.get("lines", [])
        comp = r.get("completion")
        for l in lines:
            outcomes.add(core.sha12(l.split("|", 1)[-1] if meta[0] == "routes" else l.split(":", 1)[-1]))
        if meta[0] == "routes":
            for idx, u in meta[1]:
                n = len(J.route_names(u))
                route_cmp += n
                pair_cmp += n * n * len(J.PAIR_CHECKS)
        elif meta[0] == "cross":
            cross_cmp += len(exp) * len(base) * 4
        else:
            member_cmp += 4 * len(base) * 4 + 5 * len(base)
        if lines == exp and comp == "Value undefined":
            continue
        failing.append((job, r))
        if meta[0] == "routes":
            _route_violations(chk, job, exp, lines, meta[1], bad)
            if comp != "Value undefined":
                bad.append((job, {"check": "completion", "route_a": "-", "route_b": "-"}, meta[1][0][1], comp, "Value undefined"))
        else:
            for k, e in enumerate(exp):
                g = lines[k] if k < len(lines) else "<missing>"
                if g != e:
                    tag = e.split(":")[0] if meta[0] == "member" else "row"
                    # first differing column
                    col = next((c for c in range(min(len(g), len(e))) if g[c] != e[c]), min(len(g), len(e)))
                    bad.append((job, {"check": meta[0] + ":" + tag, "route_a": "fromCharCode",
                                      "route_b": (J.CROSS_OTHERS[int(e.split(":")[1])] if meta[0] == "cross" else tag)}, [],
                                g[max(0, col - 20):col + 20], e[max(0, col - 20):col + 20]))
            if comp != "Value undefined":
                bad.append((job, {"check": "completion", "route_a": meta[0], "route_b": "-"}, [], comp, "Value undefined"))
    _confirm(failing)
    # one violation per (check, route pair); the witness is the smallest sequence (enumeration order = job order)
    seen = {}
    for job, case, u, got, want in bad:
        key = json.dumps(case, sort_keys=True)
        if key not in seen:
            seen[key] = (job, case, u, got, want)
    for job, case, u, got, want in seen.values():
        c = dict(case); c["half"] = "js"
        chk.violation(c, {"u": u, "got": got, "want": want},
                      f"JS-visible: {case['check']} {case['route_a']} vs {case['route_b']} on u={_fmt_units(u)}: got {got!r:.80}, want {want!r:.80}",
                      replay={"kind": "js", "job": {k: v for k, v in job.items() if k != 'i'},
                              "expected": exps[job["i"]]}, expected=want)
    n_cases = sum(len(J.route_names(u)) for u in per_seq)
    chk.add(states=n_cases, transitions=len(jobs), evaluations=len(jobs),
            traces_validated_against_impl=pair_cmp + route_cmp + cross_cmp + member_cmp, distinct_nontrivial=len(per_seq) - 1)
    chk.part("js", sequences_routes=len(per_seq), sequences_cross=len(base), route_strings=n_cases, jobs=len(jobs),
             route_unit_checks=route_cmp, pair_checks=pair_cmp, cross_checks=cross_cmp, member_checks=member_cmp,
             distinct_result_lines=len(outcomes))
    chk.sample({"js_route_case": {"u": per_seq[200], "routes": J.route_names(per_seq[200])}})
    return len(outcomes)


def run(chk):
    d1 = rust_half(chk)
    sensitivity(chk)
    d2 = js_half(chk)
    chk.cov["distinct_outcomes"] = d1 + d2
    chk.cov["rule"] = (
        "E1. Rust half: all code-unit sequences of length <= 3 over {41,20,00,7F,E9,FF,3C0,D83D,DE00} (quick) / <= 4 over that plus "
        "{2028,FEFF} (thorough) + 30 extra sequences; states = distinct (sequence, construction) pairs; transitions = applications of "
        "a boa_string operation; validated = comparisons of a result with the Vec<u16> model (plus signature comparisons between "
        "constructions). Same-sequence operations run on every ordered pair of constructions; cross-sequence binary operations run "
        "(quick) every construction x one construction per representation of every sequence, (thorough) one construction per "
        "representation x the same of every sequence of length <= 3, the extras, the receiver itself and its one-substitution "
        "neighbours; raw [u16]/str operands against every construction. JS half: every sequence (quick alphabet, length <= 3 quick / "
        "<= 4 thorough) x 25-28 routes x all ordered route pairs x 22 observations; 820 x 820 x 3 ordering/equality tables; "
        "Map/Set/property-key membership, key order and default sort against Python lists of code units.")
    chk.assumptions += [
        "the model (harness/crates/vc11/src/model.rs) is the specification of each operation on a plain code-unit array; "
        "std slice operations (get(range), hash with DefaultHasher) are used as the model where the operation is literally a slice operation",
        "FxHasher results are only required to agree between constructions (std's [u16] hash feeds bytes, boa feeds units)",
        "code_point_at(i >= len) (documented panic) and windows(0) are not exercised",
        "cross-sequence operands in the thorough tier are restricted as stated in the rule; length-4 x length-4 pairs other than "
        "one-substitution neighbours are not compared",
        "JS routes through JSON.parse / encodeURIComponent only for well-formed sequences (lone-surrogate rejection is C18's finding)",
    ]


def replay(rep):
    r = rep["replay"]
    print("case:", json.dumps(rep["case"]))
    if r.get("kind") == "rust":
        import subprocess
        p = subprocess.run([VC11, "replay", json.dumps({k: r[k] for k in ("u", "w", "op", "ctor")})])
        return 1 if p.returncode != 0 else 0
    job = dict(r["job"])
    res = core.run_jobs([job], chunk=1)[0]
    exp = r["expected"]
    got = res.get("lines", [])
    ok = got == exp and res.get("completion") == "Value undefined"
    for k, e in enumerate(exp):
        g = got[k] if k < len(got) else "<missing>"
        if g != e:
            print("expected:", e[:300])
            print("observed:", g[:300])
    print("completion:", res.get("completion"))
    return 0 if ok else 1
