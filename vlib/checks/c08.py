"""C08 -- runtime limits stop runaway scripts and cannot be intercepted.

E1, full finite product.  Limit triples (loop L, recursion R, stack S; each also unset) x programs built from every
loop form x activation kind x try-wrapper placement, and from every re-entry route x wrapper x starting context.
Every program exists as a RUNAWAY variant (no terminating bound) and as UNDER-LIMIT variants (same text with a bound).

Oracle (see DESIGN.md "### C08"):
  runaway     (i)   the run ends with a RuntimeLimit error of a kind that is configured and that the program exceeds,
                    reported to the host entry that started the activation chain (evaluation, or run_jobs for jobs);
              (ii)  the trace holds no caught/finally/after line of that activation chain (exact expected trace);
              (iii) __tick() count <= L+2 (loop limit) / frames <= R and ticks <= R (recursion) / ticks <= S (stack);
              (iv)  it ended before the VERIF_FUEL backstop.
  under-limit the trace (lines, completion, job result) equals the trace with every limit unset; where another
              configured limit is too small for the program text itself, a clean stop by THAT limit is the only
              alternative, and the stop/pass boundary is monotone in the bound.
"""
import os, json
from .. import core
from .. import c08_gen as g

FUEL = 5000
DEFAULT_R = 512  # engine default recursion limit (an unset recursion limit is still a configured one)

W3 = [("none", "none"), ("tcf", "tc"), ("n2", "none")]
W4 = [("none", "none"), ("tcf", "none"), ("none", "tc"), ("tf", "tc")]
GRID = {
    # wrapsA: runaway x full limit product; wrapsB: body kind -> wrapper placements (loop limit only, LB values); wrapsC: under-limit
    # extra: (forms, kinds) added to the forms x kinds product with a reduced form list
    "quick": dict(L=[1, 100], R=[2, 64], S=[64], S_loop=[64], L_rec=[1], forms=g.LOOP_FORMS_QUICK, kinds=g.LOOP_KINDS_QUICK, wrapsA=g.WRAPS_QUICK,
                  extra=(["while", "for_cond"], ["script_async1", "asyncgen_pre", "asyncgen_post", "static_block"]),
                  wrapsB={"trycatch": g.WRAPS_QUICK, "trycont": W3}, LB=[1, 100], wrapsC=W3[:2], loopN=[1, 100],
                  routes=g.ROUTES_QUICK, wrapsD=g.WRAPS_QUICK, wrapsE=g.WRAPS_QUICK, starts=["script", "job", "async_post"], wrapsF=W3[:2],
                  recN=[1, 2, 3, 7, 31, 32], acc_L=[1], acc_forms=["while", "for_cond", "forof_arr"], close_wraps=["tc", "tf"]),
    "thorough": dict(L=[0, 1, 2, 7, 100], R=[1, 2, 3, 8, 64], S=[16, 64, 1024], S_loop=[16, 64], L_rec=[0, 100], forms=g.LOOP_FORMS,
                     kinds=[k for k in g.LOOP_KINDS if k != "asyncgen_pre"], wrapsA=W4,
                     extra=(["while", "for_cond", "forof_iter", "forawait_async"], ["asyncgen_pre"]),
                     wrapsB={"plain": g.WRAPS_FULL, "trycatch": g.WRAPS_FULL, "closure": g.WRAPS_QUICK, "trycont": g.WRAPS_QUICK}, LB=[1, 100],
                     wrapsC=W3[:2], loopN=[0, 1, 7, 100],
                     routes=g.ROUTE_NAMES, wrapsD=g.WRAPS_QUICK, wrapsE=g.WRAPS_FULL, starts=list(g.STARTS), wrapsF=W3[:2],
                     recN=[1, 2, 3, 4, 6, 7, 14, 15, 31, 32, 62, 63], acc_L=[1, 3], acc_forms=g.ACC_FORMS,
                     close_wraps=["none", "tc", "tf", "tcf", "n2", "tfb"]),
}
FORIN_L = 100  # the runaway for-in has FORIN_L+5 keys: more than any loop limit of the grid allows


def mkcfg(entry, L, R, S):
    return {"prelude": False, "fuel": FUEL, "entry": entry, "loop": L, "rec": R, "stack": S}


def lim_of(cfg):
    return (cfg["loop"], cfg["rec"], cfg["stack"])


def outcome(r):
    x = r.get("x") or {}
    return {"completion": r.get("completion") or "", "jobs": x.get("jobs"), "lines": r.get("lines", []), "ticks": x.get("ticks"),
            "max_depth": x.get("max_depth")}


def stop_of(o):
    """(where, kind) when a RuntimeLimit error reached a host entry."""
    if o["completion"].startswith("Limit "):
        return ("eval", o["completion"][6:])
    if o["jobs"] and o["jobs"].startswith("Limit "):
        return ("jobs", o["jobs"][6:])
    return None


def trace3(o):
    return [o["lines"], o["completion"], o["jobs"]]


# ------------------------------------------------------------------------------------------------
# which limits may legitimately stop a program of a family under a configuration
# ------------------------------------------------------------------------------------------------
def loop_tight(R, S):
    """Measured: every loop-family program text needs recursion depth <= 5 and <= 48 value-stack slots."""
    return (R is not None and R < 8), (S is not None and S < 64)


def allowed_kinds(meta, cfg):
    L, R, S = lim_of(cfg)
    fam = meta["fam"]
    if fam in ("loop", "acc"):
        tr, ts = loop_tight(R, S)
        ks = {"loop"} if L is not None else set()
        if tr:
            ks.add("recursion")
        if ts:
            ks.add("stack")
        return ks, (tr or ts)
    if fam == "close":
        return ({"loop"} if meta["kind"] == "loop" else {"recursion"}), False
    # recursion family: depth grows, so the stack limit (when set) is exceeded as well
    ks = {"recursion"}
    if S is not None or R is None:  # (the default stack limit 10240 is reached before the default depth 512 by fat activations)
        ks.add("stack")
        if S is not None and R is None and meta["route"] in g.STACK_ROUTES:
            ks = {"stack"}  # fat activations: the stack limit is reached long before the default recursion limit
    tight = (R is not None and R < 3) or (S is not None and S < 64)
    return ks, tight


def judge_runaway(meta, cfg, o):
    """-> None (all predicates hold) or the name of the first failing predicate."""
    L, R, S = lim_of(cfg)
    kinds, tight = allowed_kinds(meta, cfg)
    for c in (o["completion"], o["jobs"] or ""):
        if core.is_bad(c):
            return "iv-fuel-backstop" if "VERIF_FUEL" in c else "engine-failure"
    sk = stop_of(o)
    if sk is None:
        return "i-no-limit-error"
    where, kind = sk
    if kind not in kinds:
        return "i-wrong-kind"
    exp_where = "eval" if meta["chain"] == "sync" else "jobs"
    if where != exp_where and not tight:
        return "i-wrong-entry"
    if where == "jobs" and not o["completion"].startswith("Value"):
        return "i-wrong-entry"
    if o["lines"] != ([] if where == "eval" else meta["sync_lines"]):
        return "ii-marker"
    t, d = o["ticks"], o["max_depth"]
    if meta["fam"] in ("loop", "acc", "close") and meta.get("kind") != "rec":
        if L is not None and t > L + 2 + meta.get("slack", 0):
            return "iii-bound"
    else:
        r = R if R is not None else DEFAULT_R
        if t > r + meta.get("slack", 0) or d > r:
            return "iii-bound"
        if kind == "stack" and S is not None and t > S:
            return "iii-bound"  # every activation occupies at least one slot of the value stack
    return None


def judge_bounded(meta, cfg, o, ref, must):
    """Under-limit variant.  -> (status, pred): status in unaffected / stopped; pred None or the failing predicate."""
    L, R, S = lim_of(cfg)
    if trace3(o) == trace3(ref):
        if meta["fam"] == "rec" and R is not None and o["max_depth"] > R:
            return "unaffected", "iii-bound"
        return "unaffected", None
    if must:
        return "stopped", "u-affected"
    kinds, _ = allowed_kinds(meta, cfg)
    kinds = kinds - {"loop"} if meta["fam"] == "loop" else kinds
    for c in (o["completion"], o["jobs"] or ""):
        if core.is_bad(c):
            return "stopped", "engine-failure"
    sk = stop_of(o)
    if sk is None or sk[1] not in kinds:
        return "stopped", "u-unclean"
    if sk[0] == "jobs" and not o["completion"].startswith("Value"):
        return "stopped", "u-unclean"
    # A clean stop: everything printed before the stop is what the unlimited run prints first, nothing after it.
    # (A program that stays under the loop limit can still hit a tight stack/recursion limit midway; the lines
    # it printed before that point are not an observation of the error.)
    if o["lines"] != ref["lines"][:len(o["lines"])]:
        return "stopped", "u-unclean"
    return "stopped", None


def classify(meta, pred, o):
    """Root-cause class of a discrepancy (for grouping known findings)."""
    c = o["completion"]
    if c.startswith("RustPanic") and "async_generator" in c:
        return "asyncgen-start-assert"
    if "EnginePanic: cannot fail per spec" in c or "EnginePanic: cannot fail per spec" in (o["jobs"] or ""):
        return "limit-masked-as-panic"
    if meta.get("route") == "valueof_same":
        return "toprimitive-reentry"
    if meta["fam"] == "close" and pred in ("i-no-limit-error", "ii-marker"):
        return "iterator-close-swallow"
    if meta["chain"] == "job" and pred in ("i-no-limit-error", "u-unclean") and stop_of(o) is None and o["jobs"] is None and c.startswith("Value") \
            and (meta["fam"] == "rec" and meta.get("start") == "async_post" or meta["fam"] == "loop" and (meta["kind"].startswith("async") or meta["form"] in g.AWAIT_FORMS)):
        return "async-continuation-swallow"
    return "other"


# ------------------------------------------------------------------------------------------------
# enumeration: groups = one program text + the configurations it runs under
# ------------------------------------------------------------------------------------------------
def triples(G, fam, need_L=False):
    """The limit product of a family: the loop family uses the stack values that are tight / generous for its programs
    (S_loop; a larger value behaves like unset), the recursion family a reduced loop-limit list (no loops in its programs)."""
    Ls = G["L"] if fam == "loop" else G["L_rec"]
    Ss = G["S_loop"] if fam == "loop" else G["S"]
    out = []
    for L in Ls + [None]:
        if need_L and L is None:
            continue
        for R in G["R"] + [None]:
            for S in Ss + [None]:
                out.append((L, R, S))
    return out


def groups(tier):
    G = GRID[tier]
    seen = set()

    def emit(meta, prog, cfgs, variant, **extra):
        key = (prog["src"], prog["entry"], variant, tuple(cfgs))
        if key in seen:
            return None
        seen.add(key)
        m = dict(meta, chain=prog["chain"], sync_lines=prog["sync_lines"], variant=variant, **extra)
        return {"meta": m, "src": prog["src"], "cfgs": [mkcfg(prog["entry"], *t) for t in cfgs]}

    # ---- loop family --------------------------------------------------------------------------
    tr_L = triples(G, "loop", need_L=True)
    for form, kind in [(f, k) for f in G["forms"] for k in G["kinds"]] + [(f, k) for f in G["extra"][0] for k in G["extra"][1]]:
        if True:
            # A: runaway x full limit product (plain body, 7 wrapper placements)
            for wi, wo in G["wrapsA"]:
                p = g.loop_program(form, kind, wi, wo, "plain", None, FORIN_L)
                if p:
                    x = emit({"fam": "loop", "form": form, "kind": kind, "wrap": [wi, wo], "body": "plain"}, p, tr_L, "runaway")
                    if x:
                        yield x
            # B: runaway x every wrapper placement x body kind (loop limit only)
            for body, ws in G["wrapsB"].items():
                for wi, wo in ws:
                    p = g.loop_program(form, kind, wi, wo, body, None, FORIN_L)
                    if p:
                        x = emit({"fam": "loop", "form": form, "kind": kind, "wrap": [wi, wo], "body": body}, p, [(L, None, None) for L in G["LB"]], "runaway")
                        if x:
                            yield x
            # C: under-limit: N body executions, every triple whose loop limit is >= N (first cfg = no limits)
            for wi, wo in G["wrapsC"]:
                for N in G["loopN"]:
                    p = g.loop_program(form, kind, wi, wo, "plain", N, FORIN_L)
                    if not p:
                        continue
                    n_eff = g.loop_ticks(form, N)
                    # the smallest loop limit of the grid that admits n_eff iterations (the at-the-limit case) and no loop limit: x every (R,S);
                    # the larger loop limits alone
                    Ls = [L for L in G["L"] if n_eff <= L]
                    cf = [(None, None, None)] + [(L, R, S) for L in Ls[:1] for R in G["R"] + [None] for S in G["S_loop"] + [None]]
                    cf += [(L, None, None) for L in Ls[1:]] + [(None, R, None) for R in G["R"]] + [(None, None, S) for S in G["S_loop"]]
                    x = emit({"fam": "loop", "form": form, "kind": kind, "wrap": [wi, wo], "body": "plain", "N": N, "ticks": n_eff}, p, cf, "bounded")
                    if x:
                        yield x
    # ---- recursion family ---------------------------------------------------------------------
    tr_all = triples(G, "rec")
    for route in G["routes"]:
        # D: runaway x full limit product (incl. everything unset = engine defaults)
        for wi, wo in G["wrapsD"]:
            p = g.rec_program(route, None, "plain", wi, wo, "script")
            x = emit({"fam": "rec", "route": route, "wrap": [wi, wo], "inner": "plain", "start": "script"}, p, tr_all, "runaway")
            if x:
                yield x
        # E: runaway x wrapper placement x inner body x starting context (recursion limit only)
        for wi, wo in G["wrapsE"]:
            for inner in g.INNERS:
                for start in G["starts"]:
                    p = g.rec_program(route, None, inner, wi, wo, start)
                    x = emit({"fam": "rec", "route": route, "wrap": [wi, wo], "inner": inner, "start": start}, p,
                             [(None, R, None) for R in G["R"]], "runaway")
                    if x:
                        yield x
        # F: under-limit scan over the number of activations
        for wi, wo in G["wrapsF"]:
            for start in (["script", "job"] if tier == "thorough" else ["script"]):
                for N in G["recN"]:
                    p = g.rec_program(route, N, "plain", wi, wo, start)
                    cf = [(None, None, None)] + [(L, R, S) for L in (None, G["L_rec"][0]) for R in G["R"] + [None] for S in G["S"] + [None] if (L, R, S) != (None, None, None)]
                    if start != "script":
                        cf = [t for t in cf if t[0] is None and t[2] is None]
                    x = emit({"fam": "rec", "route": route, "wrap": [wi, wo], "inner": "plain", "start": start, "N": N, "ticks": N}, p, cf, "bounded")
                    if x:
                        yield x
    # ---- close family -------------------------------------------------------------------------
    for route, _ in g.CLOSE_ROUTES:
        for kind in g.CLOSE_KINDS:
            for w in G["close_wraps"]:
                p = g.close_program(route, kind, w)
                cf = [(L, None, None) for L in G["L"]] if kind == "loop" else [(None, R, None) for R in G["R"] if R >= 8]
                x = emit({"fam": "close", "route": route, "kind": kind, "wrap": [w, "none"], "slack": 4}, p, cf, "runaway")
                if x:
                    yield x
    # ---- accounting family --------------------------------------------------------------------
    for L in G["acc_L"]:
        for shape in ("seq_same", "seq_calls", "nested_same", "nested_call"):
            for f1 in G["acc_forms"]:
                for f2 in G["acc_forms"]:
                    for a in range(0, L + 4):
                        for b in range(0, L + 4):
                            src, frames = g.acc_program(shape, f1, a, f2, b)
                            prog = {"src": src, "entry": "script", "chain": "sync", "sync_lines": []}
                            x = emit({"fam": "acc", "shape": shape, "f1": f1, "a": a, "f2": f2, "b": b, "kind": "function"}, prog,
                                     [(None, None, None), (L, None, None)], "acc")
                            if x:
                                yield x
        for n in range(0, L + 5):
            prog = {"src": '__tick(); var s = "ab".repeat(%d); __emit("len:" + s.length);' % n, "entry": "script", "chain": "sync", "sync_lines": []}
            x = emit({"fam": "acc", "shape": "repeat", "f1": "repeat", "a": n, "f2": "-", "b": 0, "kind": "script"}, prog, [(None, None, None), (L, None, None)], "acc")
            if x:
                yield x


# ------------------------------------------------------------------------------------------------
def load_tier_lists(chk):
    """`known-list-thorough:` lines of findings/C08.known (same format as known-list:), used by the thorough tier only."""
    path = os.path.join(core.ROOT, "findings", "C08.known")
    if chk.tier != "thorough" or not os.path.exists(path):
        return
    for line in open(path):
        line = line.strip()
        if not line.startswith("known-list-thorough:"):
            continue
        kv = core._kv(line[len("known-list-thorough:"):])
        if kv.get("property") != "C08":
            continue
        text = 'class="%s"' % kv.get("class", "")
        for l in open(os.path.join(core.ROOT, kv["file"])):
            p = l.split(None, 2)
            if len(p) >= 2:
                chk.findings.known[(p[0], p[1])] = text


def case_of(grp, cfg):
    return {"fam": grp["meta"]["fam"], "variant": grp["meta"]["variant"], "src": grp["src"],
            "cfg": {k: cfg[k] for k in ("entry", "loop", "rec", "stack")}}


def observed_of(pred, o):
    return {"pred": pred, "completion": o["completion"][:120], "jobs": o["jobs"], "lines": o["lines"]}


FLIP = set(x for x in os.environ.get("C08_FLIP", "").split(",") if x)  # sensitivity demonstration only: perturbs the ORACLE (never the engine)


def judge_group(grp, res, stats):
    """-> list of (cfg, pred, outcome, expected-text)"""
    meta = grp["meta"]
    outs = [outcome(r) for r in res["multi"]]
    bad = []
    for cfg in grp["cfgs"]:
        k = "".join(n for n, v in zip("LRS", lim_of(cfg)) if v is not None) or "none-set"
        stats["limits_set"][k] = stats["limits_set"].get(k, 0) + 1
    v = meta["variant"]
    fam = meta["fam"]
    if v == "runaway":
        for cfg, o in zip(grp["cfgs"], outs):
            pred = judge_runaway(meta, cfg, o)
            if "require-caught" in FLIP and pred is None and any("try" in w for w in [grp["src"]]) and not any(l.startswith("caught") for l in o["lines"]):
                pred = "flip-require-caught"
            if "ticks-L" in FLIP and pred is None and fam == "loop" and cfg["loop"] is not None and o["ticks"] > cfg["loop"]:
                pred = "flip-ticks-L"
            stats["preds"] += 1
            sk = stop_of(o)
            stats["stopped_by"][(fam, sk[1] if sk else "NOT-STOPPED")] = stats["stopped_by"].get((fam, sk[1] if sk else "NOT-STOPPED"), 0) + 1
            stats["outcomes"].add((fam, "runaway", o["completion"][:40], o["jobs"], len(o["lines"]), pred))
            if pred:
                bad.append((cfg, pred, o, "Limit %s at %s, lines %s" % ("|".join(sorted(allowed_kinds(meta, cfg)[0])),
                                                                         "evaluation" if meta["chain"] == "sync" else "run_jobs", meta["sync_lines"])))
    elif v == "bounded":
        ref = outs[0]
        stats["preds"] += 1
        if not ref["completion"].startswith("Value") or ref["jobs"] is not None or ref["ticks"] != meta["ticks"] or not any(l.startswith("after:in") or l.startswith("after:out") for l in ref["lines"]):
            # the reference run itself is not the intended terminating program
            if not (meta["ticks"] == 0 and ref["completion"].startswith("Value") and ref["jobs"] is None):
                bad.append((grp["cfgs"][0], "ref-sanity", ref, "terminates with %d ticks when no limit is set" % meta["ticks"]))
        for cfg, o in zip(grp["cfgs"][1:], outs[1:]):
            L, R, S = lim_of(cfg)
            if fam == "loop":
                tr, ts = loop_tight(R, S)
                must = not (tr or ts)
            else:
                N = meta["N"]
                extra = 4 if meta["start"] != "script" else 0  # measured: the job / continuation machinery under the first call
                must = ((2 * N + 2 + extra <= R) if R is not None else N <= 200) and (S is None or 64 * (N + 2) <= S)
            status, pred = judge_bounded(meta, cfg, o, ref, must)
            if "no-under-limit" in FLIP and status == "unaffected" and pred is None and cfg["loop"] is not None and fam == "loop" and meta["ticks"] == cfg["loop"]:
                pred = "flip-at-limit-must-stop"
            stats["cmps"] += 1
            stats["under"][(fam, status, must)] = stats["under"].get((fam, status, must), 0) + 1
            stats["outcomes"].add((fam, "bounded", status, o["completion"][:40], o["jobs"], pred))
            if pred:
                bad.append((cfg, pred, o, "trace of the run without limits: %s" % trace3(ref)))
        stats["mono"].setdefault((fam, meta.get("form") or meta.get("route"), meta.get("kind") or meta.get("start"), tuple(meta["wrap"])), []).append(
            (meta["N"], [(lim_of(c), trace3(o) == trace3(ref)) for c, o in zip(grp["cfgs"][1:], outs[1:])], grp))
    elif v == "acc":
        ref, o = outs
        cfg = grp["cfgs"][1]
        L = cfg["loop"]
        shape, f1, a, f2, b = meta["shape"], meta["f1"], meta["a"], meta["f2"], meta["b"]
        if shape == "repeat":
            total, single, nexec, eticks = a, a, 1, 1
            model = (a > L + 1, 1)
        else:
            total, single, nexec, eticks = g.acc_totals(shape, f1, a, f2, b)
            model = g.acc_model_nested_call(f1, a, f2, b, L) if shape == "nested_call" else g.acc_model(g.acc_program(shape, f1, a, f2, b)[1], L)
        stats["preds"] += 1
        stopped = stop_of(o) is not None
        same = trace3(o) == trace3(ref)
        pred = None
        if not ref["completion"].startswith("Value") or ref["ticks"] != eticks:
            pred, o = "ref-sanity", ref
        elif not stopped and not same:
            pred = "u-unclean"
        elif stopped and judge_runaway(dict(meta, slack=max(0, total)), cfg, o) not in (None,):
            pred = "acc-" + judge_runaway(dict(meta, slack=max(0, total)), cfg, o)
        elif total + nexec <= L + 1 and stopped:
            pred = "u-affected"  # under the limit by every reading of "loop iterations"
        elif single >= L + 3 and not stopped:
            pred = "i-no-limit-error"  # one loop execution alone exceeds the limit
        elif (stopped, o["ticks"]) != (model[0], model[1] if shape != "repeat" else o["ticks"]):
            pred = "acc-model"  # differs from the documented per-CallFrame counter (docs/vm.md)
        stats["acc"][(shape, "stopped" if stopped else "completed", "model-agrees" if pred != "acc-model" else "model-differs")] = \
            stats["acc"].get((shape, "stopped" if stopped else "completed", "model-agrees" if pred != "acc-model" else "model-differs"), 0) + 1
        stats["outcomes"].add(("acc", shape, stopped, pred))
        if pred:
            bad.append((cfg, pred, o, "per-frame counter model: stopped=%s ticks=%s" % model))
    return bad


def check_monotone(stats):
    """For a fixed program shape and configuration the pass/stop boundary must be monotone in the bound N."""
    bad = []
    n = 0
    for key, rows in stats["mono"].items():
        rows.sort(key=lambda r: r[0])
        if len(rows) < 2:
            continue
        lims = []
        for _, col, _ in rows:
            for lim, _ in col:
                # loop family: configurations with a loop limit exist only for the bounds below it -> compare the L-unset ones
                if lim not in lims and (key[0] != "loop" or lim[0] is None):
                    lims.append(lim)
        for lim in lims:
            seen_stop = None
            for N, col, grp in rows:
                d = dict(col)
                if lim not in d:
                    continue
                n += 1
                if not d[lim] and seen_stop is None:
                    seen_stop = N
                elif d[lim] and seen_stop is not None:
                    bad.append((key, lim, seen_stop, N, grp))
    return bad, n


def run(chk):
    tier = chk.tier
    load_tier_lists(chk)
    stats = {"preds": 0, "cmps": 0, "stopped_by": {}, "under": {}, "outcomes": set(), "mono": {}, "acc": {}, "limits_set": {}}
    states = transitions = 0
    per_fam = {}
    pending = []
    allbad = []
    cap = 40000  # executions per batch (bounds memory)

    def flush():
        nonlocal pending
        if not pending:
            return
        jobs = [{"i": i, "src": grp["src"], "multi": grp["cfgs"]} for i, grp in enumerate(pending)]
        res = core.run_jobs(jobs)
        for grp, r in zip(pending, res):
            if "multi" not in r:
                raise core.MachineryError("no multi result: " + json.dumps(r)[:300])
            for cfg, pred, o, exp in judge_group(grp, r, stats):
                allbad.append((grp, cfg, pred, o, exp))
        pending = []

    n_exec = 0
    samples = {}
    only = [x for x in os.environ.get("C08_ONLY", "").split(",") if x]  # debugging aid: restrict to families (evidence is then partial)
    for grp in groups(tier):
        m = grp["meta"]
        if only and m["fam"] not in only:
            continue
        states += len(grp["cfgs"])
        transitions += len(grp["cfgs"])
        pf = per_fam.setdefault((m["fam"], m["variant"]), {"programs": 0, "executions": 0})
        pf["programs"] += 1
        pf["executions"] += len(grp["cfgs"])
        samples.setdefault((m["fam"], m["variant"]), {"family": m["fam"], "variant": m["variant"], "src": grp["src"], "cfg": grp["cfgs"][-1]})
        pending.append(grp)
        n_exec += len(grp["cfgs"])
        if n_exec >= cap:
            flush()
            n_exec = 0
    flush()

    mono_bad, mono_n = check_monotone(stats)
    stats["mono"] = None

    # report: new (not listed) violations are confirmed by re-execution first
    new = []
    for grp, cfg, pred, o, exp in allbad:
        case, obs = case_of(grp, cfg), observed_of(pred, o)
        if chk.findings.lookup(core.sha12(case), core.sha12(obs)) is None:
            new.append(({"src": grp["src"], "multi": [grp["cfgs"][0], cfg]}, None))
    if new:
        first = core.run_jobs([j for j, _ in new[:200]], chunk=1)
        core.confirm(list(zip([j for j, _ in new[:200]], first)))
    classes = {}
    for grp, cfg, pred, o, exp in allbad:
        m = grp["meta"]
        cls = classify(m, pred, o)
        classes[cls] = classes.get(cls, 0) + 1
        chk.violation(case_of(grp, cfg), observed_of(pred, o),
                      "[%s] %s %s %s under L,R,S=%s: predicate %s fails: completion=%s jobs=%s lines=%s ticks=%s depth=%s :: %s" % (
                          cls, m["fam"], m["variant"], {k: v for k, v in m.items() if k in ("form", "kind", "route", "start", "wrap", "body", "inner", "N", "shape", "f1", "a", "f2", "b")},
                          list(lim_of(cfg)), pred, o["completion"][:60], o["jobs"], o["lines"], o["ticks"], o["max_depth"], grp["src"][:400]),
                      replay={"src": grp["src"], "cfgs": [grp["cfgs"][0], cfg], "meta": m}, expected=exp)
    for key, lim, n1, n2, grp in mono_bad:
        chk.violation({"fam": "mono", "key": list(map(str, key)), "lim": list(lim)}, {"stopped_at": n1, "passes_at": n2},
                      "[monotone] %s under %s: stopped with bound %d but unaffected with larger bound %d" % (key, lim, n1, n2),
                      replay={"src": grp["src"], "cfgs": grp["cfgs"][:2], "meta": grp["meta"]}, expected="monotone")

    chk.add(evaluations=transitions, states=states, transitions=transitions,
            traces_validated_against_impl=stats["preds"] + stats["cmps"] + mono_n,
            distinct_nontrivial=sum(v["programs"] for v in per_fam.values()))
    chk.cov["distinct_outcomes"] = len(stats["outcomes"])
    chk.cov["rule"] = ("E1 full finite product: limit triples L in %s, R in %s, S in %s (each also unset) x programs "
                       "(loop forms %d x activation kinds %d x wrapper placements x body kinds; re-entry routes %d x wrappers x inner bodies x starting contexts; "
                       "iterator-close routes %d; two-loop accounting shapes). states = distinct (program text, entry, limit triple) cases; transitions = executions "
                       "on the real engine, each in a fresh context; traces_validated = runaway predicate evaluations (%d) + under-limit trace comparisons (%d) + "
                       "monotonicity comparisons (%d)" % (GRID[tier]["L"], GRID[tier]["R"], GRID[tier]["S"], len(GRID[tier]["forms"]), len(GRID[tier]["kinds"]),
                                                          len(GRID[tier]["routes"]), len(g.CLOSE_ROUTES), stats["preds"], stats["cmps"], mono_n))
    for (fam, var), v in sorted(per_fam.items()):
        chk.part("%s/%s" % (fam, var), **v)
    chk.cov["runaway_stopped_by"] = {"%s:%s" % k: v for k, v in sorted(stats["stopped_by"].items())}
    chk.cov["executions_by_limits_set"] = dict(sorted(stats["limits_set"].items()))
    chk.cov["under_limit"] = {"%s:%s:%s" % (f, s, "required-unaffected" if m else "tight-limit") : v for (f, s, m), v in sorted(stats["under"].items())}
    chk.cov["accounting"] = {"%s:%s:%s" % k: v for k, v in sorted(stats["acc"].items())}
    chk.cov["discrepancy_classes"] = classes
    for k in sorted(samples):
        chk.sample(samples[k], limit=8)
    if only:
        chk.cov["exhaustive"] = False
        chk.cov["caps_hit"].append("C08_ONLY=%s" % ",".join(only))
    chk.assumptions += [
        "an unset recursion / stack limit means the engine default (512 / 10240), which is itself a configured limit",
        "frame high-water mark = VM frame count seen by __depth() (includes the engine's root frame and the script frame); __depth() is itself a native call "
        "and is refused at the limit, so the bound is max_depth <= R with no further harness constant (measured: direct recursion reaches exactly R)",
        "loop-family program texts need recursion depth <= 5 and <= 48 stack slots (measured); below R=8 / S=64 a clean stop by that limit is accepted",
        "under-limit recursion is REQUIRED unaffected only when 2N+2 (+4 in jobs) <= R, the engine charging at most a VM frame plus a host re-entry per activation",
        "an endless chain of promise jobs is outside the property (limits bound one evaluation or job)",
        "value-stack balance after a limit hit is C07's subject (defect #1): every execution uses a fresh context",
        "builtin loops (Array.prototype methods etc.) are not counted by the loop limit, except String.prototype.repeat",
    ]


def replay(rep):
    rp = rep["replay"]
    meta = rp["meta"]
    job = {"src": rp["src"], "multi": rp["cfgs"]}
    r = core.run_jobs([job], chunk=1)[0]
    outs = [outcome(x) for x in r["multi"]]
    print("program:", rp["src"])
    print("limits (L,R,S):", lim_of(rp["cfgs"][1]), " entry:", rp["cfgs"][1]["entry"])
    print("expected:", rep.get("expected"))
    print("observed:", outs[1])
    if meta["variant"] == "runaway":
        pred = judge_runaway(meta, rp["cfgs"][1], outs[1])
    elif meta["variant"] == "bounded":
        print("reference (no limits):", outs[0])
        pred = None if trace3(outs[0]) == trace3(outs[1]) else "differs-from-reference"
    else:
        stats = {"preds": 0, "cmps": 0, "stopped_by": {}, "under": {}, "outcomes": set(), "mono": {}, "acc": {}, "limits_set": {}}
        bad = judge_group({"meta": meta, "src": rp["src"], "cfgs": rp["cfgs"]}, r, stats)
        pred = bad[0][1] if bad else None
    print("failing predicate:", pred)
    return 1 if pred else 0
